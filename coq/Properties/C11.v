(* C11 -- Bulk/interrupt IN endpoints deliver the stream exactly once, in order.

   Model: Model/InXfer.v (USBInTransferManager as wired by USBStreamInEndpoint; parametric in max_packet_size
   and the endpoint number; `discard` tied to 0).  Specification: the observer c11_mon of Model/InXfer.v, which
   contains the host (expected toggle s_h, de-duplication of retried packets) and judges, cycle by cycle, the
   interface signals of the endpoint:
     V1  an IN token for this endpoint (while nothing is on the wire and no handshake is outstanding) is answered at
         once by exactly one of NAK / zero-length packet / data packet; NAK only if no packet is due (nothing to retry,
         no ZLP owed, fewer than mps pending bytes and none of them marked `last`); no token, no NAK and no tx.valid;
     V2  a data packet keeps tx.valid high, marks exactly its first byte with tx.first, has at most mps bytes;
     V3  after a time-out (new token without ACK) the packet is repeated with the same PID and payload; any other
         packet carries the toggle the host expects;
     V4  a packet the host takes is a prefix of the pending stream, has a `last` byte at most at its end, and is
         zero-length if a ZLP is owed; a ZLP is owed exactly after a full-size packet ending in a `last` byte.
     V5  a packet that is not a retry is full-size, or ends in a `last` byte, or is the owed ZLP, or flush has been asserted
         since the previous packet completed (no premature short packet in mid-transfer);
     V6  stream.ready is high whenever the pending stream holds fewer than mps bytes and no `last` byte.
   Environment (c11_env): the host ACKs only what it received, once, before its next token; ACK and new_token
   strobes never coincide; no ClearFeature(ENDPOINT_HALT) for this endpoint (C14).  Stream valid/last/flush, tx.ready,
   token timing, lost packets and lost ACKs (ghost bit i_rcv + absent ACK) are unrestricted. *)
From Coq Require Import NArith List Bool Lia. Import ListNotations.
From LunaLib Require Import Netlist Machine.
From LunaModel Require Import InXfer InXfer_proofs.

(* (1) For every max_packet_size >= 1, every endpoint number and every input history (any length), the
   specification monitor never reports a violation on the model's run from reset. *)
Theorem C11_in_endpoint_meets_spec : forall mps ep, (1 <= mps)%nat -> forall ins,
  c11_check mps ep sp_init (combine ins (ix_run true true mps ep (ix_init mps) ins)) = true.
Proof. exact refines. Qed.
Print Assumptions C11_in_endpoint_meets_spec.

(* (2) Exactly once, in order: bytes taken by the host ++ bytes pending = bytes handed over by the stream; at
   most two packets are pending. *)
Theorem C11_exactly_once_in_order : forall mps ep, (1 <= mps)%nat -> forall ins,
  let ios := combine ins (ix_run true true mps ep (ix_init mps) ins) in
  let s := c11_state mps ep sp_init ios in
  s_in s = s_host s ++ map fst (s_pend s) /\
  (length (s_pend s) <= 2 * mps)%nat /\
  (c11_env_all mps ep sp_init ios = true -> accepted_bytes ios = s_host s ++ map fst (s_pend s)).
Proof. exact exactly_once. Qed.
Print Assumptions C11_exactly_once_in_order.

(* (3) The same on packed words (what the netlist ties use): the monitor accepts the decoded run of the packed
   model whose tx.payload is masked while tx.valid is low. *)
Theorem C11_packed_model_meets_spec : forall mps ep, (1 <= mps)%nat -> forall ws,
  c11_check mps ep sp_init
    (combine (map ix_in_of ws) (map ix_out_of (run (ix_mstep_n true true mps ep) (ix_init mps) ws))) = true.
Proof. exact packed_refines. Qed.
Print Assumptions C11_packed_model_meets_spec.

(* (4) About the specification alone (any implementation): a cycle without violation keeps
   "handed over = taken by the host ++ pending". *)
Theorem C11_spec_conserves_stream : forall mps ep s i o s',
  c11_mon mps ep s i o = Some (s', true) -> logs_ok s -> logs_ok s'.
Proof. exact mon_logs. Qed.
Print Assumptions C11_spec_conserves_stream.

(* ---- concrete runs (mps = 2, endpoint 1).  Input word (InXfer.ix_word): valid last flush is_in rfr new_token ack
        tx_ready rcv endpoint clear_halt payload *)
Definition w_byte (b : N) (l : bool) := ix_word true l false false false false false false false 1 0 b.
Definition w_idle := ix_word false false false false false false false false false 1 0 0.
Definition w_tok := ix_word false false false true false true false false false 1 0 0.        (* IN token seen *)
Definition w_rfr := ix_word false false false true true false false false false 1 0 0.         (* ... may be answered now *)
Definition w_rdy (rcv : bool) := ix_word false false false true false false false true rcv 1 0 0.  (* transmitter takes a byte *)
Definition w_ack := ix_word false false false true false false true false false 1 0 0.

(* transfer 11 22 (last): full packet; the host receives it but its ACK is lost; retry (same PID, same bytes, host
   discards the duplicate and ACKs); then the zero-length packet that ends the transfer.  The host has taken 11 22. *)
Definition demo : list N :=
  [w_byte 0x11 false; w_byte 0x22 true; w_tok; w_rfr; w_rdy false; w_rdy true; w_idle;
   w_tok; w_rfr; w_rdy false; w_rdy true; w_ack; w_tok; w_rfr (* ZLP *); w_idle].
Definition demo_ios := combine (map ix_in_of demo) (ix_run true true 2 1 (ix_init 2) (map ix_in_of demo)).
Example C11_demo_env_holds : c11_env_all 2 1 sp_init demo_ios = true.
Proof. vm_compute. reflexivity. Qed.
Example C11_demo_host_view :
  s_host (c11_state 2 1 sp_init demo_ios) = [0x11; 0x22] /\ s_pend (c11_state 2 1 sp_init demo_ios) = [] /\
  map (fun io => (o_valid (snd io), o_pid (snd io), o_payload (snd io))) (firstn 6 (skipn 4 demo_ios))
  = [(true, 0, 0x11); (true, 0, 0x22); (false, 0, 0x11); (false, 0, 0x11); (false, 0, 0x11); (true, 0, 0x11)].
Proof. vm_compute. repeat split. Qed.
(* an IN token finding no data is NAKed *)
Example C11_nak_when_empty :
  map o_nak (ix_run true true 2 1 (ix_init 2) (map ix_in_of [w_tok; w_rfr; w_idle])) = [false; true; false].
Proof. vm_compute. reflexivity. Qed.

(* The code as found (fix_addr = false: WAIT_TO_SEND addresses the packet memory with the stale send_position)
   violates the specification: after a one-byte packet, a two-byte packet whose IN token is answerable one cycle
   after it completed goes out as 33 33 instead of 22 33 (confirmed on the simulator, findings/C11-*.json). *)
Definition bad : list N :=
  [w_byte 0x11 true; w_tok; w_rfr; w_rdy true; w_ack; w_idle;
   w_byte 0x22 false; ix_word true true false true false true false false false 1 0 0x33; w_rfr; w_rdy true; w_rdy true].
Example C11_unfixed_violates :
  let ios := combine (map ix_in_of bad) (ix_run false true 2 1 (ix_init 2) (map ix_in_of bad)) in
  c11_env_all 2 1 sp_init ios = true /\ c11_check 2 1 sp_init ios = false /\
  c11_check 2 1 sp_init (combine (map ix_in_of bad) (ix_run true true 2 1 (ix_init 2) (map ix_in_of bad))) = true.
Proof. vm_compute. repeat split. Qed.
