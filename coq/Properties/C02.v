(* C02 -- USB2 data packets are accepted iff their CRC16 is valid, payload intact.
   Model and specification: Model/Usb2DataRx.v (USBDataPacketReceiver(standalone=True) of
   luna/gateware/usb/usb2/packet.py with its CRC16 unit and interpacket timer).  One list element = one
   `usb` clock cycle; input word = rx_active + 2 rx_valid + 4 rx_data; output word = stream.valid +
   2 stream.next + 4 stream.payload + 2^10 packet_complete + 2^11 crc_mismatch + 2^12 ready_for_response +
   2^13 packet_id.

   The specification machine rxs_step only accumulates the bytes of the packet in progress (a packet is
   a maximal rx_active run, its bytes are the rx_valid cycles of the run after the run's first cycle) and,
   when the packet ends, decides with the declarative function pkt_verdict on the complete byte list:
   V_GOOD (packet_complete) iff the first byte is a DATA0/1/2/MDATA PID byte, at least two bytes follow and
   crc16_usb of all but the last two of them equals the last two (low byte first); V_BAD (crc_mismatch)
   iff PID and length are so but the CRC differs; otherwise nothing.  While a data packet is at least two
   bytes long, each new byte pushes the byte received two bytes earlier onto the stream.  A good packet
   starts the inter-packet delay; ready_for_response is raised D cycles after the packet_complete strobe.

   Environment (rxs_env): rx_valid only with rx_active (UTMI), and rx_active stays low during the D+1
   cycles in which the receiver waits out the delay after a good packet (on a real bus the next SYNC alone
   is longer).  Nothing else is assumed: arbitrary bytes, lengths, rx_valid gaps, packet sequences. *)
From Coq Require Import NArith List Bool. Import ListNotations.
From LunaLib Require Import Netlist Bits Machine.
From LunaModel Require Import Crc IpTimer Usb2DataRx Usb2DataRx_proofs.
Open Scope N_scope.

(* 1. the receiver model equals the specification machine, cycle by cycle, for every timer configuration
      whose delay D for the configured speed is reachable by the counter *)
Theorem C02_receiver_refines : forall cmax w tbl speed D tb tt,
  tbl speed = Some (D, tb, tt) -> D <= cmax + 1 -> cmax + 1 < 2 ^ w ->
  forall tr, env_ok rxs_state (rxs_step D) rxs_env rxs_init tr = true ->
  run (rx_step cmax w tbl speed) rx_init tr = run (rxs_step D) rxs_init tr.
Proof. exact rx_from_reset. Qed.
Print Assumptions C02_receiver_refines.

(* 2. the strobes raised along a history are exactly the verdicts on its packets, in order *)
Theorem C02_verdict_events : forall D tr x,
  filter is_verdict (map o_verdict (run (rxs_step D) rxs_init (tr ++ [x])))
  = filter is_verdict (map pkt_verdict (rx_packets None tr)).
Proof. exact rxs_verdict_events_reset. Qed.
Print Assumptions C02_verdict_events.

(* 3. what the verdict means *)
Theorem C02_verdict_framed : forall p payload lo hi,
  pkt_verdict (p :: payload ++ [lo; hi]) =
  if data_pid_byte p then (if crc16_usb payload =? lo + 256 * hi then V_GOOD else V_BAD) else V_NONE.
Proof. exact pkt_verdict_framed. Qed.
Print Assumptions C02_verdict_framed.

Theorem C02_verdict_short : forall l, (length l <= 2)%nat -> pkt_verdict l = V_NONE.
Proof. exact pkt_verdict_short. Qed.
Print Assumptions C02_verdict_short.

Theorem C02_good_iff : forall l, Forall (fun b => b < 256) l ->
  (pkt_verdict l = V_GOOD <->
   exists p payload, data_pid_byte p = true /\
     l = p :: payload ++ [crc16_usb payload mod 256; crc16_usb payload / 256]).
Proof. exact pkt_verdict_good_iff. Qed.
Print Assumptions C02_good_iff.

(* 4. no cycle shows both strobes *)
Theorem C02_never_both : forall D tr,
  Forall (fun o => o_complete o && o_mismatch o = false) (run (rxs_step D) rxs_init tr).
Proof. intros. apply rxs_never_both. apply rxs_wf_init. Qed.
Print Assumptions C02_never_both.

(* 5. the streamed bytes are exactly the payloads (bytes between PID and CRC) of the data packets, in order;
      for a packet still in progress: its bytes so far minus the last two; nothing for other packets *)
Theorem C02_streamed : forall D tr, env_ok rxs_state (rxs_step D) rxs_env rxs_init tr = true ->
  streamed (run (rxs_step D) rxs_init tr)
  = flat_map pkt_stream (rx_packets None tr) ++ pkt_stream_opt (rx_pending None tr).
Proof. exact rxs_streamed_reset. Qed.
Print Assumptions C02_streamed.

Theorem C02_stream_framed : forall p payload lo hi,
  pkt_stream (p :: payload ++ [lo; hi]) = if data_pid_byte p then payload else [].
Proof. exact pkt_stream_framed. Qed.
Print Assumptions C02_stream_framed.

(* 6. ready_for_response in cycle t implies a packet_complete strobe in cycle t - D *)
Theorem C02_ready_follows_complete : forall D tr t,
  o_ready (nth t (run (rxs_step D) rxs_init tr) 0) = true ->
  (N.to_nat D <= t)%nat /\ o_complete (nth (t - N.to_nat D) (run (rxs_step D) rxs_init tr) 0) = true.
Proof. exact rxs_ready_follows_complete. Qed.
Print Assumptions C02_ready_follows_complete.

(* 7. the full-module model is, by construction, the receiver FSM core (the part tied to the netlist by exhaustive
      reachability) composed with the CRC16 unit of Model/Crc.v (C30) and the counter of Model/IpTimer.v (C05) *)
Theorem C02_model_is_composition : forall cmax w tbl speed s i,
  rx_step cmax w tbl speed s i =
  let '(c', (o, st_crc, st_tm)) :=
    rxo_core (rxo_of s) (rx_act i) (rx_val i) (rx_dat i) (crc_out (x_crc s)) (N.odd (ip_strobes tbl (x_cnt s) speed)) in
  ({| x_fsm := c_fsm c'; x_apid := c_apid c'; x_lo := c_lo c'; x_hi := c_hi c'; x_lbc := c_lbc c'; x_lwc := c_lwc c';
      x_crc := if st_crc then reg_init 16 else crc_reg_next poly16 (x_crc s) [(rx_val i, Bits.N2bits 8 (rx_dat i))];
      x_done := c_done c'; x_bad := c_bad c'; x_pid := c_pid c';
      x_cnt := ip_next cmax w (x_cnt s) st_tm |}, o).
Proof. exact rx_step_compose. Qed.
Print Assumptions C02_model_is_composition.

(* ---- non-vacuity and concrete runs (LUNA's configuration: 60 MHz, full speed, D = 10) ---- *)
Definition c02_pk (bs : list N) : list N := 1 :: map (fun b => 3 + 4 * b) bs.
(* SETUP payload of tests/test_usb2_packet.py with its CRC dd 94, then a DATA1 zero-length packet,
   then a packet with a corrupted CRC, a one-byte packet and a handshake *)
Definition c02_tr : list N :=
  [0] ++ c02_pk [195; 128; 6; 0; 1; 0; 0; 64; 0; 221; 148] ++ repeat 0 14 ++ c02_pk [75; 0; 0] ++ repeat 0 13 ++
  c02_pk [195; 1; 2; 3; 4] ++ [0; 0] ++ c02_pk [195; 7] ++ [0] ++ c02_pk [210] ++ [0; 0].

Example C02_env_holds : env_ok rxs_state (rxs_step 10) rxs_env rxs_init c02_tr = true.
Proof. vm_compute. reflexivity. Qed.
Example C02_config : tbl_60 false FULL = Some (10, 32, 80) /\ 10 <= 640 + 1 /\ 640 + 1 < 2 ^ 10.
Proof. vm_compute. repeat split; discriminate. Qed.
Example C02_packets : rx_packets None c02_tr =
  [[195; 128; 6; 0; 1; 0; 0; 64; 0; 221; 148]; [75; 0; 0]; [195; 1; 2; 3; 4]; [195; 7]; [210]].
Proof. vm_compute. reflexivity. Qed.
Example C02_verdicts : map pkt_verdict (rx_packets None c02_tr) = [V_GOOD; V_GOOD; V_BAD; V_NONE; V_NONE].
Proof. vm_compute. reflexivity. Qed.
Example C02_streamed_bytes : streamed (run (rx_step 640 10 (tbl_60 false) FULL) rx_init c02_tr)
  = [128; 6; 0; 1; 0; 0; 64; 0] ++ [] ++ [1; 2].
Proof. vm_compute. reflexivity. Qed.
Example C02_model_is_spec_here :
  run (rx_step 640 10 (tbl_60 false) FULL) rx_init c02_tr = run (rxs_step 10) rxs_init c02_tr.
Proof. vm_compute. reflexivity. Qed.
(* the runtime oracle accepts the model's own outputs on this history, and its state packing round-trips *)
Example C02_monitor_accepts :
  first_bad (rxs_mon 10) 0 (rxs_enc rxs_init)
            (combine c02_tr (run (rx_step 640 10 (tbl_60 false) FULL) rx_init c02_tr)) = None.
Proof. vm_compute. reflexivity. Qed.
Example C02_monitor_rejects_flipped_strobe :
  first_bad (rxs_mon 10) 0 (rxs_enc rxs_init)
            (combine c02_tr (map (fun o => if o_mismatch o then o - 2048 + 1024 else o)
                                 (run (rx_step 640 10 (tbl_60 false) FULL) rx_init c02_tr))) <> None.
Proof. vm_compute. discriminate. Qed.
