(* C30 -- Every CRC implementation equals its standard definition.
   This file holds the statements that do not depend on the regenerated kernels: the module-level
   theorem for the USB2 CRC16 unit and sanity examples of the reference definitions against values
   recorded in LUNA's own tests.  The per-kernel theorems C30_<kernel> (all register values, all data
   words) are re-proved against the equations regenerated from /repo on every run (props/C30.py). *)
From Coq Require Import NArith List Bool.
Import ListNotations.
From LunaLib Require Import Machine.
From LunaModel Require Import Crc Crc_proofs.

Theorem C30_crc16_module_standard : forall evs reg0 more,
  nth (S (length evs)) (run crc16mod_step reg0 (crc16_start :: map crc16_in evs ++ [more])) 0%N
  = crc16_usb (ev_bytes evs).
Proof. exact crc16mod_standard. Qed.
Print Assumptions C30_crc16_module_standard.

(* reference values: SETUP payload of tests/test_usb2_packet.py (80 06 00 01 00 00 40 00 -> dd 94),
   token CRC5 of address 0x3a endpoint 0xa (test_valid_token: e1 3a 55 -> crc 0x0a),
   USB3 CRC32 of tests/test_usb3_crc.py *)
Example crc16_reference : crc16_usb [128; 6; 0; 1; 0; 0; 64; 0]%N = 38109%N.   (* 0x94dd *)
Proof. vm_compute. reflexivity. Qed.
Example crc16_empty : crc16_usb [] = 0%N.
Proof. vm_compute. reflexivity. Qed.
