(* C25 -- The gateware full-speed PHY encodes and decodes USB line signalling  (PARTIAL: see the end of this file).

   Specification (Model/GwPhyCodec.v): bytes LSB first; `stuff n` inserts a 0 after six consecutive 1s (n = ones already
   on the line: SYNC's final 1 counts, USB 2.0 7.1.9); `nrzi` (0 = transition); `frame bs` = NRZI (SYNC ++ stuffed
   bytes) ++ SE0 SE0 J; `unframe` is the declarative decoder.  `frame0` is the same with the stuffer started at 0 after
   SYNC, which is what LUNA's transmitter does; it equals `frame` unless the first byte starts with five 1s (never a PID).

   Models (Model/GwPhy.v, code-shaped, tied to /repo by the obligations in props/C25.py):
     txu / txio / tx_step   TxShifter + TxBitstuffer + TxPipeline FSM (12 MHz)  /  synchronisers + strobe counter +
                            TxNRZIEncoder (48 MHz)  /  the two-clock GatewarePHY transmit side incl. op-mode mux
     rxf_step               RxPipeline from D+/D- to the write ports of its two FIFOs (48 MHz)
     rxb_step               the same, abstracted to one step per recovered line symbol *)
From Coq Require Import NArith List Bool Lia. Import ListNotations.
From LunaLib Require Import Netlist Machine.
From LunaModel Require Import GwPhyCodec GwPhyCodec_proofs GwPhy GwPhyTxU_proofs GwPhyTxIo_proofs GwPhyRxB_proofs GwPhyRxC_proofs.
Open Scope N_scope.

(* ---- 1. the line code, for all byte sequences ---- *)
Theorem C25_codec_roundtrip : forall bs, Forall (fun b => b < 256) bs -> unframe (frame bs) = RxBytes bs.
Proof. exact unframe_frame. Qed.
Print Assumptions C25_codec_roundtrip.

Theorem C25_unstuff_stuff : forall l n, (n <= 5)%nat -> unstuff n (stuff n l) = Some l.
Proof. exact unstuff_stuff. Qed.
Print Assumptions C25_unstuff_stuff.

(* never more than six consecutive ones on the line, however long the runs of ones in the payload *)
Theorem C25_stuffed_at_most_six_ones : forall l n, (n <= 5)%nat -> (max_ones n (stuff n l) <= 6)%nat.
Proof. exact stuff_max_ones. Qed.
Print Assumptions C25_stuffed_at_most_six_ones.

(* the remover reports a violation exactly when seven ones arrive in a row *)
Theorem C25_violation_iff_seven_ones : forall l n, (n <= 6)%nat -> (unstuff n l = None <-> (7 <= max_ones n l)%nat).
Proof. exact unstuff_none_iff. Qed.
Print Assumptions C25_violation_iff_seven_ones.

Theorem C25_frame0_is_frame : forall bs, first_ok bs -> frame0 bs = frame bs.
Proof. exact frame0_frame. Qed.
Print Assumptions C25_frame0_is_frame.

(* ---- 2. transmit, 12 MHz half in closed loop with a UTMI driver: from ANY state between packets (shifter and
        stuffer hold whatever tx_data showed while tx_valid was low), SYNC and the stuffed bytes are emitted, tx_ready is
        high in exactly one cycle per byte, all bytes are taken, and the state is quiet again ---- *)
Theorem C25_tx_packet_usb : forall s bs g,
  txu_quiet s -> bs <> [] -> Forall (fun b => b < 256) bs ->
  let body := (false, false) :: map (fun b => (b, true)) (sync_bits ++ stuff 0 (bits_of_bytes bs)) in
  (length body <= length g)%nat ->
  map fit_of (tx_loop 8 s bs g) = body ++ repeat (false, false) (length g - length body)
  /\ length (filter rdy_of (tx_loop 8 s bs g)) = length bs
  /\ snd (tx_loop_end 8 s bs g) = []
  /\ txu_quiet (fst (tx_loop_end 8 s bs g)).
Proof. exact tx_packet_usb. Qed.
Print Assumptions C25_tx_packet_usb.

(* ---- 3. transmit, the two-clock machine from reset, any session (any number of packets, any bytes, any idle
        tx_data, every phase at least as long as its packet incl. EOP): D+/D-/oe show, per 4 usb_io steps, idle, then
        frame0 of the bytes (SYNC, stuffed NRZI data, SE0 SE0 J), then idle; tx_ready is up one usb cycle per byte ---- *)
Theorem C25_tx_session_line : forall ph, Forall phase_ok ph ->
  let U := tx_session_in 8 txu_init ph in
  let outs := run (tx_step 8) txs_init (tx_trace 0 U) in
  map tx_line_of outs =
    firstn (length outs) ((false, false, false) :: line_idle ::
                          rep4 (flat_map (fun p => phase_line (fst p) (length (snd p))) ph))
  /\ length (filter tx_ready_of outs) = (4 * length (flat_map fst ph))%nat.
Proof. exact tx_session_line. Qed.
Print Assumptions C25_tx_session_line.

(* ---- 4. receive, symbol level: from any idle state a correctly encoded packet yields start, its bytes, end; the error
        flag stays down; afterwards the machine is idle again ---- *)
Theorem C25_rx_symbols : forall b bs m, rxb_idle b -> Forall (fun x => x < 256) bs ->
  snd (rxb_run b (frame bs ++ repeat SJ m)) = EvStart :: map EvByte bs ++ [EvEnd]
  /\ Forall (fun e => e = false) (rxb_errs b (frame bs ++ repeat SJ m))
  /\ ((1 <= m)%nat -> rxb_idle (fst (rxb_run b (frame bs ++ repeat SJ m)))).
Proof. exact rxb_frame. Qed.
Print Assumptions C25_rx_symbols.

(* ---- 5. receive, cycle level (48 MHz front end up to the FIFO write ports), exact 4x sampling at ANY phase (pre is
        arbitrary >= 7 samples of idle after reset): exactly start flag, the bytes, end flag are written; no error ---- *)
Theorem C25_rx_frame_cycles : forall pre bs m, (7 <= pre)%nat -> Forall (fun b => b < 256) bs ->
  let line := repeat SJ pre ++ rep4 (frame bs ++ repeat SJ (S m)) ++ [SJ; SJ] in
  let outs := run rxf_step rxf_init (map line_word line) in
  flat_map rxf_events outs = EvStart :: map EvByte bs ++ [EvEnd] /\
  Forall (fun o => rxf_err_of o = false) outs.
Proof. exact rx_frame_cycles. Qed.
Print Assumptions C25_rx_frame_cycles.

(* ---- 6. a bit-stuffing violation (seven ones in a row, SYNC's 1 counted) is reported: the end flag is written, and
        whenever it is written the error flag is up (it stays up until the next packet starts) ---- *)
Theorem C25_rx_violation_cycles : forall pre l m, (7 <= pre)%nat -> (7 <= max_ones 1 l)%nat ->
  let line := repeat SJ pre ++ rep4 ((nrzi SJ (sync_bits ++ l) ++ eop) ++ repeat SJ (S m)) ++ [SJ; SJ] in
  let outs := run rxf_step rxf_init (map line_word line) in
  (exists o, In o outs /\ In EvEnd (rxf_events o)) /\
  Forall (fun o => In EvEnd (rxf_events o) -> rxf_err_of o = true) outs.
Proof. exact rx_violation_cycles. Qed.
Print Assumptions C25_rx_violation_cycles.

(* ---- non-vacuity / concrete runs ---- *)
(* a session satisfying phase_ok: 3 idle cycles, DATA0 + FF FF (long runs of ones -> stuffed), ACK *)
Example C25_session_ok :
  Forall phase_ok [([], [255; 255; 255]); ([195; 255; 255], repeat 255 40); ([210], repeat 0 22)].
Proof.
  constructor; [split; [constructor | intro H; exfalso; apply H; reflexivity]|].
  constructor; [split; [repeat constructor | intros _; vm_compute; lia]|].
  constructor; [split; [repeat constructor | intros _; vm_compute; lia]|]. constructor.
Qed.

Example C25_rx_example :
  flat_map rxf_events (run rxf_step rxf_init (map line_word (repeat SJ 9 ++ rep4 (frame [195; 255; 63] ++ [SJ; SJ]) ++ [SJ; SJ])))
  = [EvStart; EvByte 195; EvByte 255; EvByte 63; EvEnd].
Proof. vm_compute. reflexivity. Qed.

(* LUNA's transmitter deviates from USB 2.0 only for first bytes that begin with five 1s (not PIDs) *)
Example C25_frame0_differs : frame0 [255] <> frame [255].
Proof. exact frame0_differs. Qed.

(* PARTIAL.  Not covered by a theorem:
   - clock drift / jitter between the 48 MHz sampler and the line (the +-0.25 % of the property): the receive theorems
     assume exact 4x sampling (at any phase); behaviour on jittered lines is only compared model-vs-simulator;
   - the two clock-domain-crossing FIFOs (amaranth.lib.fifo.AsyncFIFOBuffered) between the front end and the UTMI
     rx_data/rx_valid/rx_active outputs: the theorems end at their write ports; the UTMI side is checked by the
     specification monitor rx_mon over simulator traces;
   - loopback TX -> RX is the composition of 3 and 5 for first_ok packets (frame0 = frame), not stated as one theorem. *)
