(* C54 -- PHY reset controllers produce the configured pulses and always finish.
   For all reset/stop lengths r, s >= 1, every counter width w that can hold them, both power-on
   modes and every trigger history, the controller model (Model/PhyReset.v) is output-equivalent
   to the one-counter specification sp_step: after an accepted trigger (or power-on) phy_reset is
   high for exactly r cycles, phy_stop for exactly r+s cycles, then the machine is idle again. *)
From Coq Require Import NArith List Bool. Import ListNotations.
From LunaLib Require Import Machine.
From LunaModel Require Import PhyReset PhyReset_proofs.
Open Scope N_scope.

Theorem C54_phyreset_refines : forall r s w power_on, 1 <= r -> 1 <= s -> r <= 2 ^ w /\ s <= 2 ^ w ->
  forall tr, run (pr_step r s w) (pr_init power_on) tr = run (sp_step r s) (sp_init power_on) tr.
Proof. exact phyreset_from_reset. Qed.
Print Assumptions C54_phyreset_refines.

(* sanity: with r=2, s=3 from power-on: reset+stop 2 cycles, stop 3 more, then idle until trigger *)
Example C54_example :
  run (sp_step 2 3) (sp_init true) [0;0;0;0;0;0;1;0;0] = [3;3;2;2;2;0;0;3;3].
Proof. reflexivity. Qed.
