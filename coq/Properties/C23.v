(* C23 -- ULPI transmit translation delivers the UTMI packet unchanged
   (luna/gateware/interface/ulpi.py: ULPITransmitTranslator; model and specification in Model/UlpiTx.v).

   C23_model_meets_contract   for EVERY input history (tx_data, tx_valid, op_mode, bus_idle, nxt) the model's
       outputs satisfy the cycle-level contract tx_ok as long as the PHY keeps tx_env (NXT is not raised for
       a transmit command that is not yet on the bus): the command TXCMD|PID (NOPID without bit stuffing) is
       offered exactly while the transmission is requested and the bus is available; a UTMI byte is accepted
       (tx_valid & tx_ready) exactly in the cycles in which the PHY takes it (NXT); the body passes tx_data
       through; STP is raised in exactly the first cycle in which tx_valid is low, with 0xFF iff bit stuffing
       is off, 0x00 otherwise.
   C23_contract_gives_packets any cycle sequence satisfying the contract has, packet by packet,
       PHY-received packets = wire (UTMI transmissions): command carrying the PID nibble followed by the
       remaining bytes in order (normal mode) / NOPID followed by all bytes (no bit stuffing), then the
       stop byte; nothing else reaches the PHY.  (Assumes the UTMI discipline utmi_ok, see Model/UlpiTx.v.)
   C23_model_packets          both together for the model. *)
From Coq Require Import NArith List Bool. Import ListNotations.
From LunaLib Require Import Netlist Machine.
From LunaModel Require Import UlpiTx UlpiTx_proofs.
Open Scope N_scope.

Theorem C23_model_meets_contract : forall tr,
  tx_accepts txg0 (map tx_view (ios tx_step tx_init tr)) = true.
Proof. exact tx_model_accepts. Qed.
Print Assumptions C23_model_meets_contract.

Theorem C23_contract_gives_packets : forall cs,
  tx_strict txg0 cs = true -> utmi_ok None cs = true ->
  phy_tx None cs = flat_map wire (utmi_tx None cs).
Proof. exact tx_packets. Qed.
Print Assumptions C23_contract_gives_packets.

Theorem C23_model_packets : forall tr,
  let cs := map tx_view (ios tx_step tx_init tr) in
  tx_env_all txg0 cs = true -> utmi_ok None cs = true ->
  phy_tx None cs = flat_map wire (utmi_tx None cs).
Proof. exact tx_model_packets. Qed.
Print Assumptions C23_model_packets.

(* Non-vacuity.  Input word = tx_data + 256*tx_valid + 512*op_mode + 2048*bus_idle + 4096*nxt.
   Normal mode: the packet C3 11 22 with the PHY throttling the last byte; then idle. *)
Definition ex_normal : list N := [2499; 6595; 6417; 2338; 6434; 2048; 2048].
Example C23_example_normal :
  let cs := map tx_view (ios tx_step tx_init ex_normal) in
  tx_env_all txg0 cs = true /\ utmi_ok None cs = true /\
  utmi_tx None cs = [(0, [195; 17; 34])] /\ phy_tx None cs = [([67; 17; 34], 0)].
Proof. vm_compute. repeat split. Qed.

(* No bit stuffing (op_mode = 2): NOPID command, the byte AA, STP with 0xFF. *)
Definition ex_nostuff : list N := [3498; 7594; 7594; 3072; 2048].
Example C23_example_nostuff :
  let cs := map tx_view (ios tx_step tx_init ex_nostuff) in
  tx_env_all txg0 cs = true /\ utmi_ok None cs = true /\
  utmi_tx None cs = [(2, [170])] /\ phy_tx None cs = [([64; 170], 255)].
Proof. vm_compute. repeat split. Qed.

(* The environment assumption is needed: NXT in the very cycle the request appears (before the command is
   on the bus) makes the translator report the first byte accepted although the PHY cannot have seen the
   command -- tx_env rejects exactly this. *)
Example C23_env_needed :
  tx_env_all txg0 (map tx_view (ios tx_step tx_init [6595])) = false.
Proof. vm_compute. reflexivity. Qed.
