(* C28 -- OUT boundary detection marks first/last bytes and delays completion.

   Statement about the hand model of USBOutStreamBoundaryDetector (Model/BoundaryDet.v), for every
   receive history (any number of packets, any packet length >= 1, any gaps between bytes, strobes
   at any point) that satisfies the one environment assumption bd_env ("no byte in the cycle right
   after a packet ended"):

     packets_of None ins   reads the raw stream as a list of packets (bytes, complete, invalid);
     expected ins          lists, packet by packet, the bytes in order with `first` on the first and
                           `last` on the final byte, followed by the packet's strobe report (if any
                           strobe was seen during the packet);
     events outs           lists what the processed side shows cycle by cycle (a strobe report
                           in a cycle is listed before a byte of the same cycle).

   C28_flushed : after three further idle cycles the processed side has shown exactly `expected`.
   C28_prefix  : at every cut of a history it has shown a prefix of `expected` (nothing early,
                 nothing out of order, nothing invented; in particular no strobe report before the
                 last byte of its packet).
   C28_next_implies_valid : processed.next is only ever high together with processed.valid.      *)
From Coq Require Import NArith List Bool. Import ListNotations.
From LunaLib Require Import Machine.
From LunaModel Require Import BoundaryDet BoundaryDet_proofs.
Open Scope N_scope.

Theorem C28_flushed : forall ins, bd_env ins = true ->
  events (bd_run bd_init (ins ++ flush)) = expected ins.
Proof. exact bd_flushed. Qed.
Print Assumptions C28_flushed.

Theorem C28_prefix : forall ins, bd_env ins = true ->
  exists rest, expected ins = events (bd_run bd_init ins) ++ rest.
Proof. exact bd_prefix. Qed.
Print Assumptions C28_prefix.

Theorem C28_next_implies_valid : forall ins,
  Forall (fun o => o_next o = true -> o_valid o = true) (bd_run bd_init ins).
Proof. intro ins. apply bd_next_valid. discriminate. Qed.
Print Assumptions C28_next_implies_valid.

(* non-vacuity: a history with a 3-byte packet (gap between bytes, `complete` seen when valid
   falls), a 1-byte packet with `invalid`, and strobes outside any packet (ignored). *)
Definition cyc (v n c i : bool) (p : N) : bd_in :=
  {| i_valid := v; i_next := n; i_cin := c; i_iin := i; i_payload := p |}.
Definition C28_hist : list bd_in :=
  [ cyc false false true false 0;                       (* stray strobe outside a packet *)
    cyc true true false false 17; cyc true false false false 0; cyc true true false false 34;
    cyc true true false false 51; cyc false false true false 0;
    cyc false false false false 0;
    cyc true false false false 0; cyc true true false false 68; cyc true false false true 0;
    cyc false false false false 0 ].

Example C28_hist_env : bd_env C28_hist = true.
Proof. reflexivity. Qed.

Example C28_hist_packets :
  packets_of None C28_hist =
  [ {| bytes := [17; 34; 51]; complete := true; invalid := false |};
    {| bytes := [68]; complete := false; invalid := true |} ].
Proof. reflexivity. Qed.

Example C28_hist_expected :
  expected C28_hist =
  [ Byte 17 true false; Byte 34 false false; Byte 51 false true; Strobes true false;
    Byte 68 true true; Strobes false true ].
Proof. reflexivity. Qed.

Example C28_hist_run :
  events (bd_run bd_init (C28_hist ++ flush)) = expected C28_hist.
Proof. reflexivity. Qed.

(* the environment assumption is needed: a byte presented in the cycle right after a packet's end
   is dropped by the module (it is busy reporting strobes), so the bytes would not be preserved *)
Example C28_env_needed :
  let h := [cyc true true false false 1; cyc false false false false 0;
            cyc true true false false 2; cyc true true false false 3; cyc false false false false 0] in
  bd_env h = false /\ events (bd_run bd_init (h ++ flush)) <> expected h.
Proof. split; [reflexivity | discriminate]. Qed.
