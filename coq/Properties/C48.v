(* C48 -- SuperSpeed control requests are decoded and answered exactly.

   Part 1, SuperSpeedSetupDecoder (Model/SsSetupDec.v).
     sd_step true   the property-satisfying decoder (the code of /repo with findings/C48-short-setup-packet.diff and
                    findings/C48-abort-on-first-word.diff);
     sd_step false  the code as it stands;
     ssd_step       the specification: accumulate the (data, valid-mask) words of the packet being delivered and the
                    header's setup flag; when rx_good arrives report iff  is_setup_packet flag words, i.e. the flag is
                    set and the packet consists of exactly two full words (eight bytes); fields = those bytes, LE;
     sd_env_ok      the packet-delivery environment: first/last mark the ends of a packet, only the last word may be
                    partial, one verdict (rx_good xor rx_bad) after the last word or rx_bad as abort; rx_good never
                    shares a cycle with a word, rx_bad may (DataPacketReceiver aborts on a K-symbol in the payload by
                    strobing packet_bad in the very cycle it presents that word: first, middle or last word).
   Part 2, GetDescriptorHandler (Model/SsDesc.v): hd_step descs over C27's specification of the generators;
     hd_xfers = the (valid mask, first, last, payload, tx_length) tuples handed over on tx; hd_expected c ml = the
     beats of ConstGen.answer c 0 ml with tx_length = min(ml, len) (closed form: C27_answer_is_requested_slice). *)
From Coq Require Import NArith List Bool.
Import ListNotations.
From LunaLib Require Import Netlist Machine.
From LunaModel Require Import ConstGen ConstGen_proofs SsSetupDec SsSetupDec_proofs SsDesc SsDesc_proofs.
Open Scope N_scope.

(* (1) On every packet-delivery history, of any length, the decoder's outputs (packet fields and the received
       strobe, cycle by cycle) are those of the specification: a request is reported iff a good packet flagged
       setup carried exactly eight bytes, with those bytes as fields; nothing on rx_bad, on a third word, on short
       or partial packets. *)
Theorem C48_decoder_exact : forall tr, sd_env_ok E0 tr = true ->
  run (sd_step true) sd_init tr = run ssd_step ssd_init tr.
Proof. exact sd_refines_from_reset. Qed.
Print Assumptions C48_decoder_exact.

(* (2) GET_DESCRIPTOR for a known (type, index) and 0 < wLength < 2^16, from reset, any tx.ready pattern: the words
       handed over on tx followed by those still queued (tx register, rest of the generator's answer) are exactly
       the expected answer; in particular once nothing is queued any more, exactly the answer has been sent. *)
Theorem C48_descriptor_stream : forall descs v ml c r0 readys, v < 2 ^ 16 -> 0 < ml -> ml < 2 ^ 16 ->
  sel_cfg descs v = Some c -> hd_cfg_ok c = true ->
  let tr := hd_request v ml r0 readys in
  hd_xfers tr (run (hd_step descs) (hd_init descs) tr) ++ remaining descs v (run_state (hd_step descs) (hd_init descs) tr)
  = hd_expected c ml.
Proof. exact hd_request_from_reset. Qed.
Print Assumptions C48_descriptor_stream.

(* ... and from any state in which the selected generator is idle and the tx register empty (later requests) *)
Theorem C48_descriptor_stream_any : forall descs v ml c g0 st r0 readys, v < 2 ^ 16 -> 0 < ml -> ml < 2 ^ 16 ->
  hd_cfg_ok c = true -> sel_gen descs (h_gens st) v = Some (c, g0) -> q_k g0 = QIdle ->
  wire_valid (h_w st) = 0 -> reg_ok (h_w st) (h_len st) ->
  let tr := hd_request v ml r0 readys in
  hd_xfers tr (run (hd_step descs) st tr) ++ remaining descs v (run_state (hd_step descs) st tr) = hd_expected c ml.
Proof. exact hd_request_stream. Qed.
Print Assumptions C48_descriptor_stream_any.

(* (3) the length field: tx_length = min(wLength, descriptor length) *)
Theorem C48_tx_length : forall c ml, c_hasml c = true -> c_mlw c = 16 -> ml < 2 ^ 16 ->
  olen_of c ml = N.min ml (c_dlen c).
Proof. exact olen_min. Qed.
Print Assumptions C48_tx_length.

(* (3b) the bytes: for every non-empty descriptor (bytes < 256) turned into a 32-bit generator the way the Python
   constructor does (cfg_of_bytes: four bytes per ROM word, little endian) and every 0 < wLength, the valid bytes of
   the answer's words, in order, are the first min(wLength, len) bytes of the descriptor *)
Theorem C48_descriptor_bytes : forall data ml, data <> [] -> Forall (fun b => b < 256) data -> 0 < ml ->
  answer_bytes (cfg_of_bytes data 4 false (Some 16)) ml
  = firstn (N.to_nat (N.min ml (N.of_nat (length data)))) data.
Proof. exact answer_bytes_prefix. Qed.
Print Assumptions C48_descriptor_bytes.

(* (4) wLength = 0: nothing is sent *)
Theorem C48_zero_length : forall descs v c g0 st r0 readys, v < 2 ^ 16 -> hd_cfg_ok c = true ->
  sel_gen descs (h_gens st) v = Some (c, g0) -> q_k g0 = QIdle ->
  wire_valid (h_w st) = 0 -> reg_ok (h_w st) (h_len st) ->
  hd_xfers (hd_request v 0 r0 readys) (run (hd_step descs) st (hd_request v 0 r0 readys)) = [].
Proof. exact hd_zero_length. Qed.
Print Assumptions C48_zero_length.

(* (5) unknown (type, index): stall = start in every cycle, and tx stays silent *)
Theorem C48_unknown_stalls : forall descs v, sel_cfg descs v = None -> forall tr st,
  wire_valid (h_w st) = 0 -> reg_ok (h_w st) (h_len st) -> Forall (fun i => hd_value i = v) tr ->
  Forall2 (fun i o => hd_ovalid o = 0 /\ hd_ostall o = hd_start i) tr (run (hd_step descs) st tr).
Proof. exact hd_unknown. Qed.
Print Assumptions C48_unknown_stalls.

(* ---- the code as it stands does NOT satisfy (1): witnesses inside the environment -------------------- *)
Definition c48_word (v : N) (first last : bool) (data : N) (setup : bool) := sd_in v first last data setup false false.
Definition c48_good := sd_in 0 false false 0 false true false.
Definition c48_idle := sd_in 0 false false 0 false false false.
(* two good four-byte packets, the second not even flagged setup: the code reports a setup packet *)
Definition c48_witness_spurious :=
  [c48_word 15 true true 1144201745 true; c48_good; c48_word 15 true true 2289526357 false; c48_good; c48_idle].
(* a good six-byte packet flagged setup, then a genuine GET_DESCRIPTOR setup packet: the code drops it *)
Definition c48_witness_lost :=
  [c48_word 15 true false 286331153 true; c48_word 3 false true 8738 true; c48_good;
   c48_word 15 true false 100664960 true; c48_word 15 false true 1179648 true; c48_good; c48_idle].
Example C48_code_as_it_stands_refuted :
  sd_env_ok E0 c48_witness_spurious = true /\
  map (fun o => N.testbit o 64) (run (sd_step false) sd_init c48_witness_spurious) = [false; false; false; false; true] /\
  map (fun o => N.testbit o 64) (run ssd_step ssd_init c48_witness_spurious) = [false; false; false; false; false] /\
  sd_env_ok E0 c48_witness_lost = true /\
  map (fun o => N.testbit o 64) (run (sd_step false) sd_init c48_witness_lost) = [false; false; false; false; false; false; false] /\
  map (fun o => N.testbit o 64) (run ssd_step ssd_init c48_witness_lost) = [false; false; false; false; false; false; true] /\
  run (sd_step true) sd_init c48_witness_lost = run ssd_step ssd_init c48_witness_lost.
Proof. vm_compute. repeat split; reflexivity. Qed.

(* ---- non-vacuity ---- *)
(* the stimulus of tests/test_usb3_request.py: a good vendor request; fields = the eight bytes *)
Example C48_decoder_example :
  let tr := [c48_word 15 true false 571583169 true; c48_word 15 false true 275268 true; c48_idle; c48_good; c48_idle] in
  sd_env_ok E0 tr = true /\
  nth 4 (run ssd_step ssd_init tr) 0 = 571583169 + 2 ^ 32 * 275268 + 2 ^ 64.
Proof. vm_compute. split; reflexivity. Qed.

(* an 18-byte device descriptor, GET_DESCRIPTOR(DEVICE, wLength = 7 resp. 64) *)
Definition c48_dev : list N := [18; 1; 32; 3; 0; 0; 0; 9; 9; 18; 1; 0; 0; 0; 1; 2; 3; 1].
Definition c48_descs := [(256, cfg_of_bytes c48_dev 4 false (Some 16))].
Example C48_descriptor_example :
  hd_cfg_ok (cfg_of_bytes c48_dev 4 false (Some 16)) = true /\
  desc_bytes_ok c48_dev (n_range 1 24 ++ [65535]) = true /\
  (let tr := hd_request 256 7 true [true; false; true; true; true; true] in
   hd_xfers tr (run (hd_step c48_descs) (hd_init c48_descs) tr)
   = [((15, true, false, 52429074), 7); ((7, false, true, 150994944), 7)] /\
   remaining c48_descs 256 (run_state (hd_step c48_descs) (hd_init c48_descs) tr) = []) /\
  (let tr := hd_request 256 64 true (repeat true 10) in
   length (hd_xfers tr (run (hd_step c48_descs) (hd_init c48_descs) tr)) = 5%nat /\
   map snd (hd_xfers tr (run (hd_step c48_descs) (hd_init c48_descs) tr)) = [18; 18; 18; 18; 18]).
Proof. vm_compute. repeat split; reflexivity. Qed.
