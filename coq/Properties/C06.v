(* C06 -- SETUP requests are decoded exactly and survive earlier corrupted packets.
   Model and specification: Model/SetupDec.v (USBSetupDecoder of luna/gateware/usb/usb2/request.py with its
   USBDataPacketDeserializer, wired to the token detector, data CRC unit and inter-packet timer as in USBDevice).

   Reading guide.  One list element = one `usb` clock cycle.  Input word: rx_active, rx_valid, rx_data, device
   address, speed (d_act, d_val, d_dat, t_address (c_utmi i), c_speed).  Output word: received, the 8 setup bytes
   (bmRequestType, bRequest, wValue, wIndex, wLength; little-endian = le_bytes), ack, tokenizer.endpoint
   (o_recv, o_flds, o_ack, o_endp).  c6_step true true is the CORRECTED model (two flags = the two repairs of
   findings/C06-*.diff); c6_step false false is the code as found.

   Packets are maximal rx_active runs; their bytes are rx_data at rx_valid except in the run's first cycle
   (run_bytes).  classify / EvToken are C01's (a well-formed token for this device); dclass pkt = D8 pl means:
   pkt = DATAx PID byte :: pl ++ [crc lo; crc hi] with |pl| = 8 and crc16_usb pl = the last two bytes.

   The specification is the monitor sm_step (Model/SetupDec.v): it follows token events and data packets and
   says for every cycle what `received`, the setup bytes, `ack` and the endpoint must be (with an explicit
   don't-care where a data packet cut off before its CRC field arrives while a SETUP is pending).
   Environment assumption (sm_step = None): the speed input is constant HIGH or FULL, and at full speed no
   packet completes during the 11 cycles in which the ACK is being delayed (true on a real full-speed bus:
   one byte takes 40 cycles). *)
From Coq Require Import NArith List Bool Lia. Import ListNotations.
From LunaLib Require Import Netlist Machine.
From LunaModel Require Import Crc Handshake TokenDet TokenDet_proofs IpTimer SetupDec SetupDec_proofs.
Open Scope N_scope.

(* (1) For EVERY input history, the corrected model's outputs are accepted by the specification monitor in
   every cycle (up to the first cycle, if any, in which the environment assumption breaks). *)
Theorem C06_model_meets_spec : forall tr,
  sm_accepts sm_init (combine tr (run (c6_step true true) c6_init tr)) = true.
Proof. exact c6_accepts. Qed.
Print Assumptions C06_model_meets_spec.

(* (2) "A preceding corrupted, aborted or unrelated packet never causes a later valid SETUP transaction to be
   missed."  h0 = ANY history (corrupted, aborted, over-long, foreign packets ...; environment assumption holding);
   in cycle x a packet completes that is a well-formed SETUP token for this device (C01's classify); after any
   number of idle cycles the next packet (cycles runc, any rx_valid pattern) is a DATAx packet with 8 bytes pl and
   their CRC16, ending in cycle y1.  Then `received` is high with the setup bytes pl two cycles after y1, and the
   ACK request is raised in the cycle after y1 iff the bus is high speed. *)
Theorem C06_setup_never_missed : forall h0 x tok a ep sp gap runc pl y1 y2 y3,
  let h := h0 ++ [x] in
  c6_env h = true ->
  pkt_in_progress (map c_utmi h0) = Some tok -> d_act x = false ->
  classify true (t_address (c_utmi x)) tok = EvToken PID_SETUP a ep ->
  Forall (fun i => d_act i = false) gap -> Forall (fun i => d_act i = true) runc -> runc <> [] ->
  dclass (run_bytes runc) = D8 pl -> d_act y1 = false ->
  Forall (fun i => c_speed i = sp) (h ++ gap ++ runc ++ [y1; y2; y3]) ->
  let outs := run (c6_step true true) c6_init (h ++ gap ++ runc ++ [y1; y2; y3]) in
  let n := (length h + length gap + length runc)%nat in
  o_ack (nth (n + 1) outs 0) = (sp =? 0) /\
  o_recv (nth (n + 2) outs 0) = true /\ o_flds (nth (n + 2) outs 0) = le_bytes pl.
Proof. exact setup_never_missed. Qed.
Print Assumptions C06_setup_never_missed.

(* (3) Full speed: from any reachable situation (c6_rel s m e; m = the monitor state) in which a SETUP token for
   this device is being signalled, if the data packet follows and the bus then stays idle for 11 cycles, the ACK
   request is raised exactly in the 12th cycle after rx_active fell (cycle n): not in n+1 .. n+11, and in n+12
   (the timer restarts in n+1; 10 cycles = 2 full-speed bit times at 60 MHz). *)
Theorem C06_fs_ack_timing : forall s m e gap runc pl y1 y2 zs z,
  c6_rel s m e -> m_sp m = Some 1 ->
  t_new_token (snd (m_tsp m)) = true -> t_pid (snd (m_tsp m)) = 13 -> fst (m_tsp m) = None ->
  Forall (fun i => d_act i = false) gap -> Forall (fun i => d_act i = true) runc -> runc <> [] ->
  dclass (run_bytes runc) = D8 pl -> d_act y1 = false ->
  Forall (fun i => d_act i = false) (y2 :: zs) -> length zs = 10%nat ->
  Forall (fun i => c_speed i = 1) (gap ++ runc ++ [y1; y2] ++ zs ++ [z]) ->
  let outs := run (c6_step true true) s (gap ++ runc ++ [y1; y2] ++ zs ++ [z]) in
  let n := (length gap + length runc)%nat in
  o_ack (nth (n + 1) outs 0) = false /\
  (forall j, (j < 10)%nat -> o_ack (nth (n + 2 + j) outs 0) = false) /\
  o_ack (nth (n + 12) outs 0) = true.
Proof. exact fs_ack_timing_from. Qed.
Print Assumptions C06_fs_ack_timing.

(* every state reached by the model together with the monitor is such a situation *)
Theorem C06_reachable_related : forall tr s m, c6_joint c6_init sm_init tr = Some (s, m) ->
  (exists e, c6_rel s m e) /\ s = run_state (c6_step true true) c6_init tr.
Proof. intros tr s m H. exact (c6_joint_rel tr c6_init sm_init 0 s m c6_rel_init H). Qed.
Print Assumptions C06_reachable_related.

(* (4) Soundness: `received` is shown only in the second cycle after a well-formed 8-byte data packet completed
   (m_dn m = D8 pl) while a SETUP token was the last token event for this device (m_ar m <> A_no), and then the
   setup bytes are exactly that packet's. *)
Theorem C06_received_sound : forall h i s m s' m',
  c6_joint c6_init sm_init h = Some (s, m) -> c6_joint c6_init sm_init (h ++ [i]) = Some (s', m') ->
  c_recv s' = true -> exists pl, m_dn m = D8 pl /\ m_ar m <> A_no /\ c_setup s' = pl.
Proof. exact received_sound. Qed.
Print Assumptions C06_received_sound.

(* ---- concrete runs: sanity, non-vacuity, and the two defects of the code as found ----------------------- *)
Definition recv_cycles (outs : list N) : list nat :=
  map fst (filter (fun p => o_recv (snd p)) (combine (seq 0 (length outs)) outs)).
Definition ack_cycles (outs : list N) : list nat :=
  map fst (filter (fun p => o_ack (snd p)) (combine (seq 0 (length outs)) outs)).

(* LUNA's reference: CRC16 of 80 06 00 01 00 00 40 00 is dd 94 *)
Example C06_data_bytes : data_bytes 195 ref_setup 0 = [195; 128; 6; 0; 1; 0; 0; 64; 0; 221; 148].
Proof. vm_compute. reflexivity. Qed.
Example C06_dclass : dclass (data_bytes 195 ref_setup 0) = D8 ref_setup /\ dclass (data_bytes 195 ref_setup 1) = D0 /\
                     dclass (data_bytes 195 [1; 2; 3] 0) = Dx /\ dclass [195; 7] = Dq /\ dclass [45; 0; 16] = D0.
Proof. vm_compute. auto. Qed.
(* one SETUP transaction (rx_active falls in cycle 19): high speed: ack in 20, received in 21 with the bytes;
   full speed: received in 21, ack in 31 = 19 + 12; the environment assumption holds on both traces *)
Example C06_example_hs :
  let o := run (c6_step true true) c6_init (setup_txn ref_setup 0 0) in
  (recv_cycles o, ack_cycles o, o_flds (nth 21 o 0), c6_env (setup_txn ref_setup 0 0)) = ([21%nat], [20%nat], le_bytes ref_setup, true).
Proof. vm_compute. reflexivity. Qed.
Example C06_example_fs :
  let o := run (c6_step true true) c6_init (setup_txn ref_setup 0 1) in
  (recv_cycles o, ack_cycles o, c6_env (setup_txn ref_setup 0 1)) = ([21%nat], [31%nat], true).
Proof. vm_compute. reflexivity. Qed.
(* defect 1 (USBDataPacketDeserializer): a CRC-corrupted data packet, then a valid SETUP transaction.
   The corrected model reports it; the code as found does not. *)
Definition tr_corrupt_then_setup (sp : N) : list N :=
  c6_idle 1 0 sp ++ c6_pkt (data_bytes 195 [1; 2; 3] 1) 0 sp ++ c6_idle 3 0 sp ++ setup_txn ref_setup 0 sp.
Example C06_refuted_as_found_1 :
  recv_cycles (run (c6_step true true) c6_init (tr_corrupt_then_setup 0)) = [32%nat] /\
  recv_cycles (run (c6_step false false) c6_init (tr_corrupt_then_setup 0)) = [] /\
  c6_env (tr_corrupt_then_setup 0) = true.
Proof. vm_compute. auto. Qed.
(* defect 2 (USBSetupDecoder.READ_DATA): SETUP token, corrupted data stage, the host's retry.
   Even with defect 1 repaired (fa = true) the retry is dropped unless fb = true. *)
Definition tr_setup_retry (sp : N) : list N :=
  c6_idle 1 0 sp ++ c6_pkt setup_token00 0 sp ++ c6_idle 2 0 sp ++ c6_pkt (data_bytes 195 ref_setup 256) 0 sp ++
  c6_idle 16 0 sp ++ setup_txn ref_setup 0 sp.
Example C06_refuted_as_found_2 :
  recv_cycles (run (c6_step true true) c6_init (tr_setup_retry 0)) = [56%nat] /\
  recv_cycles (run (c6_step true false) c6_init (tr_setup_retry 0)) = [] /\
  c6_env (tr_setup_retry 0) = true.
Proof. vm_compute. auto. Qed.
(* over-long data stage: a complete valid setup data packet followed by extra bytes is not a setup request *)
Example C06_overlong_not_reported :
  dclass (data_bytes 195 ref_setup 0 ++ [7]) = D0 /\
  recv_cycles (run (c6_step true true) c6_init (sweep_setup_extra 0 7)) = [] /\
  ack_cycles (run (c6_step true true) c6_init (sweep_setup_extra 0 (7 + 256 * 3))) = [].
Proof. vm_compute. auto. Qed.
(* a token cut off after one byte directly before a valid SETUP transaction does not hide it *)
Example C06_aborted_token_then_setup :
  recv_cycles (run (c6_step true true) c6_init (sweep_abort_then_setup 0 0)) = [27%nat] /\
  c6_env (sweep_abort_then_setup 0 0) = true.
Proof. vm_compute. auto. Qed.
(* a data stage consisting of the bare DATA0 PID (x = 3: after reset; 19: after a valid transaction) is not a request:
   the deserializer may signal a packet (stale CRC registers), but of length 14, never 8 *)
Example C06_runt_data_stage_not_reported :
  recv_cycles (run (c6_step true true) c6_init (sweep_setup_runt 0 3)) = [] /\
  ack_cycles (run (c6_step true true) c6_init (sweep_setup_runt 0 3)) = [] /\
  recv_cycles (run (c6_step true true) c6_init (sweep_setup_runt 0 19)) = [21%nat] /\
  ack_cycles (run (c6_step true true) c6_init (sweep_setup_runt 1 19)) = [31%nat].
Proof. vm_compute. auto. Qed.
