(* C18 -- The transactional FIFO behaves as a commit/rollback queue.

   Specification (Model/TxFifo.v, section 1): the abstract queue `aq` holds three lists --
   tentatively read entries, committed unread entries, uncommitted writes -- and `aq_next`
   performs read request / read commit / read discard / write request / write commit / write
   discard on them; `aq_observe` gives head (read_data when not empty), empty, full and
   space_available = capacity - entries held.

   Theorems, for EVERY depth (capacity), every entry value (hence every width) and every input
   history, including simultaneous strobes and requests while full/empty:
     C18_txfifo_refines    the pointer-and-memory model of TransactionalizedFIFO (four pointers
                           into a ring of depth+1 cells, synchronous non-transparent read port)
                           shows exactly the observations of the abstract queue;
     C18_step_commutes     the abstraction function commutes with one clock cycle and the
                           invariant (pointer order, no overlap, read register = head) is kept;
     C18_observe_commutes  status outputs and read_data are those of the abstract queue;
     C18_queue_order       in the abstract queue nothing is lost, duplicated or reordered:
                           finalised ++ tentatively-read ++ readable = committed, in order;
     C18_capacity          the queue never holds more than `depth` entries. *)
From Coq Require Import NArith List Bool Arith.
Import ListNotations.
From LunaModel Require Import TxFifo TxFifo_proofs.
Open Scope nat_scope.

Theorem C18_txfifo_refines : forall depth ins,
  map tf_observe (tf_run depth (tf_init depth) ins) = aq_run depth aq_init ins.
Proof. exact txfifo_from_reset. Qed.
Print Assumptions C18_txfifo_refines.

Theorem C18_step_commutes : forall depth st i, tf_inv depth st ->
  tf_inv depth (tf_next_state depth st i) /\
  tf_abs depth (tf_next_state depth st i) = aq_next depth (tf_abs depth st) i.
Proof. exact step_commutes. Qed.
Print Assumptions C18_step_commutes.

Theorem C18_observe_commutes : forall depth st, tf_inv depth st ->
  tf_observe (tf_outputs depth st) = aq_observe depth (tf_abs depth st).
Proof. exact observe_commutes. Qed.
Print Assumptions C18_observe_commutes.

Theorem C18_queue_order : forall depth ins,
  let q := aq_run_state depth aq_init ins in
  aq_finalised depth aq_init ins ++ aq_tent q ++ aq_avail q = aq_committed depth aq_init ins.
Proof. intros depth ins. exact (aq_order depth ins aq_init). Qed.
Print Assumptions C18_queue_order.

Theorem C18_capacity : forall depth ins, aq_held (aq_run_state depth aq_init ins) <= depth.
Proof. intros. apply aq_held_le. apply Nat.le_0_l. Qed.
Print Assumptions C18_capacity.

(* ---- non-vacuity: concrete runs (depth 2) --------------------------------------------------- *)
Definition idle := {| fi_read_en := false; fi_read_commit := false; fi_read_discard := false;
                      fi_write_en := false; fi_write_commit := false; fi_write_discard := false;
                      fi_write_data := 0%N |}.
Definition wr (v : N) := {| fi_read_en := false; fi_read_commit := false; fi_read_discard := false;
                            fi_write_en := true; fi_write_commit := false; fi_write_discard := false;
                            fi_write_data := v |}.
Definition wcommit := {| fi_read_en := false; fi_read_commit := false; fi_read_discard := false;
                         fi_write_en := false; fi_write_commit := true; fi_write_discard := false;
                         fi_write_data := 0%N |}.
Definition wboth := {| fi_read_en := false; fi_read_commit := false; fi_read_discard := false;
                       fi_write_en := false; fi_write_commit := true; fi_write_discard := true;
                       fi_write_data := 0%N |}.
Definition rd := {| fi_read_en := true; fi_read_commit := false; fi_read_discard := false;
                    fi_write_en := false; fi_write_commit := false; fi_write_discard := false;
                    fi_write_data := 0%N |}.
Definition rdiscard := {| fi_read_en := false; fi_read_commit := false; fi_read_discard := true;
                          fi_write_en := false; fi_write_commit := false; fi_write_discard := false;
                          fi_write_data := 0%N |}.
Definition rcommit := {| fi_read_en := false; fi_read_commit := true; fi_read_discard := false;
                         fi_write_en := false; fi_write_commit := false; fi_write_discard := false;
                         fi_write_data := 0%N |}.

(* write 7 and 9 (a third write while full is refused), commit, read both, roll the reads back,
   and the head is 7 again in the very next cycle *)
Example C18_example_rollback :
  map ob_head (aq_run 2 aq_init [wr 7; wr 9; wr 5; wcommit; rd; rd; rdiscard; idle])
  = [None; None; None; None; Some 7; Some 9; None; Some 7]%N
  /\ map ob_space (aq_run 2 aq_init [wr 7; wr 9; wr 5; wcommit; rd; rd; rdiscard; idle])
  = [2; 1; 0; 0; 0; 0; 0; 0].
Proof. split; reflexivity. Qed.

(* the model agrees on that history, and on one with commit and discard in the same cycle *)
Example C18_example_model :
  map tf_observe (tf_run 2 (tf_init 2) [wr 7; wr 9; wr 5; wcommit; rd; rd; rdiscard; idle; rcommit; idle])
  = aq_run 2 aq_init [wr 7; wr 9; wr 5; wcommit; rd; rd; rdiscard; idle; rcommit; idle]
  /\ map ob_head (aq_run 2 aq_init [wr 1; wcommit; wr 2; wboth; idle; rd; rd; idle])
  = [None; None; Some 1; Some 1; Some 1; Some 1; None; None]%N
  /\ map ob_space (aq_run 2 aq_init [wr 1; wcommit; wr 2; wboth; idle; rd; rd; idle])
  = [2; 1; 1; 0; 1; 1; 1; 1].
Proof. repeat split; reflexivity. Qed.

Example C18_example_order :
  aq_committed 2 aq_init [wr 7; wr 9; wcommit; rd; rcommit; rd; idle] = [7; 9]%N /\
  aq_finalised 2 aq_init [wr 7; wr 9; wcommit; rd; rcommit; rd; idle] = [7]%N /\
  aq_tent (aq_run_state 2 aq_init [wr 7; wr 9; wcommit; rd; rcommit; rd; idle]) = [9]%N.
Proof. repeat split; reflexivity. Qed.
