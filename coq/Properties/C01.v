(* C01 -- USB2 tokens are reported iff well-formed and addressed to the device.
   Model and specification: Model/TokenDet.v (USBTokenDetector of luna/gateware/usb/usb2/packet.py).

   Reading guide.  One list element = one clock cycle of the `usb` domain.  An input word carries
   rx_active (d_act), rx_valid (d_val), rx_data (d_dat) and the device address (t_address); an output word
   carries the six registered outputs new_token, pid, address, endpoint, new_frame, frame
   (o_new_token ... o_frame; regs_out packs a register record).  No assumption is made on the inputs.

   * pkt_in_progress h : the packet being received at the end of history h -- None if the last cycle
     had rx_active = 0, otherwise the bytes of the maximal all-rx_active suffix of h: rx_data in the
     rx_valid cycles of that run other than its first cycle (run_cycles / run_bytes).
   * classify filt addr pkt : what a complete byte list means for a device at address addr
     (filt = filter_by_address): EvToken pid a e  iff  pkt = [pid_byte pid; b0; b1] with pid one of
     OUT/IN/SETUP/PING, the CRC5 of the 11 payload bits equal to the 5 CRC bits, a/e the payload's
     address/endpoint and (when filtering) a = addr; EvSof f likewise for SOF, any address;
     EvForeign for a well-formed token to another address; EvNone for everything else (wrong length,
     bad check nibble, bad CRC, other PIDs, aborted packets).   crc5_usb is the bit-serial USB CRC5
     of Model/Crc.v (C30 proves LUNA's XOR equations equal to it).
   * apply_event : the effect on the registers (strobes last one cycle, EvForeign clears pid).     *)
From Coq Require Import NArith List Bool Lia. Import ListNotations.
From LunaLib Require Import Netlist Machine.
From LunaModel Require Import Crc Handshake TokenDet TokenDet_proofs.
Open Scope N_scope.

(* (1) For both filter modes and EVERY input history, the FSM model of the detector produces exactly the
   outputs of the packet-level specification machine tsp_step (accumulate the bytes of the current packet;
   when rx_active falls, classify the complete byte list and update the registers). *)
Theorem C01_token_detector_refines : forall filt tr,
  run (td_step filt) td_init tr = run (tsp_step filt) tsp_init tr.
Proof. exact td_from_reset. Qed.
Print Assumptions C01_token_detector_refines.

(* (2) The specification's packet state is a function of the history alone: the bytes of the run of
   rx_active cycles in progress. *)
Theorem C01_packet_in_progress : forall h, cur_pkt h = pkt_in_progress h.
Proof. exact cur_pkt_closed_form. Qed.
Print Assumptions C01_packet_in_progress.

(* (3) Cycle by cycle: with history h before cycle t = |h| and inputs x in cycle t, the output word of
   cycle t+1 is the register record after applying the event of cycle t. *)
Theorem C01_output_next : forall filt h x y rest,
  nth (S (length h)) (run (td_step filt) td_init (h ++ x :: y :: rest)) 0
  = regs_out (apply_event (tok_event_of filt (pkt_in_progress h) x) (regs_after filt h)).
Proof. exact td_output_next. Qed.
Print Assumptions C01_output_next.

(* (4) "A token event is reported exactly when ...": new_token is high in cycle t+1 iff rx_active fell in
   cycle t on a packet that classifies as a token for this device ... *)
Theorem C01_new_token_iff : forall filt h x y rest,
  let o := nth (S (length h)) (run (td_step filt) td_init (h ++ x :: y :: rest)) 0 in
  o_new_token o = true <->
  exists pkt q a e, pkt_in_progress h = Some pkt /\ d_act x = false /\
                    classify filt (t_address x) pkt = EvToken q a e.
Proof. exact td_new_token_iff. Qed.
Print Assumptions C01_new_token_iff.

(* ... and then pid / address / endpoint are the token's, unchanged; no SOF is signalled, frame keeps its value *)
Theorem C01_token_fields : forall filt h x y rest pkt q a e,
  pkt_in_progress h = Some pkt -> d_act x = false -> classify filt (t_address x) pkt = EvToken q a e ->
  let o := nth (S (length h)) (run (td_step filt) td_init (h ++ x :: y :: rest)) 0 in
  o_pid o = q /\ o_addr o = a /\ o_ep o = e /\ o_new_frame o = false /\
  o_frame o = o_frame (nth (length h) (run (td_step filt) td_init (h ++ x :: y :: rest)) 0).
Proof. exact td_token_fields. Qed.
Print Assumptions C01_token_fields.

(* ... where "classifies as a token" is exactly: three bytes, PID byte of OUT/IN/SETUP/PING (check nibble =
   complement), standard CRC5 over the 11 payload bits, and (when filtering) the device's address. *)
Theorem C01_token_wellformed : forall filt addr pkt q a e,
  classify filt addr pkt = EvToken q a e <->
  exists b0 b1, pkt = [pid_byte q; b0; b1] /\ In q token_pids /\
                crc5_usb (tok_payload b0 b1) = tok_crc b1 /\
                a = tok_payload b0 b1 mod 128 /\ e = tok_payload b0 b1 / 128 /\
                (filt = true -> a = addr).
Proof. exact classify_token_iff. Qed.
Print Assumptions C01_token_wellformed.

(* (5) "A start-of-frame updates the frame number iff it is a well-formed SOF, regardless of address." *)
Theorem C01_new_frame_iff : forall filt h x y rest,
  let o := nth (S (length h)) (run (td_step filt) td_init (h ++ x :: y :: rest)) 0 in
  o_new_frame o = true <->
  exists pkt f, pkt_in_progress h = Some pkt /\ d_act x = false /\ classify filt (t_address x) pkt = EvSof f.
Proof. exact td_new_frame_iff. Qed.
Print Assumptions C01_new_frame_iff.

Theorem C01_frame_next : forall filt h x y rest,
  let tr := h ++ x :: y :: rest in
  let o := nth (S (length h)) (run (td_step filt) td_init tr) 0 in
  (forall pkt f, pkt_in_progress h = Some pkt -> d_act x = false -> classify filt (t_address x) pkt = EvSof f ->
                 o_frame o = f) /\
  (o_new_frame o = false -> o_frame o = o_frame (nth (length h) (run (td_step filt) td_init tr) 0)).
Proof. exact td_frame_next. Qed.
Print Assumptions C01_frame_next.

Theorem C01_sof_wellformed : forall filt addr pkt f,
  classify filt addr pkt = EvSof f <->
  exists b0 b1, pkt = [pid_byte PID_SOF; b0; b1] /\ crc5_usb (tok_payload b0 b1) = tok_crc b1 /\ f = tok_payload b0 b1.
Proof. exact classify_sof_iff. Qed.
Print Assumptions C01_sof_wellformed.

(* (6) the only other packets with any effect: well-formed tokens for another address (pid := 0, no strobe) *)
Theorem C01_foreign_wellformed : forall filt addr pkt,
  classify filt addr pkt = EvForeign <->
  exists q b0 b1, pkt = [pid_byte q; b0; b1] /\ In q token_pids /\
                  crc5_usb (tok_payload b0 b1) = tok_crc b1 /\ filt = true /\ tok_payload b0 b1 mod 128 <> addr.
Proof. exact classify_foreign_iff. Qed.
Print Assumptions C01_foreign_wellformed.

(* ---- sanity / non-vacuity ------------------------------------------------------------------- *)
(* LUNA's own test vector (tests/test_usb2_packet.py): OUT to address 0x3a endpoint 0xa = e1 3a 3d *)
Example C01_classify_out : classify true 58 [225; 58; 61] = EvToken PID_OUT 58 10.
Proof. vm_compute. reflexivity. Qed.
Example C01_classify_foreign : classify true 59 [225; 58; 61] = EvForeign.
Proof. vm_compute. reflexivity. Qed.
Example C01_classify_badcrc : classify true 58 [225; 58; 60] = EvNone.
Proof. vm_compute. reflexivity. Qed.
Example C01_classify_long : classify true 58 [225; 58; 61; 0] = EvNone.
Proof. vm_compute. reflexivity. Qed.
Example C01_classify_sof : exists b1, classify true 0 [165; 57; b1] = EvSof (57 + 256 * 3).
Proof. exists (3 + 8 * crc5_usb (57 + 256 * 3)). vm_compute. reflexivity. Qed.
(* a complete run of the model: the OUT token above with the address input at 0x3a;
   new_token + pid 1 + address 0x3a + endpoint 0xa appear in the cycle after rx_active falls *)
Example C01_example_run :
  run (td_step true) td_init (tok_trace 225 58 61 58 ++ [rx_cyc 0 0 0 58])
  = [0; 0; 0; 0; 0; regs_out {| t_new_token := true; t_pid := 1; t_addr := 58; t_ep := 10; t_new_frame := false; t_frame := 0 |};
     regs_out {| t_new_token := false; t_pid := 1; t_addr := 58; t_ep := 10; t_new_frame := false; t_frame := 0 |}].
Proof. vm_compute. reflexivity. Qed.
(* the hypotheses of (4) are satisfiable: history = the first four cycles of that trace *)
Example C01_nonvacuous :
  pkt_in_progress (firstn 4 (tok_trace 225 58 61 58)) = Some [225; 58; 61] /\ d_act (rx_cyc 0 0 0 58) = false /\
  t_address (rx_cyc 0 0 0 58) = 58.
Proof. vm_compute. auto. Qed.
