(* C40 -- Each received data packet is reported good or bad exactly once.
   Model and specification: LunaModel.DataRx (DataPacketReceiver of luna/gateware/usb/usb3/link/data.py).

   Reading guide.  One list element = one clock cycle of the `ss` domain; an input word packs sink.data (32),
   sink.ctrl (4), sink.valid (1).  `drx_model_events lw ins` are the observable events of the module model over
   the history `ins` (payload beats with their valid bytes, first/last and the presented header; Report hdr true =
   packet_good, Report hdr false = packet_bad), with the real CRC units and a `lw`-bit data_bytes_remaining counter
   (LUNA: lw = 11).  `drx_vwords ins` keeps only the VALID input words.  `sp_run crc16_hdr crc32_usb lw SIdle` is the
   specification: a parser over valid words that accumulates the words of the packet in progress and decides on the
   accumulated lists with the reference CRCs of Model/Crc.v (see the comment above `drx_sp` in Model/DataRx.v).

   A "data packet" is what the parser recognises: HPSTART, a header whose dw0 has type DATA and whose CRC-16 and
   CRC-5 are right, DPPSTART, then sp_nwords L payload words and the word completing the CRC-32
   (L = dw1[16:16+lw], the data length).  A header with a wrong CRC is not followed by any report (C40_bad_header).

   The model is the PROPERTY-SATISFYING behaviour; the unchanged /repo code differs from it (see findings/C40-...). *)
From Coq Require Import NArith List Bool. Import ListNotations.
From LunaLib Require Import Netlist Machine.
From LunaModel Require Import Crc DataRx DataRx_proofs.
Open Scope N_scope.

(* (1) For every input history the events of the module are exactly the events of the specification run over the
   valid words: idle (not-valid) words, wherever they are inserted, change nothing. *)
Theorem C40_events_are_spec : forall lw ins,
  drx_model_events lw ins = sp_run crc16_hdr crc32_usb lw SIdle (drx_vwords ins).
Proof. exact drx_real_events. Qed.
Print Assumptions C40_events_are_spec.

Theorem C40_idle_words_do_not_matter : forall lw ins ins',
  drx_vwords ins = drx_vwords ins' -> drx_model_events lw ins = drx_model_events lw ins'.
Proof. exact drx_idle_independent. Qed.
Print Assumptions C40_idle_words_do_not_matter.

(* (2) Every data packet -- after any earlier traffic `pre` that leaves the parser idle, before any later traffic
   `rest`, with idle words anywhere -- produces its payload beats and then EXACTLY ONE report, which is `good` iff the
   CRC-32 of the L payload bytes equals the 4 bytes that follow them (header CRCs are a hypothesis here: (5)). *)
Theorem C40_packet_reported_once : forall lw ins pre d0 c0 d1 c1 d2 c2 d3 c3 pay cw rest,
  let ws := [d0; d1; d2; d3] in
  drx_vwords ins
    = pre ++ (DRX_HPSTART, 15) :: (d0, c0) :: (d1, c1) :: (d2, c2) :: (d3, c3) :: (DRX_DPPSTART, 15) :: pay ++ cw :: rest ->
  sp_state_after crc16_hdr crc32_usb lw SIdle pre = SIdle ->
  bits d0 0 5 = DRX_TYPE_DATA -> sp_hdr_ok crc16_hdr ws = true ->
  N.of_nat (length pay) = sp_nwords (sp_len lw ws) -> sp_clean lw ws 0 pay = true ->
  drx_model_events lw ins
  = sp_run crc16_hdr crc32_usb lw SIdle pre
    ++ sp_beats lw ws 0 pay
    ++ Report (sp_hdr ws) (sp_verdict crc32_usb lw ws (pay ++ [cw]))
    :: sp_run crc16_hdr crc32_usb lw SIdle rest.
Proof. exact drx_packet_reported_once. Qed.
Print Assumptions C40_packet_reported_once.

(* (3) the beats of a packet contain no report and carry exactly the data-length bytes: the first L bytes of the
   words after DPPSTART (L = the data length field, truncated to the lw-bit counter: for lw = 11 every legal
   length 0..1024 is below 2^lw) *)
Theorem C40_beats_carry_no_report : forall lw ws pay k, existsb drx_is_report (sp_beats lw ws k pay) = false.
Proof. exact drx_beats_no_report. Qed.
Print Assumptions C40_beats_carry_no_report.

Theorem C40_payload_is_data_length_bytes : forall lw ws pay,
  N.of_nat (length pay) = sp_nwords (sp_len lw ws) ->
  flat_map drx_beat_bytes (sp_beats lw ws 0 pay) = firstn (N.to_nat (sp_len lw ws)) (sp_pbytes pay) /\
  length (flat_map drx_beat_bytes (sp_beats lw ws 0 pay)) = N.to_nat (sp_len lw ws).
Proof.
  intros lw ws pay H. split.
  - rewrite drx_beats_bytes. rewrite N.mul_0_r, N.sub_0_r. reflexivity.
  - apply sp_payload_length. exact H.
Qed.
Print Assumptions C40_payload_is_data_length_bytes.

(* (4) a ctrl symbol on a payload byte (payload word number |acc|+|pay|): beats up to and including that word, one
   `bad`, and the parser is idle again (specification level; (1) transfers it to the module) *)
Theorem C40_ctrl_symbol_in_payload : forall lw ws pay w rest acc,
  sp_clean lw ws (N.of_nat (length acc)) pay = true ->
  (forall j, (j <= length pay)%nat -> sp_more (sp_len lw ws) (N.of_nat (length acc + j)) = true) ->
  N.land (snd w) (N.ones (N.min (sp_len lw ws - 4 * N.of_nat (length acc + length pay)) 4)) <> 0 ->
  sp_run crc16_hdr crc32_usb lw (SPay ws acc) (pay ++ w :: rest)
  = sp_beats lw ws (N.of_nat (length acc)) (pay ++ [w]) ++ Report (sp_hdr ws) false :: sp_run crc16_hdr crc32_usb lw SIdle rest.
Proof. exact (sp_ctrl_error crc16_hdr crc32_usb). Qed.
Print Assumptions C40_ctrl_symbol_in_payload.

(* (5) a data header with a wrong CRC-16 or CRC-5: no event at all for it (in particular never `good`); the word
   after it is consumed and the parser is idle again *)
Theorem C40_bad_header : forall lw d0 c0 d1 c1 d2 c2 d3 c3 x rest,
  bits d0 0 5 = DRX_TYPE_DATA -> sp_hdr_ok crc16_hdr [d0; d1; d2; d3] = false ->
  sp_run crc16_hdr crc32_usb lw SIdle ((DRX_HPSTART, 15) :: (d0, c0) :: (d1, c1) :: (d2, c2) :: (d3, c3) :: x :: rest)
  = sp_run crc16_hdr crc32_usb lw SIdle rest.
Proof. exact (sp_bad_header crc16_hdr crc32_usb). Qed.
Print Assumptions C40_bad_header.

(* ---- non-vacuity: the three recorded packets of tests/test_usb3_data.py, with idle words inserted ---------- *)
Definition C40_w (d c : N) : N := d + N.shiftl c 32 + N.shiftl 1 36.
Definition C40_idle : N := 305419896.     (* valid = 0, garbage data *)

(* 1-byte packet (unaligned): header 0x32000008 0x00010000 0x08000000 0xE801A822, payload FF, idle words everywhere *)
Example C40_recorded_1B :
  drx_model_events 11
    [C40_w 4160486395 15; C40_idle; C40_w 838860808 0; C40_w 65536 0; C40_idle; C40_w 134217728 0; C40_w 3892422690 0;
     C40_idle; C40_w 4150025308 15; C40_idle; C40_w 255 0; C40_idle; C40_idle; C40_w 4261281279 14; C40_w 247 1; C40_idle]
  = [Beat (sp_hdr [838860808; 65536; 134217728; 3892422690]) [255] true true;
     Report (sp_hdr [838860808; 65536; 134217728; 3892422690]) true].
Proof. vm_compute. reflexivity. Qed.

(* aligned 8-byte packet followed by back-to-back traffic; hypotheses of C40_packet_reported_once hold for it *)
Example C40_recorded_8B_hyps :
  let ws := [8; 557056; 134217728; 2818719247] in
  bits 8 0 5 = DRX_TYPE_DATA /\ sp_hdr_ok crc16_hdr ws = true /\ sp_len 11 ws = 8 /\ sp_nwords (sp_len 11 ws) = 2 /\
  sp_clean 11 ws 0 [(1967360, 0); (0, 0)] = true /\
  sp_verdict crc32_usb 11 ws [(1967360, 0); (0, 0); (247894821, 0)] = true /\
  sp_verdict crc32_usb 11 ws [(1967360, 0); (0, 0); (247894820, 0)] = false.
Proof. vm_compute. repeat split; reflexivity. Qed.

(* empty payload: the CRC word is checked (finding (d)); a ctrl symbol in the last payload word gives one report *)
Example C40_zlp_bad_crc :
  drx_model_events 11
    [C40_w 4160486395 15; C40_w 8 0; C40_w 0 0; C40_w 0 0; C40_w 268461230 0; C40_w 4150025308 15; C40_w 305419896 0;
     C40_w 4160617981 15; C40_idle; C40_idle]
  = [Report (sp_hdr [8; 0; 0; 268461230]) false].
Proof. vm_compute. reflexivity. Qed.
