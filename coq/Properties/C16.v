(* C16 -- Isochronous OUT endpoints deliver only whole, CRC-valid packets.

   Objects (Model/IsoOut.v, Model/C16_OutTrack.v):
     io_run mps depth (io_init depth) ins   the code-shaped model of USBIsochronousStreamOutEndpoint(max_packet_size = mps,
                                            buffer_size = depth): boundary-detector model (C28), admission latch, pointer/memory
                                            FIFO model (C18); bytes are written one by one and rolled back on a bad CRC
     is_run  mps depth is_init ins          the packet-level specification machine: collects the bytes of the packet being
                                            received, admits the packet iff mps entries are free when its first byte reaches
                                            the buffer, and appends `frame true true bytes` -- the whole payload, first on the
                                            first byte, last on the final byte -- when the packet has ended with rx_complete,
                                            addressed to the endpoint and admitted.  The stream shows the head of the queue.
     is_env_ok                              the environment assumption E0-E4 (IsoOut.v section 3), checked cycle by cycle
     transfers ins outs                     the entries handed to the consumer: cycles with stream.valid & stream.ready
     is_accepted / is_good / is_goodf       payloads of the packets accepted / of all CRC-valid addressed packets (with their
                                            admission flags), in order of arrival

   All statements hold for every max_packet_size >= 1, every buffer size and every input history of any length. *)
From Coq Require Import NArith List Bool Arith. Import ListNotations.
From LunaModel Require Import BoundaryDet TxFifo C16_OutTrack IsoOut IsoOut_proofs.
Open Scope nat_scope.

(* the model shows, cycle by cycle, stream.valid and (while valid) payload/first/last of the specification *)
Theorem C16_model_refines_spec : forall mps depth, 1 <= mps -> forall ins,
  is_env_ok mps depth is_init ins = true ->
  map io_norm (io_run mps depth (io_init depth) ins) = is_run mps depth is_init ins.
Proof. exact iso_refines. Qed.
Print Assumptions C16_model_refines_spec.

(* what the model hands to the consumer, followed by what is still queued, is exactly the concatenation of the
   complete framed payloads of the accepted packets: a packet is entirely present or entirely absent *)
Theorem C16_whole_packets : forall mps depth, 1 <= mps -> forall ins,
  is_env_ok mps depth is_init ins = true ->
  transfers ins (io_run mps depth (io_init depth) ins) ++ s_q (is_run_state mps depth is_init ins)
  = flat_map (frame true true) (is_accepted mps depth is_init ins).
Proof. exact iso_model_stream. Qed.
Print Assumptions C16_whole_packets.

(* the accepted packets are, in order, the CRC-valid addressed packets whose admission flag is set; corrupted
   packets and packets for other endpoints are not among them *)
Theorem C16_accepted_are_good_packets : forall mps depth ins,
  is_accepted mps depth is_init ins = map fst (filter snd (is_goodf mps depth is_init ins)) /\
  is_good mps depth is_init ins = map fst (is_goodf mps depth is_init ins).
Proof. intros. apply iso_accepted_good. Qed.
Print Assumptions C16_accepted_are_good_packets.

(* with no traffic and the consumer ready, the queue is handed over entry by entry, in order *)
Theorem C16_drains : forall mps depth n s, s_ph s = PIdle ->
  is_delivered mps depth s (repeat idle_ready n) = firstn n (s_q s) /\
  s_q (is_run_state mps depth s (repeat idle_ready n)) = skipn n (s_q s).
Proof. exact iso_drains. Qed.
Print Assumptions C16_drains.

(* ---- non-vacuity: max_packet_size 2, buffer 4, consumer stalled, three good 2-byte packets back to back.
   The second packet arrives when exactly 2 entries are free (the case the gateware as found truncates): it is
   delivered whole.  The third finds no room and is dropped as a whole.  Then the consumer drains the buffer. *)
Definition cy (tgt rdy v n c i : bool) (p : N) : io_in :=
  {| x_tgt := tgt; x_rdy := rdy; x_rx := {| r_valid := v; r_next := n; r_cin := c; r_iin := i; r_pay := p |} |}.
Definition pkt2 (a b : N) (good : bool) : list io_in :=
  [cy true false true true false false a; cy true false true true false false b;
   cy true false false false good (negb good) 0%N; cy true false false false false false 0%N;
   cy true false false false false false 0%N].
Definition C16_hist : list io_in :=
  pkt2 1 2 true ++ pkt2 3 4 true ++ pkt2 5 6 true ++ pkt2 7 8 false
  ++ repeat (cy false true false false false false 0%N) 6.

Example C16_hist_env : is_env_ok 2 4 is_init C16_hist = true.
Proof. reflexivity. Qed.

Example C16_hist_stream :
  transfers C16_hist (io_run 2 4 (io_init 4) C16_hist)
  = frame true true [1; 2]%N ++ frame true true [3; 4]%N
  /\ is_accepted 2 4 is_init C16_hist = [[1; 2]; [3; 4]]%N
  /\ is_good 2 4 is_init C16_hist = [[1; 2]; [3; 4]; [5; 6]]%N.
Proof. repeat split; reflexivity. Qed.

(* the specification state survives the packing used by the runtime oracle *)
Example C16_oracle_packing :
  let s := is_run_state 2 4 is_init (firstn 12 C16_hist) in is_dec 2 4 (is_enc 2 4 s) = s.
Proof. reflexivity. Qed.
