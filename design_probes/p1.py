import sys; sys.path.insert(0,'/repo')
from amaranth import *
from amaranth.sim import Simulator
from luna.gateware.usb.usb2.packet import USBDataPacketDeserializer
from luna.gateware.interface.utmi import UTMIInterface
def crc16(data):
    crc=0xFFFF
    for b in data:
        for i in range(8):
            bit=(b>>i)&1
            fb=(crc&1)^bit  # reflected
            crc>>=1
            if fb: crc^=0xA001
    return crc^0xFFFF
u=UTMIInterface()
d=USBDataPacketDeserializer(utmi=u,max_packet_size=8,create_crc_generator=True)
m=Module(); m.submodules.d=d
sim=Simulator(m); sim.add_clock(1/60e6, domain="usb")
log=[]
async def tb(ctx):
    async def pkt(bs):
        ctx.set(u.rx_active,1); await ctx.tick("usb")
        for b in bs:
            ctx.set(u.rx_data,b); ctx.set(u.rx_valid,1); await ctx.tick("usb")
            ctx.set(u.rx_valid,0); await ctx.tick("usb")
        ctx.set(u.rx_active,0)
        for _ in range(4):
            await ctx.tick("usb")
            if ctx.get(d.new_packet): log.append(("new_packet", ctx.get(d.length)))
    def data(payload, bad=False):
        c=crc16(payload)
        if bad: c^=1
        return [0xC3]+list(payload)+[c&0xff,c>>8]
    await pkt(data(bytes(range(8))))
    log.append("after good1")
    await pkt(data(bytes(range(8)),bad=True))
    log.append("after bad")
    await pkt(data(bytes(range(8))))
    log.append("after good2")
    await pkt(data(bytes(range(8))))
    log.append("after good3")
sim.add_testbench(tb)
sim.run()
print(log)
