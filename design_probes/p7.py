import sys; sys.path.insert(0,'/repo')
from amaranth import *
from amaranth.sim import Simulator
from luna.gateware.usb.usb3.physical.scrambling import ScramblerLFSR
def keystream(state, nbytes):
    out=[]
    for _ in range(nbytes):
        b=0
        for i in range(8):
            top=(state>>15)&1
            b|=top<<i
            state=((state<<1)&0xFFFF)^(0x0039 if top else 0)
        out.append(b)
    return out,state
l=ScramblerLFSR(); m=Module(); m.submodules.l=l
sim=Simulator(m); sim.add_clock(1e-6,domain="ss")
async def tb(ctx):
    st=0xFFFF; bad=0; first=[]
    ctx.set(l.advance,1)
    for k in range(200):
        ks,st=keystream(st,4)
        v=ctx.get(l.value)
        if k<4: first+= [hex(x) for x in v.to_bytes(4,'little')]
        if v!=int.from_bytes(bytes(ks),'little'): bad+=1
        await ctx.tick("ss")
    print("lfsr word mismatches",bad, first)
sim.add_testbench(tb); sim.run()
