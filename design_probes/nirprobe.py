import sys, collections, time
sys.path.insert(0,'/repo')
from amaranth import *
from amaranth.hdl import Fragment
from amaranth.hdl._ir import build_netlist
from amaranth.hdl import _nir
def stats(name, elab, ports=None):
    t=time.time()
    frag = Fragment.get(elab, None)
    nl = build_netlist(frag, ports=ports or [])
    kinds = collections.Counter(type(c).__name__ for c in nl.cells)
    ffs = [c for c in nl.cells if isinstance(c,_nir.FlipFlop)]
    bits = sum(len(c.data) for c in ffs)
    doms = set()
    for c in ffs: doms.add((str(c.clk), c.clk_edge))
    print(f"{name}: cells={len(nl.cells)} ffbits={bits} clocks={len(doms)} t={time.time()-t:.2f}s")
    print("   ", dict(kinds))
    return nl

from luna.gateware.usb.usb2.packet import *
from luna.gateware.interface.utmi import UTMIInterface
u=UTMIInterface()
stats("tokendet", USBTokenDetector(utmi=u))
stats("rx", USBDataPacketReceiver(utmi=u, standalone=True))
from luna.gateware.usb.usb2.reset import USBResetSequencer
stats("reset", USBResetSequencer())
from luna.gateware.interface.ulpi import UTMITranslator
from amaranth.hdl.rec import Record
ulpi=Record([("data",[("i",8),("o",8),("oe",1)]),("nxt",[("i",1)]),("stp",[("o",1)]),("dir",[("i",1)])]); stats("ulpi", UTMITranslator(ulpi=ulpi, handle_clocking=False))
from luna.gateware.usb.usb3.link.ltssm import LTSSMController
stats("ltssm", LTSSMController(ss_clock_frequency=1e6))
from luna.gateware.usb.usb3.link.receiver import HeaderPacketReceiver
stats("hprx", HeaderPacketReceiver())
from luna.gateware.usb.usb3.link.transmitter import PacketTransmitter
stats("ptx", PacketTransmitter())
from luna.gateware.usb.usb3.physical.ctc import CTCSkipRemover
stats("ctc", CTCSkipRemover())
from luna.gateware.interface.i2c import I2CInitiator, I2CBus
stats("i2c", I2CInitiator(pads=I2CBus(), period_cyc=8))
# full device
from luna.gateware.usb.usb2.device import USBDevice
from luna.gateware.usb.usb2.endpoints.stream import USBStreamInEndpoint, USBStreamOutEndpoint
from usb_protocol.emitters import DeviceDescriptorCollection
from luna.gateware.usb.devices.acm import USBSerialDevice
d = USBSerialDevice(bus=UTMIInterface(), idVendor=0x1209, idProduct=1)
nl=stats("acm", d)
from luna.gateware.interface.gateware_phy.phy import GatewarePHY
from amaranth.hdl.rec import Record
io = Record([('d_p',[('i',1),('o',1),('oe',1)]),('d_n',[('i',1),('o',1),('oe',1)])])
stats("gphy", GatewarePHY(io=io))
ops=collections.Counter()
for c in nl.cells:
    if isinstance(c,_nir.Operator): ops[(c.operator,len(c.inputs))]+=1
print(ops)
import inspect
print([n for n,o in inspect.getmembers(_nir) if inspect.isclass(o)])
