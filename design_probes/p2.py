import sys; sys.path.insert(0,'/repo')
from amaranth import *
from amaranth.hdl.rec import Record
from amaranth.sim import Simulator
from luna.gateware.interface.ulpi import UTMITranslator
ulpi=Record([("data",[("i",8),("o",8),("oe",1)]),("nxt",[("i",1)]),("stp",[("o",1)]),("dir",[("i",1)])])
t=UTMITranslator(ulpi=ulpi, handle_clocking=False)
m=Module(); m.submodules.t=t
sim=Simulator(m); sim.add_clock(1/60e6, domain="usb")
regs={}
async def phy(ctx):
    # simple PHY: when link drives nonzero cmd with dir low, assert nxt next cycle; capture reg writes
    state="idle"; addr=None
    while True:
        await ctx.tick("usb")
        d=ctx.get(ulpi.data.o); stp=ctx.get(ulpi.stp.o)
        if state=="idle":
            if d!=0:
                ctx.set(ulpi.nxt.i,1)
                if d>>6==0b10: state="regw"; addr=d&0x3f
                elif d>>6==0b01: state="tx"
            else: ctx.set(ulpi.nxt.i,0)
        elif state=="regw":
            state="regw_data"
        elif state=="regw_data":
            regs[addr]=d; state="wait_stp"; ctx.set(ulpi.nxt.i,0)
        elif state=="wait_stp":
            if stp: state="idle"
        elif state=="tx":
            if stp: state="idle"; ctx.set(ulpi.nxt.i,0)
async def tb(ctx):
    ctx.set(t.xcvr_select,1); ctx.set(t.term_select,0); ctx.set(t.op_mode,0); ctx.set(t.dp_pulldown,1); ctx.set(t.dm_pulldown,1); ctx.set(t.use_external_vbus_indicator,1)
    for _ in range(200): await ctx.tick("usb")
    print("regs after init", {hex(k):hex(v) for k,v in regs.items()})
    # simultaneous: change control input and start transmission
    ctx.set(t.term_select,1); ctx.set(t.tx_valid,1); ctx.set(t.tx_data,0xD2)
    acc=0
    for i in range(300):
        await ctx.tick("usb")
        if ctx.get(t.tx_ready): acc+=1; ctx.set(t.tx_valid,0)
    print("tx accepted:",acc,"regs", {hex(k):hex(v) for k,v in regs.items()}, "busy", ctx.get(t.busy))
sim.add_testbench(tb); sim.add_testbench(phy, background=True)
sim.run()
