# throwaway: emit USB2 CRC16 parallel next-state as bool expressions over c0..c15 d0..d7, from the real source
import sys; sys.path.insert(0,'/repo')
from amaranth import *
from amaranth.hdl import _ast
from luna.gateware.usb.usb2.packet import USBDataPacketCRC
crc=Signal(16,name="c"); d=Signal(8,name="d")
e=USBDataPacketCRC()._generate_next_crc(crc,d)
def bit(v,i):
    # return string bool expr of bit i of value v
    if isinstance(v,_ast.Signal):
        return f"{v.name}{i}"
    if isinstance(v,_ast.Slice):
        return bit(v.value, v.start+i)
    if isinstance(v,_ast.Concat):
        off=0
        for p in v.parts:
            if i<off+len(p): return bit(p,i-off)
            off+=len(p)
    if isinstance(v,_ast.Operator):
        if v.operator=='^': return f"(xorb {bit(v.operands[0],i)} {bit(v.operands[1],i)})"
        if v.operator=='~': return f"(negb {bit(v.operands[0],i)})"
    if isinstance(v,_ast.Const):
        return "true" if (v.value>>i)&1 else "false"
    raise Exception(type(v), getattr(v,'operator',None))
vars_=" ".join([f"c{i}" for i in range(16)]+[f"d{i}" for i in range(8)])
print("Definition crc16_next (" + vars_ + " : bool) : list bool := [")
print(";\n".join("  "+bit(e,i) for i in range(16)))
print("].")
