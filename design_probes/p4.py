import sys; sys.path.insert(0,'/repo')
from amaranth import *
from amaranth.sim import Simulator
from usb_protocol.emitters import DeviceDescriptorCollection
from luna.gateware.usb.usb2.descriptor import GetDescriptorHandlerDistributed, GetDescriptorHandlerBlock
def run(cls, L, mps, wlen):
    coll=DeviceDescriptorCollection()
    desc=bytes([L,0x22]+[ (i*7+3)&0xff for i in range(L-2)])
    coll.add_descriptor(desc, index=0, descriptor_type=0x22)
    d=cls(coll, max_packet_length=mps)
    m=Module(); m.submodules.d=d
    sim=Simulator(m); sim.add_clock(1e-6, domain="usb")
    pkts=[]
    async def tb(ctx):
        ctx.set(d.value,0x2200); ctx.set(d.length,wlen); ctx.set(d.tx.ready,1)
        pos=0
        for k in range(4):
            ctx.set(d.start_position,pos)
            ctx.set(d.start,1); await ctx.tick("usb"); ctx.set(d.start,0)
            cur=[]; zlp=False; stalled=False
            for _ in range(mps+20):
                if ctx.get(d.stall): stalled=True
                if ctx.get(d.tx.valid):
                    if ctx.get(d.tx.last) and not ctx.get(d.tx.first) and not cur: zlp=True
                    else: cur.append(ctx.get(d.tx.payload))
                await ctx.tick("usb")
            pkts.append(("ZLP" if zlp else ("STALL" if stalled else len(cur)), bytes(cur)==desc[pos:pos+len(cur)]))
            pos+=mps
    sim.add_testbench(tb); sim.run()
    return pkts
for cls in (GetDescriptorHandlerBlock, GetDescriptorHandlerDistributed):
    for L,mps in ((64,64),(16,8),(24,8),(18,8)):
        print(cls.__name__, L, mps, run(cls,L,mps,255))
