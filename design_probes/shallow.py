# THROWAWAY feasibility probe: NIR -> shallow Coq (N-based). Not framework code.
import sys
sys.path.insert(0,'/repo')
from amaranth.hdl import Fragment, _nir
from amaranth.hdl._ir import build_netlist

import re
def san(s): return re.sub(r"[^A-Za-z0-9_]","_",s)
def chunks(value):
    out=[]; pos=0
    while pos < len(value):
        n=value[pos]; nxt=pos
        if n.is_const:
            v=0
            while nxt < len(value) and value[nxt].is_const:
                v |= value[nxt].const << (nxt-pos); nxt+=1
            out.append(('c', v, nxt-pos))
        else:
            cell=n.cell; sb=n.bit
            while nxt<len(value) and value[nxt].is_cell and value[nxt].cell==cell and value[nxt].bit==sb+(nxt-pos): nxt+=1
            out.append(('n', cell, sb, nxt-pos))
        pos=nxt
    return out

class Emit:
    def __init__(self, nl, name):
        self.nl=nl; self.name=name
        self.width={}
    def val(self, value):
        if isinstance(value,_nir.Net): value=_nir.Value(value)
        # expression of N for a Value
        parts=[]; off=0
        for ch in chunks(value):
            if ch[0]=='c':
                if ch[1]: parts.append(f"(N.shiftl {ch[1]} {off})" if off else f"{ch[1]}")
                off+=ch[2]
            else:
                _,cell,sb,w=ch
                e=self.ref(cell,sb,w)
                parts.append(f"(N.shiftl {e} {off})" if off else e)
                off+=w
        if not parts: return "0"
        e=parts[0]
        for p in parts[1:]: e=f"(N.lor {e} {p})"
        return e
    def ref(self,cell,sb,w):
        if cell==0:
            # top input: find
            for nm,(start,width) in self.nl.top.ports_i.items():
                if start<=sb<start+width:
                    base=f"(i_{nm} inp)"; lo=sb-start; full=width
                    break
            else: raise Exception("no input")
        else:
            base=f"c{cell}"; lo=sb; full=self.width[cell]
        if lo==0 and w==full: return base
        return f"(bits {base} {lo} {w})"

def emit(elab, name, ports):
    frag=Fragment.get(elab,None)
    nl=build_netlist(frag, ports=ports)
    E=Emit(nl,name)
    cells=nl.cells
    # widths
    for i,c in enumerate(cells):
        if isinstance(c,_nir.Top): continue
        if isinstance(c,_nir.Operator):
            op=c.operator
            if op in ('==','!=','u<','u>','u<=','u>=','s<','s>','s<=','s>=','b','r|','r&','r^'): w=1
            elif op=='m': w=len(c.inputs[1])
            else: w=len(c.inputs[0])
        elif isinstance(c,_nir.Matches): w=1
        elif isinstance(c,_nir.PriorityMatch): w=len(c.inputs)
        elif isinstance(c,_nir.AssignmentList): w=len(c.default)
        elif isinstance(c,_nir.FlipFlop): w=len(c.data)
        elif isinstance(c,_nir.Part): w=c.width
        else: raise Exception(type(c))
        E.width[i]=w
    # deps + topo
    def deps(c):
        vs=[]
        if isinstance(c,_nir.Operator): vs=list(c.inputs)
        elif isinstance(c,_nir.Matches): vs=[c.value]
        elif isinstance(c,_nir.PriorityMatch): vs=[c.en,c.inputs]
        elif isinstance(c,_nir.AssignmentList): vs=[c.default]+[a.cond for a in c.assignments]+[a.value for a in c.assignments]
        elif isinstance(c,_nir.Part): vs=[c.value,c.offset]
        d=set()
        for v in vs:
            nets=[v] if isinstance(v,_nir.Net) else v
            for n in nets:
                if n.is_cell and n.cell!=0 and not isinstance(cells[n.cell],_nir.FlipFlop): d.add(n.cell)
        return d
    order=[]; seen={}
    def visit(i):
        if seen.get(i)==2: return
        if seen.get(i)==1: raise Exception("cycle")
        seen[i]=1
        for d in deps(cells[i]): visit(d)
        seen[i]=2; order.append(i)
    sys.setrecursionlimit(100000)
    ffs=[i for i,c in enumerate(cells) if isinstance(c,_nir.FlipFlop)]
    comb=[i for i,c in enumerate(cells) if not isinstance(c,(_nir.FlipFlop,_nir.Top))]
    for i in comb: visit(i)
    L=[]
    L.append("From Coq Require Import NArith List. Import ListNotations. Open Scope N_scope.")
    L.append("Definition bits (x:N) (lo w:N) : N := N.land (N.shiftr x lo) (N.ones w).")
    L.append("Definition trunc (w:N) (x:N) : N := N.land x (N.ones w).")
    L.append("Definition b2n (b:bool) : N := if b then 1 else 0.")
    ins=list(nl.top.ports_i.items())
    L.append("Record inputs := { " + "; ".join(f"i_{nm} : N" for nm,_ in ins) + " }.")
    L.append("Record state := { " + "; ".join(f"r{i} : N" for i in ffs) + " }.")
    outs=list(nl.top.ports_o.items())
    L.append("Record outputs := { " + "; ".join(f"o_{san(nm)} : N" for nm,_ in outs) + " }.")
    L.append("Definition init : state := {| " + "; ".join(f"r{i} := {cells[i].init}" for i in ffs) + " |}.")
    L.append("Definition step (st:state) (inp:inputs) : state * outputs :=")
    for i in ffs: L.append(f"  let c{i} := r{i} st in")
    for i in order:
        c=cells[i]; w=E.width[i]
        if isinstance(c,_nir.Operator):
            a=[E.val(v) for v in c.inputs]; op=c.operator
            if op=='~': e=f"N.lxor {a[0]} (N.ones {w})"
            elif op=='&': e=f"N.land {a[0]} {a[1]}"
            elif op=='|': e=f"N.lor {a[0]} {a[1]}"
            elif op=='^': e=f"N.lxor {a[0]} {a[1]}"
            elif op=='+': e=f"trunc {w} ({a[0]} + {a[1]})"
            elif op=='-': e=f"trunc {w} ({a[0]} + (N.shiftl 1 {w}) - {a[1]})"
            elif op=='==': e=f"b2n (N.eqb {a[0]} {a[1]})"
            elif op=='!=': e=f"b2n (negb (N.eqb {a[0]} {a[1]}))"
            elif op=='u<': e=f"b2n (N.ltb {a[0]} {a[1]})"
            elif op=='u<=': e=f"b2n (N.leb {a[0]} {a[1]})"
            elif op=='u>': e=f"b2n (N.ltb {a[1]} {a[0]})"
            elif op=='u>=': e=f"b2n (N.leb {a[1]} {a[0]})"
            elif op=='b': e=f"b2n (negb (N.eqb {a[0]} 0))"
            elif op=='u>>': e=f"N.shiftr {a[0]} {a[1]}"
            elif op=='m': e=f"(if N.eqb {a[0]} 0 then {a[2]} else {a[1]})"
            else: raise Exception(op)
        elif isinstance(c,_nir.Matches):
            v=E.val(c.value); alts=[]
            for p in c.patterns:
                mask=int(''.join('0' if ch=='-' else '1' for ch in p),2); val=int(p.replace('-','0'),2)
                alts.append(f"N.eqb (N.land {v} {mask}) {val}")
            e="b2n (" + " || ".join(alts) + ")%bool" if alts else "0"
        elif isinstance(c,_nir.PriorityMatch):
            # output bit k = en & in[k] & none of earlier
            en=E.val(c.en); inp=E.val(c.inputs)
            e=f"(if N.eqb {en} 0 then 0 else let x := {inp} in N.land x (N.succ (N.lxor x (N.ones {w})) ))" if False else f"pmatch {w} ({en}) ({inp})"
        elif isinstance(c,_nir.AssignmentList):
            e=E.val(c.default)
            for a in c.assignments:
                cond=E.val(_nir.Value(a.cond)); v=E.val(a.value); aw=len(a.value)
                if a.start==0 and aw==w: upd=v
                else: upd=f"(setbits ({e}) {a.start} {aw} {v})"
                e=f"(if N.eqb {cond} 0 then {e} else {upd})"
        else: raise Exception(type(c))
        L.append(f"  let c{i} := {e} in")
    L.append("  ({| " + "; ".join(f"r{i} := {E.val(cells[i].data)}" for i in ffs) + " |},")
    L.append("   {| " + "; ".join(f"o_{san(nm)} := {E.val(v)}" for nm,v in outs) + " |}).")
    pre = ["Fixpoint pm_go (n:nat) (x:N) (k:N) : N := match n with O => 0 | S n' => if N.testbit x k then N.shiftl 1 k else pm_go n' x (N.succ k) end.",
           "Definition pmatch (w:N) (en x:N) : N := if N.eqb en 0 then 0 else pm_go (N.to_nat w) x 0.",
           "Definition setbits (x:N) (lo w v:N) : N := N.lor (N.land x (N.lxor (N.ones 64) (N.shiftl (N.ones w) lo))) (N.shiftl v lo)."]
    L[4:4]=pre
    return "\n".join(L), nl

if __name__=="__main__":
    from luna.gateware.usb.usb2.packet import USBTokenDetector
    from luna.gateware.interface.utmi import UTMIInterface
    u=UTMIInterface()
    d=USBTokenDetector(utmi=u)
    ifc=d.interface
    txt,nl=emit(d,"tok",[u.rx_data,u.rx_valid,u.rx_active,d.address,d.speed,ifc.pid,ifc.address,ifc.endpoint,ifc.new_token,ifc.frame,ifc.new_frame,ifc.ready_for_response])
    open("Tok.v","w").write(txt)
    print(len(txt))
