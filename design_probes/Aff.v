
From Coq Require Import List Bool Arith Lia. Import ListNotations.
Inductive xt := V (i:nat) | K (b:bool) | X (a b:xt) | Nt (a:xt).
Fixpoint ev (env:nat->bool) t : bool :=
  match t with V i => env i | K b => b | X a b => xorb (ev env a) (ev env b) | Nt a => negb (ev env a) end.
Section Aff.
Variable n : nat.
Definition aff := (list bool * bool)%type.
Fixpoint xorl (a b:list bool) : list bool :=
  match a,b with x::a',y::b' => xorb x y :: xorl a' b' | [],_ => b | _,[] => a end.
Fixpoint unitv (len i:nat) : list bool :=
  match len with 0 => [] | S l => match i with 0 => true :: repeat false l | S i' => false :: unitv l i' end end.
Fixpoint nf t : aff :=
  match t with
  | V i => (unitv n i, false) | K b => (repeat false n, b)
  | X a b => let '(m1,c1):=nf a in let '(m2,c2):=nf b in (xorl m1 m2, xorb c1 c2)
  | Nt a => let '(m,c):=nf a in (m, negb c) end.
Fixpoint evm (env:nat->bool) (k:nat) (m:list bool) : bool :=
  match m with [] => false | x::m' => xorb (x && env k) (evm env (S k) m') end.
Definition eva env (a:aff) := xorb (evm env 0 (fst a)) (snd a).
Lemma evm_xorl : forall a b env k, evm env k (xorl a b) = xorb (evm env k a) (evm env k b).
Proof. induction a as [|x a IH]; intros [|y b] env k; simpl in *; auto.
  - destruct (xorb (y && env k) (evm env (S k) b)); reflexivity.
  - destruct (xorb (x && env k) (evm env (S k) a)); reflexivity.
  - rewrite IH. destruct x,y,(env k),(evm env (S k) a),(evm env (S k) b); reflexivity. Qed.
Lemma evm_zero : forall l env k, evm env k (repeat false l) = false.
Proof. induction l; intros; simpl; auto. rewrite IHl. reflexivity. Qed.
Lemma evm_unit : forall len i env k, i < len -> evm env k (unitv len i) = env (k+i).
Proof. induction len; intros i env k H; [lia|]. destruct i; simpl.
  - rewrite evm_zero. rewrite Nat.add_0_r. destruct (env k); reflexivity.
  - rewrite IHlen by lia. replace (S k + i) with (k + S i) by lia. destruct (env (k + S i)); reflexivity. Qed.
Lemma len_unit : forall len i, length (unitv len i) = len.
Proof. induction len; intros; simpl; auto. destruct i; simpl; [rewrite repeat_length|rewrite IHlen]; reflexivity. Qed.
Fixpoint wf t := match t with V i => i <? n | K _ => true | X a b => wf a && wf b | Nt a => wf a end.
Lemma nf_sound : forall env t, wf t = true -> ev env t = eva env (nf t).
Proof. unfold eva. induction t; simpl; intros H.
  - apply Nat.ltb_lt in H. rewrite evm_unit by auto. simpl. destruct (env i); reflexivity.
  - rewrite evm_zero. destruct b; reflexivity.
  - apply andb_true_iff in H as [H1 H2]. rewrite IHt1, IHt2 by auto.
    destruct (nf t1) as [m1 c1], (nf t2) as [m2 c2]; simpl in *. rewrite evm_xorl.
    destruct (evm env 0 m1),(evm env 0 m2),c1,c2; reflexivity.
  - rewrite IHt by auto. destruct (nf t); simpl. destruct (evm env 0 l), b; reflexivity. Qed.
End Aff.

(* generic MSB-first serial CRC step over any xor-algebra *)
Section Gen.
Variable T:Type. Variable tx:T->T->T. Variable tz:T.
Fixpoint zipp (p:list bool) (c:list T) (fb:T) : list T :=
  match p,c with pb::p', x::c' => (if pb then tx x fb else x) :: zipp p' c' fb | _,_ => [] end.
Definition sstep (poly:list bool) (reg:list T) (b:T) : list T :=
  let fb := tx (last reg tz) b in zipp poly (tz :: removelast reg) fb.
Definition ssteps poly reg bits := fold_left (sstep poly) bits reg.
End Gen.

Section Hom.
Variables (A B:Type) (ta:A->A->A) (za:A) (tb:B->B->B) (zb:B) (h:A->B).
Hypothesis hx : forall x y, h (ta x y) = tb (h x) (h y).
Hypothesis hz : h za = zb.
Lemma zipp_hom : forall p c fb, map h (zipp A ta p c fb) = zipp B tb p (map h c) (h fb).
Proof. induction p; intros [|x c] fb; simpl; auto. rewrite IHp. destruct a; rewrite ?hx; reflexivity. Qed.
Lemma last_hom : forall l, h (last l za) = last (map h l) zb.
Proof. induction l as [|x [|y l] IH]; simpl in *; auto. Qed.
Lemma removelast_hom : forall l, map h (removelast l) = removelast (map h l).
Proof. induction l as [|x [|y l] IH]; simpl in *; auto. rewrite IH. reflexivity. Qed.
Lemma sstep_hom : forall p r b, map h (sstep A ta za p r b) = sstep B tb zb p (map h r) (h b).
Proof. intros. unfold sstep. rewrite zipp_hom. simpl. rewrite hx, last_hom, removelast_hom, hz. reflexivity. Qed.
Lemma ssteps_hom : forall p bits r, map h (ssteps A ta za p r bits) = ssteps B tb zb p (map h r) (map h bits).
Proof. induction bits; intros; simpl; auto. unfold ssteps in *. simpl. rewrite IHbits, sstep_hom. reflexivity. Qed.
End Hom.

Definition poly16 : list bool := map (fun i => orb (Nat.eqb i 0) (orb (Nat.eqb i 2) (Nat.eqb i 15))) (seq 0 16).
(* the specification: bit-serial CRC-16 step over 8 data bits *)
Definition spec16 (reg data : list bool) : list bool := ssteps bool xorb false poly16 reg data.

Definition crc16_next (c0 c1 c2 c3 c4 c5 c6 c7 c8 c9 c10 c11 c12 c13 c14 c15 d0 d1 d2 d3 d4 d5 d6 d7 : bool) : list bool := [
  (xorb (xorb (xorb (xorb (xorb (xorb (xorb (xorb d0 d1) d2) d3) d4) d5) d6) d7) (xorb (xorb (xorb (xorb (xorb (xorb (xorb c8 c9) c10) c11) c12) c13) c14) c15));
  (xorb (xorb (xorb (xorb (xorb (xorb (xorb d0 d1) d2) d3) d4) d5) d6) (xorb (xorb (xorb (xorb (xorb (xorb c9 c10) c11) c12) c13) c14) c15));
  (xorb (xorb d6 d7) (xorb c8 c9));
  (xorb (xorb d5 d6) (xorb c9 c10));
  (xorb (xorb d4 d5) (xorb c10 c11));
  (xorb (xorb d3 d4) (xorb c11 c12));
  (xorb (xorb d2 d3) (xorb c12 c13));
  (xorb (xorb d1 d2) (xorb c13 c14));
  (xorb (xorb (xorb d0 d1) (xorb c14 c15)) c0);
  (xorb (xorb d0 c1) c15);
  c2;
  c3;
  c4;
  c5;
  c6;
  (xorb (xorb (xorb (xorb (xorb (xorb (xorb (xorb d0 d1) d2) d3) d4) d5) d6) d7) (xorb (xorb (xorb (xorb (xorb (xorb (xorb (xorb c7 c8) c9) c10) c11) c12) c13) c14) c15))
].


Definition gen_xt : list xt := [

  (X (X (X (X (X (X (X (X (V 16) (V 17)) (V 18)) (V 19)) (V 20)) (V 21)) (V 22)) (V 23)) (X (X (X (X (X (X (X (V 8) (V 9)) (V 10)) (V 11)) (V 12)) (V 13)) (V 14)) (V 15)));
  (X (X (X (X (X (X (X (V 16) (V 17)) (V 18)) (V 19)) (V 20)) (V 21)) (V 22)) (X (X (X (X (X (X (V 9) (V 10)) (V 11)) (V 12)) (V 13)) (V 14)) (V 15)));
  (X (X (V 22) (V 23)) (X (V 8) (V 9)));
  (X (X (V 21) (V 22)) (X (V 9) (V 10)));
  (X (X (V 20) (V 21)) (X (V 10) (V 11)));
  (X (X (V 19) (V 20)) (X (V 11) (V 12)));
  (X (X (V 18) (V 19)) (X (V 12) (V 13)));
  (X (X (V 17) (V 18)) (X (V 13) (V 14)));
  (X (X (X (V 16) (V 17)) (X (V 14) (V 15))) (V 0));
  (X (X (V 16) (V 1)) (V 15));
  (V 2);
  (V 3);
  (V 4);
  (V 5);
  (V 6);
  (X (X (X (X (X (X (X (X (V 16) (V 17)) (V 18)) (V 19)) (V 20)) (V 21)) (V 22)) (V 23)) (X (X (X (X (X (X (X (X (V 7) (V 8)) (V 9)) (V 10)) (V 11)) (V 12)) (V 13)) (V 14)) (V 15)))

].
Definition envof (l:list bool) (i:nat) := nth i l false.
Lemma gen_reify : forall c0 c1 c2 c3 c4 c5 c6 c7 c8 c9 c10 c11 c12 c13 c14 c15 d0 d1 d2 d3 d4 d5 d6 d7,
  map (ev (envof [c0;c1;c2;c3;c4;c5;c6;c7;c8;c9;c10;c11;c12;c13;c14;c15;d0;d1;d2;d3;d4;d5;d6;d7])) gen_xt
  = crc16_next c0 c1 c2 c3 c4 c5 c6 c7 c8 c9 c10 c11 c12 c13 c14 c15 d0 d1 d2 d3 d4 d5 d6 d7.
Proof. intros. reflexivity. Qed.

(* symbolic run of the spec over affine forms, 24 variables *)
Definition axor (a b:aff) : aff := (xorl (fst a) (fst b), xorb (snd a) (snd b)).
Definition azero : aff := (repeat false 24, false).
Definition avar i : aff := (unitv 24 i, false).
Definition spec_aff : list aff := ssteps aff axor azero poly16 (map avar (seq 0 16)) (map avar (seq 16 8)).
Lemma forms_equal : map (nf 24) gen_xt = spec_aff.
Proof. vm_compute. reflexivity. Qed.

Lemma eva_axor : forall env a b, eva env (axor a b) = xorb (eva env a) (eva env b).
Proof. intros env [m1 c1] [m2 c2]. unfold eva, axor; simpl. rewrite evm_xorl.
  destruct (evm env 0 m1),(evm env 0 m2),c1,c2; reflexivity. Qed.
Lemma eva_azero : forall env, eva env azero = false.
Proof. intros. unfold eva, azero; simpl. reflexivity. Qed.
Lemma eva_avar : forall env i, i < 24 -> eva env (avar i) = env i.
Proof. intros. unfold eva, avar. cbn [fst snd]. rewrite evm_unit by auto. cbn [Nat.add]. destruct (env i); reflexivity. Qed.
Lemma map_eva_avar : forall env s l, s + l <= 24 -> map (eva env) (map avar (seq s l)) = map env (seq s l).
Proof. intros env s l; revert s. induction l; intros; simpl; auto. rewrite eva_avar by lia. rewrite IHl by lia. reflexivity. Qed.
Lemma gen_wf : forallb (wf 24) gen_xt = true. Proof. vm_compute. reflexivity. Qed.

Theorem crc16_parallel_is_serial :
  forall c0 c1 c2 c3 c4 c5 c6 c7 c8 c9 c10 c11 c12 c13 c14 c15 d0 d1 d2 d3 d4 d5 d6 d7,
  crc16_next c0 c1 c2 c3 c4 c5 c6 c7 c8 c9 c10 c11 c12 c13 c14 c15 d0 d1 d2 d3 d4 d5 d6 d7
  = spec16 [c0;c1;c2;c3;c4;c5;c6;c7;c8;c9;c10;c11;c12;c13;c14;c15] [d0;d1;d2;d3;d4;d5;d6;d7].
Proof.
  intros. rewrite <- gen_reify.
  set (env := envof _).
  assert (E: map (ev env) gen_xt = map (eva env) (map (nf 24) gen_xt)).
  { rewrite map_map. apply map_ext_in. intros t Ht. apply nf_sound.
    pose proof gen_wf as W. rewrite forallb_forall in W. auto. }
  rewrite E, forms_equal. unfold spec_aff, spec16.
  rewrite (ssteps_hom aff bool axor azero xorb false (eva env) (eva_axor env) (eva_azero env)).
  rewrite !map_eva_avar by lia. reflexivity.
Qed.
Print Assumptions crc16_parallel_is_serial.
