import sys, random; sys.path.insert(0,'/repo')
from amaranth import *
from amaranth.sim import Simulator
from luna.gateware.usb.usb2.packet import USBTokenDetector, USBDataPacketCRC
from luna.gateware.usb.usb3.link.crc import compute_usb_crc5, HeaderPacketCRC, DataPacketPayloadCRC

def crc_serial(bits, width, poly, init):
    # MSB-first LFSR over a bit sequence (bits in transmission order); returns register
    reg=init
    for b in bits:
        top=(reg>>(width-1))&1
        reg=(reg<<1)&((1<<width)-1)
        if top^b: reg^=poly
    return reg
def rev(x,w): return int(format(x,f'0{w}b')[::-1],2)

# --- USB2 token CRC5: bits transmitted LSB first of the 11-bit field; result inverted; sent MSB(of reg) first
def usb_crc5(v11):
    bits=[(v11>>i)&1 for i in range(11)]
    r=crc_serial(bits,5,0b00101,0b11111)^0b11111
    return rev(r,5)   # as it appears in token bits [11..15] LSB-first
def usb_crc16(data):
    bits=[(b>>i)&1 for b in data for i in range(8)]
    r=crc_serial(bits,16,0x8005,0xFFFF)^0xFFFF
    return rev(r,16)

class Comb(Elaboratable):
    def __init__(s): s.i=Signal(11); s.o2=Signal(5); s.o3=Signal(5)
    def elaborate(s,p):
        m=Module(); m.d.comb+=[s.o2.eq(USBTokenDetector._generate_crc_for_token(s.i)), s.o3.eq(compute_usb_crc5(s.i))]; return m
c=Comb(); sim=Simulator(c); res=[]
async def tb(ctx):
    bad2=bad3=0
    for v in range(2048):
        ctx.set(c.i,v); 
        if ctx.get(c.o2)!=usb_crc5(v): bad2+=1
        if ctx.get(c.o3)!=usb_crc5(v): bad3+=1
    print("crc5 usb2 mismatches",bad2,"usb3-linkcmd mismatches",bad3)
sim.add_testbench(tb); sim.run()

# CRC16 usb2 module
d=USBDataPacketCRC(); from luna.gateware.usb.usb2.packet import DataCRCInterface
ifc=DataCRCInterface(); d.add_interface(ifc)
m=Module(); m.submodules.d=d
sim=Simulator(m); sim.add_clock(1e-6,domain="usb")
async def tb2(ctx):
    bad=0
    for t in range(50):
        data=[random.randrange(256) for _ in range(random.randrange(0,20))]
        ctx.set(ifc.start,1); await ctx.tick("usb"); ctx.set(ifc.start,0)
        for b in data:
            ctx.set(d.rx_data,b); ctx.set(d.rx_valid,1); await ctx.tick("usb")
        ctx.set(d.rx_valid,0); await ctx.tick("usb")
        if ctx.get(ifc.crc)!=usb_crc16(data): bad+=1
    print("crc16 usb2 mismatches",bad)
sim.add_testbench(tb2); sim.run()

# USB3 header CRC16: poly 0x100B init 0xFFFF over 12 bytes, LSB-first per byte, inverted, bit-reversed
def usb3_crc16(words):
    bits=[(w>>i)&1 for w in words for i in range(32)]
    r=crc_serial(bits,16,0x100B,0xFFFF)^0xFFFF
    return rev(r,16)
h=HeaderPacketCRC(); m=Module(); m.submodules.h=h
sim=Simulator(m); sim.add_clock(1e-6,domain="ss")
async def tb3(ctx):
    bad=0
    for t in range(50):
        ws=[random.getrandbits(32) for _ in range(3)]
        ctx.set(h.clear,1); await ctx.tick("ss"); ctx.set(h.clear,0)
        for w in ws:
            ctx.set(h.data_input,w); ctx.set(h.advance_crc,1); await ctx.tick("ss")
        ctx.set(h.advance_crc,0); await ctx.tick("ss")
        if ctx.get(h.crc)!=usb3_crc16(ws): bad+=1
    print("crc16 usb3 mismatches",bad)
sim.add_testbench(tb3); sim.run()

def usb3_crc32(data):
    bits=[(b>>i)&1 for b in data for i in range(8)]
    r=crc_serial(bits,32,0x04C11DB7,0xFFFFFFFF)^0xFFFFFFFF
    return rev(r,32)
p=DataPacketPayloadCRC(); m=Module(); m.submodules.p=p
sim=Simulator(m); sim.add_clock(1e-6,domain="ss")
async def tb4(ctx):
    bad=0
    for t in range(80):
        n=random.randrange(0,30); data=[random.randrange(256) for _ in range(n)]
        ctx.set(p.clear,1); await ctx.tick("ss"); ctx.set(p.clear,0)
        i=0
        while n-i>=4:
            ctx.set(p.data_input,int.from_bytes(bytes(data[i:i+4]),'little')); ctx.set(p.advance_word,1); await ctx.tick("ss"); i+=4
        ctx.set(p.advance_word,0)
        rem=n-i
        if rem:
            ctx.set(p.data_input,int.from_bytes(bytes(data[i:]),'little'))
            sig={1:p.advance_1B,2:p.advance_2B,3:p.advance_3B}[rem]
            ctx.set(sig,1); await ctx.tick("ss"); ctx.set(sig,0)
        await ctx.tick("ss")
        if ctx.get(p.crc)!=usb3_crc32(data): bad+=1; 
    print("crc32 usb3 mismatches",bad)
sim.add_testbench(tb4); sim.run()
