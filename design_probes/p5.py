import sys; sys.path.insert(0,'/repo')
from amaranth import *
from amaranth.sim import Simulator
from luna.gateware.usb.usb2.endpoints.isochronous_stream_out import USBIsochronousStreamOutEndpoint
from luna.gateware.usb.usb2 import USBPacketID
ep=USBIsochronousStreamOutEndpoint(endpoint_number=1,max_packet_size=4,buffer_size=8)
m=Module(); m.submodules.ep=ep
sim=Simulator(m); sim.add_clock(1e-6,domain="usb")
i=ep.interface; out=[]
async def tb(ctx):
    ctx.set(i.tokenizer.endpoint,1); ctx.set(i.tokenizer.pid,USBPacketID.OUT); ctx.set(i.tokenizer.is_out,1)
    async def pkt(bs):
        ctx.set(i.rx.valid,1)
        for b in bs:
            ctx.set(i.rx.payload,b); ctx.set(i.rx.next,1); await ctx.tick("usb")
            ctx.set(i.rx.next,0); await ctx.tick("usb")
        ctx.set(i.rx.valid,0); ctx.set(i.rx_complete,1); await ctx.tick("usb"); ctx.set(i.rx_complete,0)
        for _ in range(6): await ctx.tick("usb")
    await pkt([1,2,3,4])      # fills 4 of 8
    await pkt([5,6,7,8])      # space_available == 4 at start
    ctx.set(ep.stream.ready,1)
    for _ in range(20):
        if ctx.get(ep.stream.valid):
            out.append((ctx.get(ep.stream.p.data), ctx.get(ep.stream.p.first), ctx.get(ep.stream.p.last)))
        await ctx.tick("usb")
sim.add_testbench(tb); sim.run(); print(out)
