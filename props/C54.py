"""C54 -- PHY reset controller (luna/gateware/architecture/car.py: PHYResetController)."""
from harness.core import Target
from harness import tie

PID = "C54"
ASSUMPTIONS = [
    "tie configurations (reset cycles, stop cycles, power_on_reset): see obligation_list; the parametric theorem "
    "C54_phyreset_refines covers every r,s >= 1 with a counter wide enough for max(r,s)",
    "clock frequency enters only through ceil(length*frequency); targets are built with frequency 1 Hz so that lengths are cycle counts",
]
TIE_IMPORTS = "From LunaModel Require Import PhyReset PhyReset_proofs.\n"


def mk(r, s, por):
    def build():
        from luna.gateware.architecture.car import PHYResetController
        d = PHYResetController(clock_frequency=1, reset_length=r, stop_length=s, power_on_reset=por)
        return d, [("trigger", d.trigger)], [("phy_reset", d.phy_reset), ("phy_stop", d.phy_stop)]
    t = Target(f"phyreset_r{r}_s{s}_{'por' if por else 'nopor'}", build)
    t.params = dict(r=r, s=s, por=por)
    return t


def targets(tier):
    cfgs = [(2, 2), (2, 5), (3, 8), (5, 3)] if tier == "quick" else \
           [(2, 2), (2, 5), (3, 8), (5, 3), (2, 3), (4, 4), (4, 5), (7, 9), (16, 33), (120, 120), (3, 200)]
    return [mk(r, s, p) for (r, s) in cfgs for p in (True, False)]


def traces(target, rng, tier):
    n = 20 if tier == "quick" else 100
    r, s = target.params["r"], target.params["s"]
    out = []
    for k in range(n):
        p = rng.choice([0.02, 0.1, 0.5])
        out.append([{"trigger": int(rng.random() < p)} for _ in range(rng.randint(1, 3 * (r + s) + 10))])
    return out


def obligations(targets, tier):
    obs = []
    for t in targets:
        r, s = t.params["r"], t.params["s"]; por = "true" if t.params["por"] else "false"
        w = f"(range_width (N.max {r} {s}))"
        obs.append(tie.rlock(
            f"ob_{t.name}", t,
            St="pr_state", mstep=f"pr_step {r} {s} {w}", enc="pr_enc", dec="pr_dec",
            wf="pr_wf 0", dec_enc="(fun st _ => pr_dec_enc st)", wf_step="(fun _ _ _ => I)",
            m0=f"pr_init {por}", wf_m0="exact I.",
            alpha_bits=1, fuel=100000,
            describe=f"PHYResetController(reset={r} cycles, stop={s} cycles, power_on_reset={t.params['por']}) == FSM model, all trigger traces"))
    return obs


def tie_theorems(targets, tier):
    s_ = ""
    for t in targets:
        r, s = t.params["r"], t.params["s"]; por = "true" if t.params["por"] else "false"
        s_ += f"""
Theorem C54_{t.name} : forall tr, Forall (fun i => i < 2 ^ N.of_nat 1) tr ->
  run {t.modname}.step {t.modname}.init tr = run (sp_step {r} {s}) (sp_init {por}) tr.
Proof.
  intros tr H. rewrite (ob_{t.name}_T.tie tr H (env_ok_true _ _ _ _)).
  apply phyreset_from_reset; vm_compute; (discriminate || (split; discriminate)).
Qed.
"""
    return s_


def tie_theorem_names(targets, tier):
    return [f"C54_{t.name}" for t in targets]


LEVEL_TEXT = ("Machine-checked proof. (1) For all reset/stop lengths r,s >= 1 and any counter width w with r,s <= 2^w, the FSM model "
              "(code-shaped: three states + wrapping counter) produces, for every trigger trace, exactly the outputs of the one-counter "
              "specification 'reset high for cycles 0..r-1, stop high for cycles 0..r+s-1 after an accepted trigger, then idle' "
              "(C54_phyreset_refines, simulation relation + induction). (2) For each tie configuration the netlist regenerated from /repo "
              "is proved equal to the model on all trigger traces (certified product reachability), giving netlist = specification.")
LEVEL_NOTE = ("Trusted: Coq kernel + vm_compute, Amaranth elaboration, nir2coq.py/Netlist.v (validated each run against pysim). "
              "Tie per configuration ((r,s) incl. stop longer than reset, both power-on modes); clock frequency only scales lengths to cycles.")
TECHNIQUE = "Rocq proof: simulation relation to a one-counter spec (all r,s) + certified product-reachability against the regenerated netlist"
