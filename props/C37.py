"""C37 -- received header packets are accepted, acknowledged and buffered exactly
(luna/gateware/usb/usb3/link/receiver.py: RawHeaderPacketReceiver, HeaderPacketReceiver), while the link is in U0."""
from harness import tie
from harness.tie_explicit import rlock_alpha
from props import C37_hdrrx as H

PID = "C37"
ASSUMPTIONS = [
    "scope: the link stays in U0 -- enable = 1 and usb_reset = 0 in every cycle (disable / reset is C38); one list element = one ss clock cycle",
    "link partner (monitor returns None = vacuous from the first violation on): it sends a header only while it holds a credit "
    "(LCRDs completed minus headers accepted > 0) and never has more than buffer_count headers not yet LGOOD-ed; "
    "without the first rule the header buffers overflow, without the second the acks_to_send counter (width of range(n+1)) can wrap",
    "a header packet on the sink = a valid word HPSTART (SHP SHP SHP EPF, ctrl 1111) followed by the next four VALID words "
    "(invalid cycles in between are skipped, ctrl of the four words is not looked at); the word in the cycle after the fourth is not parsed",
    "acceptance timing: the CRC verdict is known in the cycle after the fourth word; bad headers act in that cycle, good ones one cycle later (new_packet is registered)",
    "a link command counts as sent in the cycle its command word is on source with source.ready (LinkCommandGenerator.done); the wire format of link commands is C35's subject, "
    "here the word is compared with subtype | command << 7 | crc5 << 11, twice",
    "R ties use HeaderPacketReceiver's elaborate() with a shrunk configuration (buffer_count 1/2, SEQUENCE_NUMBER_WIDTH 1/2 via subclass attribute, "
    "header records 1 bit wide, RawHeaderPacketReceiver replaced by a stub exposing new_packet/bad_packet/bad_sequence/packet as inputs); see props/C37_hdrrx.py. "
    "The unmodified HeaderPacketReceiver(buffer_count=4) and RawHeaderPacketReceiver are covered by correspondence + the specification monitor over simulator traces",
    "the parametric theorems need buffer_count = 2^pw (the buffer pointers are Signal(range(n)) and wrap at 2^pw; for other n the code indexes past its Array) and pw, sw <= 4 "
    "(link command subtypes are 4 bits); LUNA uses n = 4, sw = 3",
    "liveness (every owed LGOOD / LCRD / LBAD is eventually sent) is not claimed: it needs a fairness assumption on source.ready; safety only",
]
TIE_IMPORTS = "From LunaModel Require Import Crc HdrRx HdrRx_proofs.\n"

W_STUB = 4           # slot width of the packed model state of the stub targets (all fields < 16)


def targets(tier):
    ts = [H.mk_raw(), H.mk_stub(1, 1, 1), H.mk_full(4)]
    if tier != "quick":
        ts += [H.mk_stub(2, 2, 1), H.mk_stub(4, 3, 2), H.mk_full(2), H.mk_full(4, downstream=True)]
    return ts


def traces(target, rng, tier):
    if target.kind == "raw":
        return H.raw_traces(rng, tier)
    if target.kind == "stub":
        return H.stub_traces(target, rng, tier, restarts=False)
    return H.full_traces(target, rng, tier, restarts=False)


# input bit positions of the stub targets
B = dict(enable=0, usb_reset=1, queue_ready=2, retry_received=3, retry_required=4, keepalive_required=5,
         reject_power_state=6, source_ready=7, new_packet=8, bad_packet=9, bad_sequence=10, packet=11)


def alpha(fixed, free):
    f = sum(1 << B[k] for k in fixed)
    return f"alpha_of {f} [{'; '.join(str(B[k]) for k in free)}]"


def r_alphabets(t, tier):
    """(tag, alphabet expression, description) for the R lock-step obligations of stub target t (enable = 1, usb_reset = 0)."""
    n = t.params["n"]
    core = ["queue_ready", "retry_received", "source_ready", "new_packet", "bad_packet", "packet"]
    disp = ["retry_required", "keepalive_required", "reject_power_state", "source_ready", "bad_packet", "bad_sequence", "retry_received"]
    out = []
    if n == 1:
        out.append(("flow", alpha(["enable"], core), "header flow: queue.ready, retry_received, source.ready, new_packet, bad_packet, packet free"))
        out.append(("disp", alpha(["enable"], disp), "dispatcher: retry_required, keepalive_required, reject_power_state, source.ready, bad_packet, bad_sequence, retry_received free"))
        if tier != "quick":
            out.append(("mix", alpha(["enable"], core + ["retry_required"]), "header flow inputs and retry_required free"))
    elif n == 2:
        out.append(("flow", alpha(["enable"], core), "header flow inputs free"))
    return out


def model_args(t):
    n = t.params["n"]; pw, cw = H.widths(n)
    return dict(n=n, pw=pw, cw=cw, sw=t.params["sw"], hw=t.params["hw"], down="true" if t.params["downstream"] else "false")


def obligations(targets, tier):
    obs = []
    for t in targets:
        if t.kind == "raw":
            obs.append(tie.corr(f"corr_{t.name}", t, mstep="raw_mstep", m0="raw_init",
                                describe="RawHeaderPacketReceiver model vs simulator: header streams with good / corrupted CRCs, wrong sequence numbers, gaps, junk"))
            obs.append(tie.cmon(f"spec_{t.name}", t, mon="(rsx_monN 130)", m0="(packb 130 (rs_nums RS_HUNT ++ [0; 0]))",
                                describe="specification (declarative parser + standard CRC-5 / CRC-16 verdict) as oracle over simulator traces of RawHeaderPacketReceiver"))
            continue
        a = model_args(t)
        core = f"{a['n']} {a['pw']} {a['cw']} {a['sw']} {a['down']}"
        if t.kind == "stub":
            hw = a["hw"]; nb = a["n"]
            for tag, alph, desc in r_alphabets(t, tier):
                obs.append(rlock_alpha(
                    f"ob_{t.name}_{tag}", t, St="core", mstep=f"core_mstep {core} {hw}",
                    enc=f"core_enc {W_STUB}", dec=f"core_dec {W_STUB} {nb}", wf=f"core_wf {W_STUB} {nb}",
                    dec_enc=f"core_dec_enc {W_STUB} {nb}",
                    wf_step=f"core_wf_step' {core} {hw} {W_STUB} {nb} ltac:(lia) ltac:(lia) ltac:(lia) ltac:(lia) ltac:(lia)",
                    m0=f"core_init {a['n']} {a['cw']} {a['sw']}",
                    wf_m0="apply core_wf_init'; (lia || reflexivity).",
                    env=f"core_env {a['n']} {hw}", alphabet=alph, fuel=1000000,
                    describe=f"HeaderPacketReceiver bookkeeping (buffer_count={a['n']}, seq width {a['sw']}, stubbed raw receiver) == model in lock step, "
                             f"every trace in U0 over: {desc}; partner keeps its credit rules"))
            obs.append(tie.corr(f"corr_{t.name}", t, mstep=f"core_mstep {core} {hw}", m0=f"core_init {a['n']} {a['cw']} {a['sw']}",
                                describe="bookkeeping model vs simulator (stubbed raw receiver), all inputs random, partner rules not enforced"))
            obs.append(tie.cmon(f"spec_{t.name}", t,
                                mon=f"(sp_monN {a['n']} {a['sw']} {a['down']} 8 (cin_of {hw}) (unpack_cout {hw}))",
                                m0=f"(sp_enc 8 (sp_fresh {a['n']} {a['sw']} 0))",
                                describe="bookkeeping specification sp_mon as oracle over simulator traces"))
        else:
            obs.append(tie.corr(f"corr_{t.name}", t, mstep=f"hr_mstep {core}", m0=f"hr_init {a['n']} {a['cw']} 3",
                                describe=f"complete HeaderPacketReceiver(buffer_count={a['n']}) model vs simulator: partner scripts with corrupted / out-of-sequence headers and retries"))
            obs.append(tie.cmon(f"spec_{t.name}", t, mon=f"(hs_monN {a['n']} 3 {a['down']} 130)",
                                m0=f"(hs_enc 130 (rsx_init, sp_fresh {a['n']} 3 0))",
                                describe="sink-level specification (header parser + CRC verdict + bookkeeping monitor) as oracle over simulator traces of the real HeaderPacketReceiver"))
    return obs


def tie_theorems(targets, tier):
    s = ""
    for t in targets:
        if t.kind != "stub":
            continue
        a = model_args(t); G = t.modname
        core = f"{a['n']} {a['pw']} {a['cw']} {a['sw']} {a['down']}"
        for tag, alph, desc in r_alphabets(t, tier):
            ob = f"ob_{t.name}_{tag}"
            s += f"""
Theorem C37_{t.name}_{tag}_meets_spec : forall tr, Forall (fun i => In i {ob}.alpha) tr ->
  env_ok core (core_mstep {core} {a['hw']}) (core_env {a['n']} {a['hw']}) (core_init {a['n']} {a['cw']} {a['sw']}) tr = true ->
  exists ios, map fst ios = map (cin_of {a['hw']}) tr /\\
              run {G}.step {G}.init tr = map (fun io => pack_cout {a['hw']} (snd io)) ios /\\
              sp_accepts {a['n']} {a['sw']} {a['down']} (sp_fresh {a['n']} {a['sw']} 0) ios = true.
Proof.
  intros tr H HE. exists (core_ios {core} (core_init {a['n']} {a['cw']} {a['sw']}) (map (cin_of {a['hw']}) tr)).
  split; [apply core_ios_inputs|]. split.
  - rewrite ({ob}_T.tie tr H HE). apply core_mrun.
  - apply (core_meets_spec {core}); (reflexivity || lia).
Qed.
"""
    return s


def tie_theorem_names(targets, tier):
    return [f"C37_{t.name}_{tag}_meets_spec" for t in targets if t.kind == "stub" for tag, _, _ in r_alphabets(t, tier)]


LEVEL_TEXT = (
    "Machine-checked proof (Rocq), safety part of the property. (1) C37_raw_receiver_verdict: for every sink history and every "
    "expected-sequence history the RawHeaderPacketReceiver model reports, cycle by cycle, exactly what the declarative specification "
    "says: a header = HPSTART + the next four valid words; good iff CRC-5 and CRC-16 equal the standard bit-serial CRCs (Model/Crc.v, tied "
    "to LUNA's equations by C30) and, for acceptance, its sequence number equals the expected one. (2) C37_bookkeeping_meets_spec, for every "
    "buffer count n = 2^pw (pw <= 4), sequence width sw <= 4 and every input trace (header events, queue.ready, retry, source.ready stalls, "
    "keepalive/LXU/LRTY requests): the HeaderPacketReceiver bookkeeping model is accepted by the specification monitor sp_mon -- the queue offers "
    "exactly the oldest accepted-and-not-yet-taken header (each accepted header once, in order); a header is accepted iff good, in sequence and no "
    "corrupted header is outstanding (ignored until retry_received); every LGOOD is owed and carries the next sequence number (k-th accepted header "
    "<-> LGOOD of its number, after the advertisement); every LCRD is owed (one per buffer at link entry, one per header taken) with indices A,B,C,D "
    "in order, so partner credits + buffered + owed = n; every LBAD is owed. (3) C37_receiver_meets_spec: the composition raw receiver + bookkeeping "
    "against the sink-level specification (parser + verdict + monitor); C37_exactly_once_in_order: for any stretch the monitor accepts with the link up, headers delivered ++ headers still queued = "
    "headers queued before ++ headers accepted. (4) Ties: the netlist regenerated from /repo of HeaderPacketReceiver's "
    "bookkeeping (shrunk configuration, see assumptions) is proved equal to the model in lock step on all traces over explicit input alphabets "
    "(certified product reachability), giving netlist |= sp_mon; the unmodified RawHeaderPacketReceiver and HeaderPacketReceiver(4) are compared with "
    "the models and checked by the specification monitors on simulator traces (correspondence, not proof).")
LEVEL_NOTE = (
    "Safety only: that an owed LGOOD/LCRD/LBAD is eventually sent is not proved (needs fairness of source.ready). Scope U0 (enable high, no reset): the model "
    "is the C38-corrected behaviour, which coincides with the code as found while the link stays up. Partner assumptions (credit rule, at most n un-acknowledged "
    "headers) are part of the monitor (vacuous after a violation). R ties: buffer_count 1 (quick) / 1 and 2 (thorough) with a stubbed raw receiver and 1-bit headers, "
    "per listed alphabet; real configuration (n = 4, 128-bit headers, real CRCs) by correspondence + runtime oracle only. buffer_count not a power of two is outside "
    "the theorems (the code's pointers wrap at 2^pw). Trusted: Coq kernel + vm_compute, Amaranth elaboration, nir2coq/Netlist.v (validated every run against the simulator), "
    "harness/nir_split.py (self-dependent assignment split, validated the same way).")
TECHNIQUE = ("Rocq proof: invariant / simulation of a code-shaped parametric model against a small specification monitor (FIFO of accepted headers, owed LGOOD/LCRD/LBAD, "
             "partner credits); declarative packet parser related to the receive FSM; certified product-reachability lock-step against the regenerated netlist; "
             "specification monitors as runtime oracles over simulator traces")
