"""C27 -- constant stream generators (luna/gateware/stream/generator.py: ConstantStreamGenerator, StreamSerializer)."""
from harness.core import Target
from harness import tie

PID = "C27"
TIE_IMPORTS = "From LunaModel Require Import ConstGen ConstGen_proofs Serializer Serializer_proofs.\n"

ASSUMPTIONS = [
    "environment (sp_env / ss_env): a request starts within the data (start_position < number of stream words) and "
    "start_position is held while the request is answered (the code compares the *live* start_position to derive `first`; the "
    "docstring says it is 'applied when start is pulsed'); for StreamSerializer also the data array and max_length are held "
    "(its `last` uses the live max_length). max_length of the constant generator is latched and may change freely",
    "start positions beyond the data are outside the theorem (the code clamps them to the last word but then never asserts "
    "`first`; for multi-byte words the clamp compares a word index with the byte length); the model still mirrors the code there "
    "and the netlist tie covers those inputs too (model = netlist on ALL inputs, no environment restriction)",
    "a request with max_length = 0 is ignored altogether: no data and no `done` pulse (C27_zero_limit_ignored)",
    "the parametric refinement theorem is for generators with a max_length port (max_length_width given -- the only form "
    "LUNA instantiates); the variant without max_length is tied to the code-shaped model by the netlist tie only, and only when "
    "it elaborates at all (it does not on the unchanged tree, see findings/C27-noml-elaboration.json)",
    "constant data given as bytes; payload 8 bits or a multiple of 8 with valid_width = bytes per word (or 1); "
    "big-endian packing is covered by cfg_of_bytes + netlist ties (a partial last big-endian word holds its bytes in the low lanes)",
    "output_length is specified as min(latched max_length, len(data)) (the docstring's meaning); it does not account for start_position",
    "tie configurations: see obligation_list (R: data of 3-5 bytes / 11 bytes in 32-bit words with small max_length widths; "
    "serializer with 2-4 one- or two-bit elements; C: 18/64/70-byte descriptors with 16-bit max_length, the repo's "
    "'HELLO WORLD' 32-bit SuperSpeed configuration, USBDescriptorStreamGenerator, the 2-byte usb-domain serializer of standard.py)",
]


def _width_of_range(n):
    return max(n - 1, 0).bit_length()


# ------------------------------------------------------------------------------------------------
# ConstantStreamGenerator targets
# ------------------------------------------------------------------------------------------------
def mk_cg(name, data, bpw=1, vw=None, mlw=3, big=False, flavour="plain"):
    """data: bytes; bpw: bytes per stream word; vw: width of stream.valid (default: 1 if bpw == 1 else bpw);
    mlw: max_length_width or None; flavour: 'plain' StreamInterface in sync, 'ss' SuperSpeedStreamInterface in ss,
    'usbdesc' USBDescriptorStreamGenerator (usb domain, USBInStreamInterface, mlw=16)."""
    vw = vw if vw is not None else (1 if bpw == 1 else bpw)

    def build():
        from luna.gateware.stream import StreamInterface
        from luna.gateware.stream.generator import ConstantStreamGenerator
        if flavour == "usbdesc":
            from luna.gateware.usb.usb2.descriptor import USBDescriptorStreamGenerator
            d = USBDescriptorStreamGenerator(bytes(data))
        elif flavour == "ss":
            from luna.gateware.usb.stream import SuperSpeedStreamInterface
            d = ConstantStreamGenerator(bytes(data), domain="ss", stream_type=SuperSpeedStreamInterface, max_length_width=mlw)
        else:
            st = lambda **kw: StreamInterface(payload_width=8 * bpw, valid_width=vw)
            d = ConstantStreamGenerator(bytes(data), stream_type=st, max_length_width=mlw,
                                        data_endianness="big" if big else "little")
        ins = [("start", d.start), ("start_position", d.start_position)]
        if mlw: ins.append(("max_length", d.max_length))
        ins.append(("ready", d.stream.ready))
        outs = [("valid", d.stream.valid), ("first", d.stream.first), ("last", d.stream.last),
                ("payload", d.stream.payload), ("done", d.done)]
        if mlw: outs.append(("output_length", d.output_length))
        return d, ins, outs
    t = Target(name, build)
    nwords = (len(data) + bpw - 1) // bpw
    spw = _width_of_range(len(data))
    t.params = dict(kind="cg", data=list(data), bpw=bpw, vw=vw, mlw=mlw, big=big, nwords=nwords, spw=spw)
    t.in_bits = 1 + spw + (mlw or 0) + 1
    cfg = (f"(cfg_of_bytes [{'; '.join(str(b) for b in data)}] {bpw}%nat {'true' if big else 'false'} "
           f"{'(Some %d)' % mlw if mlw else 'None'})")
    if vw != bpw:
        # stream types whose valid is a single bit although the payload is several bytes wide
        cfg = (f"(let c0 := {cfg} in {{| c_words := c_words c0; c_bpw := c_bpw c0; c_vw := {vw}; c_lwb := {vw}; "
               f"c_dlen := c_dlen c0; c_hasml := c_hasml c0; c_mlw := c_mlw c0; c_posw := c_posw c0; c_spw := c_spw c0; "
               f"c_dw := c_dw c0 |}})")
    t.cfg = cfg
    return t


# ------------------------------------------------------------------------------------------------
# StreamSerializer targets
# ------------------------------------------------------------------------------------------------
def mk_ser(name, n, dw, mlw, flavour="plain"):
    def build():
        from luna.gateware.stream import StreamInterface
        from luna.gateware.stream.generator import StreamSerializer
        if flavour == "usb":
            from luna.gateware.usb.stream import USBInStreamInterface
            d = StreamSerializer(data_length=n, domain="usb", data_width=dw, stream_type=USBInStreamInterface, max_length_width=mlw)
        else:
            d = StreamSerializer(data_length=n, data_width=dw, max_length_width=mlw)
        ins = [("start", d.start)] + [(f"datum{k}", d.data[k]) for k in range(n)]
        ins += [("start_position", d.start_position), ("max_length", d.max_length), ("ready", d.stream.ready)]
        outs = [("valid", d.stream.valid), ("first", d.stream.first), ("last", d.stream.last),
                ("payload", d.stream.payload), ("done", d.done)]
        return d, ins, outs
    t = Target(name, build)
    posw = _width_of_range(n)
    t.params = dict(kind="ser", n=n, dw=dw, mlw=mlw, posw=posw)
    t.in_bits = 1 + n * dw + posw + mlw + 1
    t.cfg = f"{n}%nat {dw} {mlw} {posw}"
    return t


_NOML_NOTE = ("on this tree ConstantStreamGenerator without max_length_width does not elaborate (generator.py:225 "
              "`bytes_sent.eq(0)` on the int 0 -> AttributeError; see findings/C27-noml-elaboration.*); its targets are skipped")


def _elaborates(t):
    """The max_length-less generator variant crashes during elaboration on the unchanged tree; only check it when it builds."""
    if t.params["kind"] != "cg" or t.params["mlw"]:
        return True
    try:
        from amaranth.hdl import Fragment
        Fragment.get(t.build()[0], None)
        return True
    except AttributeError:
        if _NOML_NOTE not in ASSUMPTIONS:
            ASSUMPTIONS.append(_NOML_NOTE)
        return False


def targets(tier):
    small = [
        mk_cg("cg8_len3", b"\x11\x22\x33", mlw=3),
        mk_cg("cg16_len5", b"\x01\x02\x03\x04\x05", bpw=2, mlw=3),
        mk_cg("cg32_len11", b"HELLO WORLD", bpw=4, mlw=4),
        mk_cg("cg32_len6_be", b"\x01\x02\x03\x04\x05\x06", bpw=4, mlw=4, big=True),   # big-endian, partial final word
        mk_ser("ser_n2_dw2", 2, 2, 2),
        mk_ser("ser_n3_dw1", 3, 1, 2),
    ]
    if tier != "quick":
        small += [
            mk_cg("cg8_len1", b"\x7e", mlw=2),
            mk_cg("cg8_len2", b"\xa5\x5a", mlw=2),
            mk_cg("cg8_len4", b"\x81\x42\x24\x18", mlw=3),
            mk_cg("cg8_len5", b"\x01\x02\x03\x04\x05", mlw=4),
            mk_cg("cg16_len4", b"\x01\x02\x03\x04", bpw=2, mlw=3),
            mk_cg("cg32_len8", b"\x01\x02\x03\x04\x05\x06\x07\x08", bpw=4, mlw=4),
            mk_cg("cg32_len9_v1", b"\x01\x02\x03\x04\x05\x06\x07\x08\x09", bpw=4, vw=1, mlw=4),
            mk_cg("cg8_len3_noml", b"\x11\x22\x33", mlw=None),
            mk_cg("cg16_len5_noml", b"\x01\x02\x03\x04\x05", bpw=2, mlw=None),
            mk_ser("ser_n4_dw1", 4, 1, 3),
            mk_ser("ser_n2_dw3", 2, 3, 1),
        ]
    small = [t for t in small if _elaborates(t)]
    for t in small: t.big = False
    dev = bytes([18, 1, 0, 2, 0, 0, 0, 64, 0x50, 0x1d, 0x5c, 0x61, 0, 1, 1, 2, 3, 1])
    big = [
        mk_cg("cg8_devdesc_ml16", dev, mlw=16, flavour="usbdesc"),
        mk_cg("cg32_hello_ss", b"HELLO WORLD", bpw=4, mlw=16, flavour="ss"),
        mk_ser("ser_n2_usb", 2, 8, 2, flavour="usb"),
    ]
    if tier != "quick":
        big += [
            mk_cg("cg8_len64_ml16", bytes(range(64)), mlw=16),
            mk_cg("cg8_len70_ml16", bytes(range(100, 170)), mlw=16),
            mk_cg("cg8_len2_ml16", b"\x7e\x81", mlw=16),
            mk_cg("cg32_len64_ss", bytes(range(64)), bpw=4, mlw=16, flavour="ss"),
            mk_cg("cg32_len70_be", bytes(range(70)), bpw=4, mlw=16, big=True),
            mk_cg("cg16_len33", bytes(range(33)), bpw=2, mlw=8),
            mk_ser("ser_n8_dw8", 8, 8, 4),
            mk_ser("ser_n5_dw8", 5, 8, 8),
        ]
    for t in big: t.big = True
    return small + big


def traces(target, rng, tier):
    p = target.params
    ntr = 24 if tier == "quick" else 100
    out = []
    if p["kind"] == "cg":
        nw, spw, mlw, nbytes = p["nwords"], p["spw"], p["mlw"], len(p["data"])
    else:
        nw, spw, mlw, nbytes = p["n"], p["posw"], p["mlw"], p["n"]
    mlmask = (1 << (mlw or 1)) - 1
    for t in range(ntr):
        tr = []
        adversarial = (t % 4 == 3)
        p_ready = rng.choice([0.0, 0.2, 0.7, 1.0])
        target_len = rng.choice([5, 30, 80]) + (2 * nw if nw > 8 else 0)
        while len(tr) < target_len:
            sp = rng.randrange(1 << spw) if (adversarial or rng.random() < 0.1) else rng.randrange(nw)
            ml = rng.choice([0, 1, 2, 3, nbytes - 1, nbytes, nbytes + 1, mlmask, rng.randrange(1, 2 * nbytes + 2)]) & mlmask
            data = {f"datum{k}": rng.getrandbits(p["dw"]) for k in range(p["n"])} if p["kind"] == "ser" else {}
            for _ in range(rng.choice([0, 1, 3])):
                tr.append(dict(start=0, start_position=sp, max_length=ml, ready=int(rng.random() < p_ready), **data))
            n = rng.choice([1, 1, 2]) + min(nw, rng.choice([nw, 3, 6])) * rng.choice([1, 2, 4])
            for k in range(n):
                cyc = dict(start=int(k == 0 or rng.random() < 0.1), start_position=sp, max_length=ml,
                           ready=int(rng.random() < p_ready), **data)
                if adversarial and rng.random() < 0.3:
                    cyc["start_position"] = rng.randrange(1 << spw); cyc["max_length"] = rng.randrange(mlmask + 1)
                    for key in data: cyc[key] = rng.getrandbits(p["dw"])
                tr.append(cyc)
        if not mlw:
            for c in tr: del c["max_length"]
        out.append(tr)
    return out


def obligations(targets, tier):
    obs = []
    for t in targets:
        c = t.cfg
        if t.params["kind"] == "cg":
            if t.big:
                obs.append(tie.corr(f"corr_{t.name}", t, mstep=f"cg_step {c}", m0=f"cg_init {c}",
                                    describe=f"{t.name}: generator model vs simulator ({len(t.params['data'])} bytes, "
                                             f"{8 * t.params['bpw']}-bit words, max_length_width={t.params['mlw']})"))
                continue
            obs.append(tie.rlock(
                f"ob_{t.name}", t,
                St="cg_state", mstep=f"cg_step {c}", enc=f"cg_enc {c}", dec=f"cg_dec {c}", wf=f"cg_wf {c}",
                dec_enc=f"cg_dec_enc {c}", wf_step=f"cg_wf_step {c} eq_refl", m0=f"cg_init {c}", wf_m0="apply cg_wf_init.",
                alpha_bits=t.in_bits, fuel=100000,
                describe=f"{t.name}: netlist == generator model on all input histories ({t.in_bits}-bit input words)"))
        else:
            posw = t.params["posw"]
            if t.big:
                obs.append(tie.corr(f"corr_{t.name}", t, mstep=f"ser_step {c}", m0="ser_init",
                                    describe=f"{t.name}: serializer model vs simulator (n={t.params['n']}, {t.params['dw']}-bit data)"))
                continue
            obs.append(tie.rlock(
                f"ob_{t.name}", t,
                St="ser_state", mstep=f"ser_step {c}", enc=f"ser_enc {posw}", dec=f"ser_dec {posw}", wf=f"ser_wf {posw}",
                dec_enc=f"ser_dec_enc {posw}", wf_step=f"ser_wf_step {c} eq_refl", m0="ser_init", wf_m0=f"apply ser_wf_init.",
                alpha_bits=t.in_bits, fuel=100000,
                describe=f"{t.name}: netlist == serializer model on all input histories ({t.in_bits}-bit input words)"))
    return obs


def _has_theorem(t):
    return (not t.big) and (t.params["kind"] == "ser" or t.params["mlw"])


def tie_theorems(targets, tier):
    s = ""
    for t in targets:
        if not _has_theorem(t): continue
        c = t.cfg
        if t.params["kind"] == "cg":
            s += f"""
Theorem C27_{t.name} : forall tr, Forall (fun i => i < 2 ^ N.of_nat {t.in_bits}) tr ->
  env_ok sp_state (sp_step {c}) (sp_env {c}) sp_init tr = true ->
  run {t.modname}.step {t.modname}.init tr = run (sp_step {c}) sp_init tr.
Proof.
  intros tr H HE. rewrite (ob_{t.name}_T.tie tr H (env_ok_true _ _ _ _)).
  apply cg_from_reset; [vm_compute; reflexivity | reflexivity | exact HE].
Qed.
"""
        else:
            s += f"""
Theorem C27_{t.name} : forall tr, Forall (fun i => i < 2 ^ N.of_nat {t.in_bits}) tr ->
  env_ok ss_state (ss_step {c}) (ss_env {c}) SsIdle tr = true ->
  run {t.modname}.step {t.modname}.init tr = run (ss_step {c}) SsIdle tr.
Proof.
  intros tr H HE. rewrite (ob_{t.name}_T.tie tr H (env_ok_true _ _ _ _)).
  apply ser_from_reset; [vm_compute; reflexivity | exact HE].
Qed.
"""
    return s


def tie_theorem_names(targets, tier):
    return [f"C27_{t.name}" for t in targets if _has_theorem(t)]


LEVEL_TEXT = ("Machine-checked proof. (1) For every well-formed generator configuration with a max_length port (any constant, "
              "byte- or word-wide payload, any widths), every sequence of requests (all start positions within the data, all "
              "length limits incl. 0) and every stream.ready pattern, over traces of any length, the code-shaped model of "
              "ConstantStreamGenerator equals, cycle by cycle on all ports (valid mask, first, last, payload, done, output_length), "
              "the specification machine 'idle / present the answer word by word, each held until ready / pulse done' "
              "(C27_generator_refines); the answer is proved to be the data from the start position onward, min(limit, bytes available) "
              "bytes in total, all words full except the final one, last exactly on the final and first exactly on the first word "
              "(C27_answer_is_requested_slice; for byte-wide generators literally data[sp .. sp+min(ml, len-sp)), C27_bytewide_answer_is_slice); "
              "a zero limit emits nothing (C27_zero_limit_ignored). The same for StreamSerializer with "
              "its runtime array (C27_serializer_refines). (2) For each R-tie configuration the netlist regenerated from /repo is "
              "proved equal to the model on all input histories (no environment restriction), giving C27_<cfg>: netlist = specification "
              "machine under the stated environment.")
LEVEL_NOTE = ("Trusted: Coq kernel + vm_compute, Amaranth elaboration, nir2coq.py/Netlist.v (validated each run against pysim). "
              "Environment hypotheses: start position within the data and held during the request (serializer: whole request held). "
              "Netlist ties are per configuration (small constants / small max_length widths); realistic sizes (descriptors with 16-bit "
              "max_length, 32-bit SuperSpeed streams) by simulator correspondence only. The generator variant without max_length does not elaborate on "
              "the unchanged tree (Python AttributeError, findings/C27-noml-elaboration.*; LUNA never instantiates it); with the candidate "
              "patch it is tied to the model by the netlist tie only (thorough tier), without a parametric theorem. The bytes->words packing of the Python constructor "
              "is modelled by cfg_of_bytes and checked per configuration by the ties, proved to be the identity only for byte-wide data; the valid mask of a beat "
              "with k bytes is the low k bits (byte-level little-endian unpacking of payloads is not restated as a theorem).")
TECHNIQUE = ("Rocq proof: simulation relation between a code-shaped FSM model and a list-popping specification machine + closed-form "
             "theorems about the specified answer; certified product-reachability (lock-step) against the regenerated netlist; "
             "simulator correspondence at realistic sizes")
