"""C24 -- ULPI control registers converge to the requested UTMI settings; register writes and transmissions do not
block each other (luna/gateware/interface/ulpi.py: ULPIControlTranslator, ULPIRegisterWindow, bus_idle gating in
UTMITranslator)."""
from harness.core import Target
from harness import tie, tie_explicit
from props.C23_ulpi_env import build_translator, base_outs, World, closed_loop, IN_NAMES, CTRL_DEFAULT, CTRL

PID = "C24"
ASSUMPTIONS = [
    "model-level theorems (C24_writes_correct, C24_only_ctrl_regs, C24_converged, C24_write_latency): every history of bus_idle, DIR, NXT "
    "and control inputs; nothing is assumed about the PHY's timing (NXT delays, aborts by DIR at any point). The PHY is the ULPI "
    "register-write protocol read off the pins (Model/UlpiCtl.v phy_step): command byte taken in a cycle with NXT while DIR is low "
    "and was low in the previous cycle, data byte in the next NXT cycle, commit at STP; PHY registers 0x04/0x0A start at the ULPI reset "
    "values 0x41/0x06 (the reset_value the code assumes)",
    "pin-level monitors on UTMITranslator: PHY contract k_contract -- outside a transaction NXT (DIR low) answers a command that was on the "
    "bus in the previous cycle; DIR is not raised between the acknowledgement of a transmit command and its STP",
    "arbitration safety (arb_mon): UTMI does not abandon a transmission whose command could be offered (out_req & ~busy -> tx_valid)",
    "progress (prog_mon): bounded response is proved for a PROMPT PHY (DIR low, every command answered one cycle after it appeared, "
    "data taken in consecutive cycles) and UTMI packets of at most 2 bytes separated by at least 2 cycles; K1 = first byte of a pending "
    "transmission accepted within 14 cycles, K2 = quiescent and converged after 20 cycles without control change / transmit request",
    "the model is the property-satisfying behaviour; the unchanged /repo violates the property (findings/C24-*.json): live address / "
    "write_data in the register window, shadow update of the wrong register, deadlock and phantom writes when a register write and a "
    "transmission start together. With findings/C24-ulpi-control.diff applied the check passes",
    "R obligations use explicit input alphabets (see obligation_list); full-range control values / 8-bit data: correspondence and "
    "runtime oracle only",
]
TIE_IMPORTS = "From LunaModel Require Import UlpiCtl UlpiCtl_proofs.\n"

CW_INS = ["bus_idle", "dir", "nxt", "xcvr_select", "term_select", "op_mode", "suspend", "id_pullup", "dp_pulldown",
          "dm_pulldown", "chrg_vbus", "dischrg_vbus", "use_external_vbus_indicator"]
CW_W = dict(xcvr_select=2, op_mode=2)
K1, K2 = 14, 20


def mk_ctlwin():
    def build():
        from luna.gateware.interface.ulpi import ULPIControlTranslator, ULPIRegisterWindow
        rw = ULPIRegisterWindow()
        d = ULPIControlTranslator(register_window=rw, own_register_window=True)
        ins = [("bus_idle", d.bus_idle), ("dir", rw.ulpi_dir), ("nxt", rw.ulpi_next)] + \
              [(n, getattr(d, n)) for n in CW_INS[3:]]
        outs = [("data_out", rw.ulpi_data_out), ("out_req", rw.ulpi_out_req), ("stop", rw.ulpi_stop), ("rw_busy", rw.busy),
                ("done", rw.done), ("busy", d.busy)]
        return d, ins, outs
    t = Target("ctlwin", build); t.kind = "cw"
    return t


def ut_build():
    m, ins, p = build_translator()
    tt, rw, ct, t = p["tt"], p["rw"], p["ct"], p["t"]
    outs = base_outs(p) + [("rw_busy", rw.busy), ("tt_busy", tt.busy), ("out_req", tt.ulpi_out_req), ("ct_busy", ct.busy),
                           ("busy", t.busy)]
    return m, ins, outs


def mk_ut():
    t = Target("utmi_ctl", ut_build); t.kind = "ut"
    return t


def targets(tier):
    return [mk_ctlwin(), mk_ut()]


# ---- traces -----------------------------------------------------------------------------------------
def cw_defaults():
    c = dict(CTRL_DEFAULT); c["use_external_vbus_indicator"] = 1
    return c


def cw_traces(rng, n):
    out = []
    for k in range(n):
        c = cw_defaults()
        if k % 3 == 0: c["use_external_vbus_indicator"] = 0
        pn = rng.choice([0.3, 0.6, 1.0]); pd = rng.choice([0.0, 0.05, 0.2]); pi = rng.choice([1.0, 0.8, 0.4])
        pc = rng.choice([0.0, 0.03, 0.15, 0.5]); d = 0
        tr = []
        for _ in range(rng.randint(10, 200)):
            if rng.random() < pc:
                f = rng.choice([x for x in CW_INS[3:]])
                c[f] = rng.randrange(4 if f in CW_W else 2)
            if rng.random() < (0.3 if d else pd): d ^= 1
            cyc = dict(bus_idle=int(rng.random() < pi), dir=d, nxt=int(rng.random() < pn))
            cyc.update({k2: c[k2] for k2 in CW_INS[3:]})
            tr.append(cyc)
        out.append(tr)
    return out


def ut_traces(target, rng, n):
    worlds, lens = [], []
    for k in range(n):
        w = World(rng, p_rx=rng.choice([0.0, 0.02, 0.08]), p_tx=rng.choice([0.0, 0.05, 0.2]),
                  p_ctrl=rng.choice([0.01, 0.05, 0.2]), abort_cmd=rng.choice([0.0, 0.1, 0.3]), rx_kind="mixed",
                  tx_len=(1, 2, 3, 5))
        L = rng.randint(80, 300)
        w.freeze_at = L - 60
        worlds.append(w); lens.append(L)
    return closed_loop(target.build, worlds, lens)


def traces(target, rng, tier):
    if target.kind == "cw":
        return cw_traces(rng, 30 if tier == "quick" else 120)
    return ut_traces(target, rng, 20 if tier == "quick" else 80)


# ---- obligations ------------------------------------------------------------------------------------
def pack(names, widths, vals):
    v = 0; sh = 0
    for nme in names:
        w = widths.get(nme, 1)
        v |= (vals[nme] & ((1 << w) - 1)) << sh; sh += w
    return v


def cw_alphabet(tier):
    words = set()
    extra = [dict()] if tier == "quick" else [dict(), dict(op_mode=2)]
    for idle in (0, 1):
        for d in (0, 1):
            for nx in (0, 1):
                for term in (0, 1):
                    for dp in (0, 1):
                        for ex in extra:
                            c = cw_defaults(); c.update(bus_idle=idle, dir=d, nxt=nx, term_select=term, dp_pulldown=dp); c.update(ex)
                            words.add(pack(CW_INS, CW_W, c))
    return "[" + "; ".join(str(x) for x in sorted(words)) + "]"


UT_W = dict(data_i=8, tx_data=8, op_mode=2, xcvr_select=2)


def ut_alphabet(dirs, datas, dps=(0, 1)):
    words = set()
    for nx in (0, 1):
        for d in dirs:
            for txv in (0, 1):
                for b in datas:
                    for term in (0, 1):
                        for dp in dps:
                            c = dict(CTRL_DEFAULT); c.update(data_i=0, nxt=nx, dir=d, tx_data=b, tx_valid=txv, term_select=term, dp_pulldown=dp)
                            words.add(pack(IN_NAMES, UT_W, c))
    return "[" + "; ".join(str(x) for x in sorted(words)) + "]"


def obligations(targets, tier):
    obs = []
    for t in targets:
        if t.kind == "cw":
            obs.append(tie_explicit.rlock_alpha(
                "ob_ctlwin", t, St="cw_state", mstep="cw_step", enc="cw_enc", dec="cw_dec", wf="cw_wf",
                dec_enc="cw_dec_enc", wf_step="cw_wf_step", m0="cw_init", wf_m0="exact cw_wf_init.",
                alphabet=cw_alphabet(tier), fuel=4000,
                describe="ULPIControlTranslator(own register window) == model, all traces over bus_idle, dir, nxt, term_select (Function "
                         "Control) and dp_pulldown (OTG Control) in {0,1}" + ("" if tier == "quick" else ", op_mode in {0,2}")))
            if tier != "quick":
                obs.append(tie.rmon(
                    "rm_ctlwin_conv", t, mon="cw_conv_mon", m0="conv_init", alpha_bits=0, alphabet=cw_alphabet("quick"), fuel=4000,
                    describe="stand-alone control translator + window at its pins: every committed PHY write carries the value requested for "
                             "its register when the write started, no other register is written, and whenever no write is in progress or "
                             "starting although the bus is available the PHY registers equal the requested settings"))
            obs.append(tie.corr("corr_ctlwin", t, mstep="cw_step", m0="cw_init",
                                describe="model vs simulator on random traces over ALL control inputs (every bit of both registers)"))
            obs.append(tie.cmon("cm_ctlwin_conv", t, mon="cw_conv_mon", m0="conv_init",
                                describe="write-correctness / convergence monitor on the same random traces"))
        else:
            obs.append(tie.rmon(
                "rm_ut_conv", t, mon="conv_mon", m0="conv_init", alpha_bits=0,
                alphabet=(ut_alphabet((0, 1), (0xC3,), dps=(1,)) if tier == "quick" else ut_alphabet((0, 1), (0xC3,))), fuel=6000,
                describe="UTMITranslator pins: write-correctness + convergence monitor (PHY register file observed at the pins; also run as "
                         "runtime oracle over closed-loop PHY traces with random control changes on all fields, transmissions, receive bursts) on every trace "
                         "over nxt, dir, tx_valid, term_select" + ("" if tier == "quick" else ", dp_pulldown") + " in {0,1}" +
                         ", PHY contract k_contract"))
            obs.append(tie.rmon(
                "rm_ut_arb", t, mon="arb_mon", m0="0", alpha_bits=0, alphabet=ut_alphabet((0, 1), (0xC3,)), fuel=6000,
                describe="UTMITranslator: the register window is never active while the transmitter claims the bus or is inside a packet"))
            obs.append(tie.rmon(
                "rm_ut_progress", t, mon=f"prog_mon {K1} {K2}", m0="prog_init", alpha_bits=0,
                alphabet=ut_alphabet((0,), (0xC3,), dps=((1,) if tier == "quick" else (0, 1))),
                fuel=6000,
                describe=f"UTMITranslator with a prompt PHY: a pending transmission has its first byte accepted within {K1} cycles; after {K2} "
                         f"cycles without control change / transmit request the translator is quiescent and the PHY registers equal the request "
                         f"(no deadlock between register writes and transmissions)"))
    return obs


def tie_theorems(targets, tier):
    g = [t for t in targets if t.kind == "cw"][0].modname
    return f"""
Theorem C24_ctlwin_is_model : forall tr, Forall (fun i => In i ob_ctlwin.alpha) tr ->
  run {g}.step {g}.init tr = run cw_step cw_init tr.
Proof. intros tr H. apply (ob_ctlwin_T.tie tr H (env_ok_true _ _ _ _)). Qed.
"""


def tie_theorem_names(targets, tier):
    return ["C24_ctlwin_is_model"]


LEVEL_TEXT = ("Machine-checked proof. (1) Model of ULPIControlTranslator + ULPIRegisterWindow composed with a pin-level ULPI PHY (register file): "
              "for EVERY history of bus_idle/DIR/NXT/control inputs, every write the PHY commits is the most recently accepted request -- "
              "address 0x04 or 0x0A with the value requested for that register when the request was accepted (C24_writes_correct, "
              "C24_request_value), no other register is written (C24_only_ctrl_regs), and whenever the translator is quiescent the PHY's "
              "Function Control and OTG Control registers equal the requested settings (C24_converged); a mismatch starts a write at once "
              "when the bus is available (C24_starts_write) and an undisturbed write completes in 5 cycles (C24_write_latency). "
              "(2) The stand-alone netlist regenerated from /repo equals the model on all traces over an explicit alphabet, and satisfies the "
              "pin-level write-correctness/convergence monitor (certified reachability). (3) At the pins of UTMITranslator the same monitor, "
              "mutual exclusion of register window and transmitter, and bounded progress under a prompt PHY (no deadlock: first transmit "
              "byte within 14 cycles, convergence within 20 quiet cycles) are proved by certified reachability over explicit alphabets. "
              "The model is the property-satisfying behaviour: on the UNCHANGED /repo obligations (2) and (3) fail with the replays in "
              "findings/C24-*.json; with findings/C24-ulpi-control.diff applied every obligation is discharged.")
LEVEL_NOTE = ("Trusted: Coq kernel + vm_compute, Amaranth elaboration, nir2coq.py/Netlist.v (validated each run against pysim). Liveness is "
              "proved as bounded response for one (prompt) PHY timing and short packets only; for arbitrary PHY delays the model theorems give "
              "safety and convergence-at-quiescence, not a time bound. R obligations are per explicit alphabet (one control bit per register); "
              "all control bits are covered by correspondence and the runtime oracle. Extra registers (add_extra_register) are not modelled.")
TECHNIQUE = ("Rocq proof: joint invariant of the register-window FSM, the control translator's shadow registers and a pin-level PHY "
             "(protocol phase + register file) with a ghost 'accepted request', induction over the history; certified product reachability "
             "of the regenerated netlists (lock-step + pin-level monitors incl. a bounded-response monitor with a deterministic PHY)")
