"""C01 -- USB2 token detection (luna/gateware/usb/usb2/packet.py: USBTokenDetector)."""
from harness.core import Target
from harness.slice import SlicedTarget
from harness import tie, tie_explicit

PID = "C01"
ASSUMPTIONS = [
    "no assumption on rx_active / rx_valid / rx_data / address: a packet is a maximal rx_active run; its bytes are rx_data in the run's "
    "rx_valid cycles except the run's first cycle (UTMI+ never asserts RxValid in the cycle RxActive rises; LUNA's test helper does, with "
    "stale data, and the module ignores that cycle); aborted / truncated packets are runs with fewer bytes",
    "the device address is an input that may change at any time; a token is matched against the address presented in the cycle in which "
    "rx_active falls; events are registered: they are seen in the following cycle",
    "a well-formed IN/OUT/SETUP/PING for another address produces no event but clears the reported pid to 0 (source: 'clear the state so we "
    "don't act on following packets'); with filter_by_address=False every well-formed token is reported with its address",
    "ready_for_response (the detector's private inter-packet timer) is C05's subject and not observed here; the sliced targets drop the "
    "timer, which cannot influence the observed outputs (harness/slice.py, fail-closed, validated against the simulator of the full module)",
    "the module has no size parameters; R ties are against the real netlist (cone of influence of the observed outputs), over all traces "
    "of any length whose input words use rx_data / address values from a finite set; all 2^16 two-byte token bodies are covered from "
    "reset by an exhaustive sweep; full-range inputs otherwise by simulator correspondence and the specification monitor",
]
TIE_IMPORTS = "From LunaModel Require Import Crc Handshake TokenDet TokenDet_proofs.\n"

OUT, IN, SOF, SETUP, PING = 0xE1, 0x69, 0xA5, 0x2D, 0xB4
TOKENS = [OUT, IN, SOF, SETUP, PING]


def crc5(v):
    """USB CRC5 of an 11-bit value (independent Python reference, used only to generate stimuli)."""
    reg = 0x1F
    for k in range(11):
        bit = (v >> k) & 1
        top = (reg >> 4) & 1
        reg = (reg << 1) & 0x1F
        if bit ^ top:
            reg ^= 0x05
    reg ^= 0x1F
    return int(f"{reg:05b}"[::-1], 2)


def token_bytes(pid, v):
    c = crc5(v)
    return [pid, v & 0xFF, (v >> 8) | (c << 3)]


def _ports(d, u, groups):
    i = d.interface
    outs = []
    if "tok" in groups:
        outs += [("new_token", i.new_token), ("pid", i.pid), ("address_o", i.address), ("endpoint", i.endpoint)]
    if "sof" in groups:
        outs += [("new_frame", i.new_frame), ("frame", i.frame)]
    return [("rx_active", u.rx_active), ("rx_valid", u.rx_valid), ("rx_data", u.rx_data), ("address", d.address)], outs


def mk(name, filt, groups):
    def build():
        from luna.gateware.usb.usb2.packet import USBTokenDetector
        from luna.gateware.interface.utmi import UTMIInterface
        u = UTMIInterface()
        d = USBTokenDetector(utmi=u, filter_by_address=filt)
        ins, outs = _ports(d, u, groups)
        return d, ins, outs
    t = SlicedTarget(name, build)
    t.filt = filt; t.groups = groups
    return t


# R alphabets: all (rx_active, rx_valid) x bytes x addresses.  The byte sets contain the five token PID bytes, a data PID and
# bytes chosen so that several byte pairs carry a valid CRC5: (2d,a5) -> address 0x2d ep 10, (c3,c3) -> address 0x43 ep 7,
# (3a,3d) -> address 0x3a ep 10, (3d,e1) -> address 0x3d ep 2; every byte also occurs as PID, payload and CRC byte.
def alphabets(tier, filt=True):
    if tier == "quick" or not filt:
        return [OUT, IN, SOF, SETUP, PING, 0xC3], [0x2D, 0x00]
    return [OUT, IN, SOF, SETUP, PING, 0xC3, 0x3A, 0x3D], [0x3A, 0x43]


def alpha_expr(tier, filt=True):
    B, A = alphabets(tier, filt)
    return ("(flat_map (fun a => flat_map (fun b => map (fun c => c + 4 * b + 1024 * a) [0; 1; 2; 3]) "
            + "[" + "; ".join(map(str, B)) + "]) [" + "; ".join(map(str, A)) + "])")


# exhaustive single-packet sweeps from reset: (name, filter, Coq sweep function, index bits, what)
def sweeps(tier):
    if tier == "quick":
        return [("setup_payloads", f"sweep_payloads {SETUP} 0", 14, "SETUP to the device's address: all 2^11 payloads x 8 CRC error masks"),
                ("sof_payloads", f"sweep_payloads {SOF} 1", 14, "SOF: all 2^11 frame numbers x 8 CRC error masks")]
    sw = [(f"pairs_{n}", f"sweep_pairs {p} 0", 16, f"{n} to the device's address: all 2^16 byte pairs after the PID")
          for n, p in (("out", OUT), ("in", IN), ("setup", SETUP), ("ping", PING), ("sof", SOF))]
    sw += [("pairs_out_foreign", f"sweep_pairs {OUT} 1", 16, "OUT to address+1: all 2^16 byte pairs")]
    return sw


def targets(tier):
    return [mk("tokdet", True, ("tok", "sof")), mk("tokdet_nofilter", False, ("tok", "sof"))]


# ---- stimuli -------------------------------------------------------------------------------------
def rx_packet(rng, data, first_valid=False, gaps=0.0, addr=lambda: 0):
    cyc = [dict(rx_active=1, rx_valid=int(first_valid), rx_data=rng.randrange(256), address=addr())]
    for b in data:
        while rng.random() < gaps:
            cyc.append(dict(rx_active=1, rx_valid=0, rx_data=rng.randrange(256), address=addr()))
        cyc.append(dict(rx_active=1, rx_valid=1, rx_data=b, address=addr()))
    while rng.random() < gaps:
        cyc.append(dict(rx_active=1, rx_valid=0, rx_data=rng.randrange(256), address=addr()))
    return cyc


def gen_trace(rng, mode):
    dev = rng.choice([0, 0, 1, 0x3A, 0x7F, rng.randrange(128)])
    state = {"a": dev}
    def addr():
        if mode == 2 and rng.random() < 0.05:
            state["a"] = rng.randrange(128)
        return state["a"]
    tr = []
    for _ in range(rng.randint(1, 9)):
        for _ in range(rng.choice([0, 1, 1, 1, 2, 5])):
            tr.append(dict(rx_active=0, rx_valid=int(rng.random() < 0.1), rx_data=rng.randrange(256), address=addr()))
        r = rng.random()
        pid = rng.choice(TOKENS)
        a = state["a"] if rng.random() < 0.7 else rng.choice([state["a"] ^ (1 << rng.randrange(7)), rng.randrange(128)])
        v = a | (rng.randrange(16) << 7)
        if pid == SOF:
            v = rng.choice([0, 1, 2047, rng.randrange(2048)])
        good = token_bytes(pid, v)
        if r < 0.55:
            data = good
        elif r < 0.65:      # one bit flipped somewhere (check nibble, payload or CRC)
            k = rng.randrange(24); data = list(good); data[k // 8] ^= 1 << (k % 8)
        elif r < 0.72:      # truncated
            data = good[:rng.randrange(3)]
        elif r < 0.80:      # over-long
            data = good + [rng.randrange(256) for _ in range(rng.randint(1, 3))]
        elif r < 0.88:      # non-token packets: data / handshake
            data = [rng.choice([0xC3, 0x4B, 0xD2, 0x5A, 0x1E])] + [rng.randrange(256) for _ in range(rng.choice([0, 0, 2, 3, 10]))]
        elif r < 0.94:      # wrong token-like PIDs (bad check nibble, SPLIT/PRE/ERR)
            data = [rng.choice([0xE0, 0x61, 0xA4, 0x78, 0x3C, 0x25, 0xF1, rng.randrange(256)])] + good[1:]
        else:
            data = [rng.randrange(256) for _ in range(rng.randint(0, 5))]
        tr += rx_packet(rng, data, first_valid=(mode == 1 and rng.random() < 0.5), gaps=(0.3 if mode >= 2 else 0.0), addr=addr)
    tr += [dict(rx_active=0, rx_valid=0, rx_data=0, address=addr()) for _ in range(2)]
    if mode == 3:   # adversarial: random cycles with token-ish bytes
        good = token_bytes(rng.choice(TOKENS), dev | (rng.randrange(16) << 7))
        tr = [dict(rx_active=int(rng.random() < 0.8), rx_valid=int(rng.random() < 0.8),
                   rx_data=rng.choice(good + good + [rng.randrange(256)]), address=dev) for _ in range(rng.randint(5, 80))]
    return tr


def traces(target, rng, tier):
    n = 40 if tier == "quick" else 400
    return [gen_trace(rng, k % 4) for k in range(n)]


def obligations(targets, tier):
    obs = []
    for t in targets:
        filt = "true" if t.filt else "false"
        if t.filt or tier != "quick":
            B, A = alphabets(tier, t.filt)
            obs.append(tie_explicit.rlock_alpha(
                f"ob_{t.name}", t, St="td_state", mstep=f"td_step {filt}", enc="td_enc", dec="td_dec", wf="td_wf",
                dec_enc="td_dec_enc", wf_step=f"(td_wf_step {filt})", m0="td_init", wf_m0="exact td_wf_init.",
                alphabet=alpha_expr(tier, t.filt), fuel=100000,
                describe=(f"USBTokenDetector(filter_by_address={t.filt}) == FSM model, all traces of any length over rx_active/rx_valid x "
                          f"rx_data in {[hex(b) for b in B]} x address in {[hex(a) for a in A]}")))
        obs.append(tie.corr(f"corr_{t.name}", t, mstep=f"td_step {filt}", m0="td_init",
                            describe=f"USBTokenDetector(filter_by_address={t.filt}) vs FSM model on simulator traces (full-range bytes and addresses)"))
        obs.append(tie.cmon(f"spec_{t.name}", t,
                            mon=f"(rl_mon tsp_state (tsp_step {filt}) tsp_enc tsp_dec (fun _ _ => true))", m0="(tsp_enc tsp_init)",
                            describe=f"packet-level specification tsp_step evaluated over simulator traces of USBTokenDetector(filter_by_address={t.filt})"))
    return obs


def tie_theorems(targets, tier):
    s = ""
    for t in targets:
        filt = "true" if t.filt else "false"
        G = t.modname
        if t.filt or tier != "quick":
            s += f"""
Theorem C01_{t.name} : forall tr, Forall (fun i => In i ob_{t.name}.alpha) tr ->
  run {G}.step {G}.init tr = run (tsp_step {filt}) tsp_init tr.
Proof.
  intros tr H. rewrite (ob_{t.name}_T.tie tr H (env_ok_true _ _ _ _)). apply td_from_reset.
Qed.
"""
        if not t.filt:
            continue
        for name, fn, w, what in sweeps(tier):
            s += f"""
Lemma C01_sweep_{name}_ok : sweep_eq {G}.step {G}.init {filt} {w} ({fn}) = true.
Proof. vm_cast_no_check (@eq_refl bool true). Qed.
Theorem C01_sweep_{name} : forall x, x < 2 ^ N.of_nat {w} ->
  run {G}.step {G}.init ({fn} x) = run (tsp_step {filt}) tsp_init ({fn} x).
Proof. exact (sweep_sound _ _ _ _ _ C01_sweep_{name}_ok). Qed.
"""
    return s


def tie_theorem_names(targets, tier):
    names = []
    for t in targets:
        if t.filt or tier != "quick":
            names.append(f"C01_{t.name}")
        if t.filt:
            names += [f"C01_sweep_{n}" for n, _, _, _ in sweeps(tier)]
    return names


LEVEL_TEXT = ("Machine-checked proof. (1) For both filter modes and every UTMI receive / address history (no assumption), the FSM model of "
              "USBTokenDetector produces exactly the outputs of the packet-level specification tsp_step: the bytes of each maximal rx_active "
              "run are accumulated (unbounded list) and, when rx_active falls, classified declaratively -- token event iff exactly 3 bytes, PID "
              "byte of OUT/IN/SETUP/PING with complemented check nibble, bit-serial USB CRC5 of the 11 payload bits equal to the 5 CRC bits, and "
              "address equal to the device address of that cycle; SOF likewise regardless of address; everything else (truncated, over-long, "
              "corrupted, other PIDs) has no effect; a well-formed foreign token only clears pid (C01_token_detector_refines, simulation "
              "relation; C01_new_token_iff / C01_token_fields / C01_new_frame_iff / C01_frame_next / C01_*_wellformed give the cycle-exact "
              "iff-statements). (2) The netlist regenerated from /repo (timer sliced away) is proved equal to the specification on all traces of "
              "any length over a finite input alphabet (certified product reachability, C01_tokdet) and on exhaustive single-packet sweeps from "
              "reset (quick: all 2^11 payloads x 8 CRC error masks for SETUP and SOF; thorough: all 2^16 byte pairs after each of the five "
              "token PIDs to the device's own address, and after OUT to a foreign address: C01_sweep_*).")
LEVEL_NOTE = ("Trusted: Coq kernel + vm_compute, Amaranth elaboration, nir2coq.py/Netlist.v and harness/slice.py (validated each run against "
              "pysim of the unsliced module). The module has no size parameter and 2^17 input words per cycle, so the unbounded netlist tie is over "
              "a restricted byte/address alphabet; arbitrary bytes in arbitrary multi-packet histories are covered by the parametric model theorem "
              "plus simulator correspondence (model and specification monitor), not by a netlist theorem. ready_for_response (timer) is C05's. "
              "That LUNA's CRC5 XOR equations equal crc5_usb for all 2^11 inputs is C30_crc5_usb2; here the comparator is additionally swept through the netlist.")
TECHNIQUE = ("Rocq proof: simulation relation (6-state FSM vs byte-accumulating packet specification with a doomed-prefix predicate) + "
             "certified product reachability over an explicit alphabet and exhaustive vm_compute sweeps of the regenerated netlist; simulator correspondence")
