"""C12 -- endpoints only act on tokens for their own endpoint number: non-interference
(luna/gateware/usb/usb2/endpoint.py USBEndpointMultiplexer, endpoints/status.py, endpoints/stream.py, transfer.py)."""
import os, itertools
from harness.core import Target
from harness.slice import SlicedTarget
from harness import tie, tie_alpha

PID = "C12"
ASSUMPTIONS = [
    "statement: for an endpoint e, the PROJECTION of a mixed history replaces every cycle that belongs to another endpoint's transaction by "
    "a quiet cycle (no request / new_token / handshake strobe; e's local inputs -- its data source and the transmitter's ready -- unchanged); "
    "non-interference = e's outputs on the mixed history equal, in every cycle, its outputs on the projection",
    "legal host / token detector guarantees on the mixed history (Model/C12_EpIsolation.v c_legal, al_env): L1 tokenizer.endpoint changes only "
    "in a cycle with new_token (USBTokenDetector registers pid/endpoint/new_token at one edge); L2 new_token and handshakes_in.ack never "
    "coincide; L3 no token arrives while the endpoint is transmitting (half-duplex bus); L4 ready_for_response never coincides with "
    "new_token (it follows an inter-packet delay). Without L1 the statement is false (Properties/C12.v C12_example_illegal_differs): "
    "handshakes_in.ack is broadcast unconditionally and an endpoint waiting for its ACK would take a foreign one",
    "proved completely (all parameters, unbounded) only for the status IN endpoint (USBSignalInEndpoint); for the stream IN endpoint "
    "(USBInTransferManager) a kernel-checked self-composition of the netlist at max_packet_size 1 (thorough tier; additionally assumes "
    "ready_for_response >= 2 cycles after new_token, and flush / discard / clear-halt tied to 0); otherwise stream IN / stream OUT are CHECKED, "
    "not proved: differential runs of the complete device (mixed host script vs. its projection on each endpoint) on Amaranth's simulator",
    "tie configurations: the real USBEndpointMultiplexer with two real USBSignalInEndpoints (numbers 1 and 2), inputs on the multiplexer's "
    "SHARED side (what the device's token detector / handshake detector / transmitter drive), outputs = one endpoint's interface; sliced to "
    "the cone of those outputs (the other endpoint is then outside the cone: structurally it cannot influence them; what remains is the "
    "influence of the shared inputs, which is what the theorem is about)",
    "endpoint numbers: every configuration uses numbers from the top half of the 4-bit range next to n - 8 / n + 8 (multiplexer targets: status "
    "endpoints 9|1, 2|10, 15|7; stream IN 9 next to status 1; tokens for n, its neighbour and n ^ 8 in every alphabet), so that a comparison "
    "that ignores a bit of tokenizer.endpoint is visible",
    "complete-device runs: USBDevice on a UTMI bus with standard control endpoint, USBStreamInEndpoint(9, mps 8), USBStreamOutEndpoint(15, mps 8), "
    "USBSignalInEndpoint(11, 16 bit); the host also addresses endpoints 1, 7, 3 (= n - 8, no function there); host scripts mix IN/OUT/PING transactions (with lost ACKs, NAKed polls, wrong data toggles, bad CRCs) on all "
    "endpoints with GET_STATUS / GET_DESCRIPTOR control transfers; SET_ADDRESS / SET_CONFIGURATION / CLEAR_FEATURE are not mixed in (they "
    "legitimately act on other endpoints; see C08, C14)",
]
TIE_IMPORTS = "From LunaModel Require Import SignalIn SignalIn_proofs C12_EpIsolation C12_EpIsolation_proofs.\n"


# ------------------------------------------------------------------------------------------------------
# targets: multiplexer + two status endpoints, observed at endpoint `ep`
# ------------------------------------------------------------------------------------------------------
def mk_mux(W, big, ep, other, first):
    """ep: the observed endpoint's number; other: the second endpoint's number (configurations pair n with n +- 8 so that a comparison that
    drops bit 3 of the 4-bit endpoint number is visible); first: is the observed endpoint added to the multiplexer first"""

    def build():
        from amaranth import Elaboratable, Module
        from luna.gateware.usb.usb2.endpoint import USBEndpointMultiplexer
        from luna.gateware.usb.usb2.endpoints.status import USBSignalInEndpoint

        class Top(Elaboratable):
            def __init__(self):
                self.mux = USBEndpointMultiplexer()
                self.a = USBSignalInEndpoint(width=W, endpoint_number=ep, endianness="big" if big else "little")
                self.b = USBSignalInEndpoint(width=8, endpoint_number=other, endianness="little")
                for e in ([self.a, self.b] if first else [self.b, self.a]):
                    self.mux.add_interface(e.interface)
            def elaborate(self, platform):
                m = Module()
                m.submodules.mux = self.mux; m.submodules.a = self.a; m.submodules.b = self.b
                return m
        top = Top()
        sh = top.mux.shared; i = top.a.interface
        ins = [("signal", top.a.signal), ("endpoint", sh.tokenizer.endpoint), ("is_in", sh.tokenizer.is_in),
               ("ready_for_response", sh.tokenizer.ready_for_response), ("new_token", sh.tokenizer.new_token),
               ("ack", sh.handshakes_in.ack), ("tx_ready", sh.tx.ready)]
        outs = [("tx_valid", i.tx.valid), ("tx_first", i.tx.first), ("tx_last", i.tx.last), ("tx_payload", i.tx.payload),
                ("tx_pid_toggle", i.tx_pid_toggle), ("status_read_complete", top.a.status_read_complete)]
        return top, ins, outs
    t = SlicedTarget(f"mux_w{W}_{'be' if big else 'le'}_ep{ep}_{'first' if first else 'second'}", build)
    t.params = dict(W=W, big=big, ep=ep, other=other)
    return t


def mk_mux_stream(mps, ep, other):
    """multiplexer + USBStreamInEndpoint(ep, mps) + a status endpoint (number `other`); observed: the stream endpoint"""

    def build():
        from amaranth import Elaboratable, Module
        from luna.gateware.usb.usb2.endpoint import USBEndpointMultiplexer
        from luna.gateware.usb.usb2.endpoints.status import USBSignalInEndpoint
        from luna.gateware.usb.usb2.endpoints.stream import USBStreamInEndpoint

        class Top(Elaboratable):
            def __init__(self):
                self.mux = USBEndpointMultiplexer()
                self.a = USBStreamInEndpoint(endpoint_number=ep, max_packet_size=mps)
                self.b = USBSignalInEndpoint(width=8, endpoint_number=other, endianness="little")
                self.mux.add_interface(self.b.interface); self.mux.add_interface(self.a.interface)
            def elaborate(self, platform):
                m = Module()
                m.submodules.mux = self.mux; m.submodules.a = self.a; m.submodules.b = self.b
                return m
        top = Top()
        sh = top.mux.shared; i = top.a.interface; st = top.a.stream
        ins = [("valid", st.valid), ("last", st.last), ("payload", st.payload), ("endpoint", sh.tokenizer.endpoint),
               ("is_in", sh.tokenizer.is_in), ("ready_for_response", sh.tokenizer.ready_for_response),
               ("new_token", sh.tokenizer.new_token), ("ack", sh.handshakes_in.ack), ("tx_ready", sh.tx.ready)]
        outs = [("stream_ready", st.ready), ("tx_valid", i.tx.valid), ("tx_first", i.tx.first), ("tx_last", i.tx.last),
                ("nak", i.handshakes_out.nak), ("tx_pid_toggle", i.tx_pid_toggle), ("tx_payload", i.tx.payload)]
        return top, ins, outs
    t = SlicedTarget(f"muxstream_m{mps}_ep{ep}", build)
    t.params = dict(mps=mps, ep=ep, other=other); t.stream = True
    return t


def targets(tier):
    cfgs = [(1, False, 9, 1, True), (8, True, 2, 10, False)] if tier == "quick" else \
           [(1, False, 9, 1, True), (8, True, 2, 10, False), (8, False, 1, 2, True), (12, True, 15, 7, False)]
    return [mk_mux(*c) for c in cfgs] + [mk_mux_stream(1, 9, 1)]


def traces(target, rng, tier):
    """legal mixed histories: transactions for the observed endpoint, the other endpoint and absent endpoints, strictly one after the
    other (L1..L4 hold by construction); signal values and tx.ready gaps random"""
    if getattr(target, "stream", False):
        return stream_traces(target, rng, tier)
    p = target.params; W = p["W"]; ep = p["ep"]
    nbytes = (W + 7) // 8
    out = []
    for k in range(20 if tier == "quick" else 100):
        tr = []
        cur_ep = 0
        def cyc(**kw):
            c = dict(signal=rng.getrandbits(W), endpoint=cur_ep, is_in=0, ready_for_response=0, new_token=0, ack=0, tx_ready=0)
            c.update(kw); return c
        is_in = 0
        for _ in range(rng.randint(2, 10)):
            for _ in range(rng.randint(0, 3)): tr.append(cyc(is_in=is_in))
            cur_ep = rng.choice([ep, ep, p["other"], p["other"], ep ^ 8, rng.randrange(16)])
            is_in = int(rng.random() < 0.85)
            tr.append(cyc(is_in=is_in, new_token=1))
            for _ in range(rng.randint(1, 3)): tr.append(cyc(is_in=is_in))
            tr.append(cyc(is_in=is_in, ready_for_response=1))
            sent = 0
            while sent < max(nbytes, 1):          # enough ready cycles for whichever endpoint answers (the other one sends 1 byte)
                r = int(rng.random() < 0.7); sent += r
                tr.append(cyc(is_in=is_in, tx_ready=r))
            for _ in range(rng.randint(0, 2)): tr.append(cyc(is_in=is_in))
            if rng.random() < 0.6:
                tr.append(cyc(is_in=is_in, ack=1))
        tr.append(cyc(is_in=is_in))
        out.append(tr)
    return out


def stream_traces(target, rng, tier):
    """legal mixed histories for the stream IN endpoint: a producer obeying valid/ready is not needed for translator validation and the
    self-composition monitor (any valid pattern is admitted); tokens strictly sequential, ready_for_response >= 2 cycles after new_token"""
    p = target.params; ep = p["ep"]; mps = p["mps"]
    out = []
    for k in range(12 if tier == "quick" else 60):
        tr = []
        cur_ep = 0; is_in = 0
        def cyc(**kw):
            c = dict(valid=int(rng.random() < 0.4), last=int(rng.random() < 0.3), payload=rng.choice([0x00, 0xA5, rng.randrange(256)]),
                     endpoint=cur_ep, is_in=is_in, ready_for_response=0, new_token=0, ack=0, tx_ready=0)
            c.update(kw); return c
        for _ in range(rng.randint(2, 10)):
            for _ in range(rng.randint(0, 3)): tr.append(cyc())
            cur_ep = rng.choice([ep, ep, p["other"], ep ^ 8, rng.randrange(16)]); is_in = int(rng.random() < 0.9)
            tr.append(cyc(new_token=1))
            for _ in range(rng.randint(2, 4)): tr.append(cyc())
            tr.append(cyc(ready_for_response=1))
            for _ in range(mps + 2): tr.append(cyc(tx_ready=1))
            if rng.random() < 0.6: tr.append(cyc(ack=1))
        tr.append(cyc())
        out.append(tr)
    return out


def sig_values(W, tier):
    full = (1 << W) - 1
    vals = [0, full]
    k = 0
    while (1 << k) < W:
        m = sum(1 << b for b in range(W) if (b >> k) & 1)
        vals += [m, full ^ m]; k += 1
    seen = []
    for v in vals:
        if v not in seen: seen.append(v)
    return seen if tier != "quick" else seen[:4]


def coqb(b):
    return "true" if b else "false"


def obligations(targets, tier):
    obs = []
    for t in targets:
        if getattr(t, "stream", False):
            p = t.params; ep = p["ep"]
            # valid/last/payload: (0,0,0) and valid with payload in {0x00, 0xA5} x last; endpoint in {ep, other}; is_in = 1;
            # all combinations of ready_for_response / new_token / ack / tx.ready
            data = [0] + [1 + 2 * l + 4 * pl for l in (0, 1) for pl in (0x00, 0xA5)]
            alpha = (f"flat_map (fun d => flat_map (fun e => map (fun c => d + 1024 * e + 16384 + 32768 * c) (range_bits 4)) "
                     f"[{ep}; {p['other']}]) [{'; '.join(map(str, data))}]")
            G = t.modname
            # referee, every tier, no environment assumption: NAK / start of a transmission only for an IN token carrying exactly this number
            oeps = []
            for x in ((ep, ep ^ 8) if tier == "quick" else (ep, p["other"], ep ^ 8)):
                if x not in oeps: oeps.append(x)
            odata = [0, 1 + 2 + 4 * 0xA5, 1]
            oalpha = (f"flat_map (fun d => flat_map (fun e => map (fun c => d + 1024 * e + 16384 * c) (range_bits 5)) "
                      f"[{'; '.join(map(str, oeps))}]) [{'; '.join(map(str, odata))}]")
            obs.append(tie.rmon(
                f"ob_own_{t.name}", t, mon=f"(sin_own_mon {ep})", m0="0", alpha_bits=0, alphabet=oalpha, fuel=3000,
                describe=f"USBEndpointMultiplexer + USBStreamInEndpoint(number={ep}, max_packet_size={p['mps']}): the endpoint requests a NAK, or starts "
                         f"a transmission, only in (resp. right after) a cycle with tokenizer.endpoint == {ep} & is_in & ready_for_response; all "
                         f"traces (no environment assumption) over tokenizer.endpoint in {oeps}, every is_in/ready_for_response/new_token/ack/"
                         f"tx.ready pattern, stream words (valid/last/payload) {[hex(x) for x in odata]}"))
            obs.append(tie.cmon(f"cmon_own_{t.name}", t, mon=f"(sin_own_mon {ep})", m0="0",
                                describe="the same referee over simulator traces with unrestricted endpoint numbers and payloads"))
            if tier == "quick" and not os.environ.get("C12_STREAM"):
                continue
            obs.append(tie.rmon(
                f"ob_{t.name}", t, mon=f"sc_mon {G}.step (sin_proj {ep}) sin_norm sin_legal sin_aux",
                m0=f"(sin_aux0 + AUXR * {G}.init)", alpha_bits=0, alphabet=alpha, fuel=3000,
                describe=f"USBEndpointMultiplexer + USBStreamInEndpoint(number={ep}, max_packet_size={p['mps']}) + status endpoint {p['other']}: "
                         f"self-composition -- the netlist on a legal mixed history and a second copy of the SAME netlist on the projection "
                         f"produce equal outputs (payload compared while tx.valid) in every cycle; all legal traces (L1, L2, L3, "
                         f"ready_for_response >= 2 cycles after new_token) over: IN tokens for endpoints {ep}/{p['other']}, stream payload in "
                         f"{{0x00, 0xA5}} with every valid/last pattern, every ready_for_response/new_token/ack/tx.ready pattern; flush, discard, "
                         f"clear-halt tied to 0"))
            continue
        p = t.params; W = p["W"]; ep = p["ep"]; big = coqb(p["big"])
        sigs = sig_values(W, tier)
        eps = []
        for x in [ep, p["other"], ep ^ 8, 0] + ([p["other"] ^ 8, 15] if tier != "quick" else []):     # n, the neighbour, n +- 8, ...
            if x not in eps: eps.append(x)
        alpha = (f"flat_map (fun s => flat_map (fun e => map (fun c => s + 2 ^ {W} * (e + 16 * c)) (range_bits 5)) "
                 f"[{'; '.join(map(str, eps))}]) [{'; '.join(map(str, sigs))}]")
        desc = (f"USBEndpointMultiplexer + USBSignalInEndpoint(width={W}, number={ep}, {'big' if p['big'] else 'little'}) + "
                f"USBSignalInEndpoint(8, number={p['other']})")
        obs.append(tie_alpha.rlock_alpha(
            f"ob_{t.name}", t, St="(si_state * N)%type", mstep=f"al_step {W} {big} {ep}", enc=f"al_enc {W}", dec=f"al_dec {W}",
            wf=f"al_wf {W}", dec_enc=f"al_dec_enc {W}", wf_step=f"al_wf_step {W} {big} {ep}", m0="al_init",
            wf_m0=f"exact (al_wf_init {W}).", env=f"al_env {W}", alphabet=alpha, fuel=3000,
            describe=desc + f": outputs of endpoint {ep} (netlist, inputs on the multiplexer's shared side) == the endpoint ALONE on the "
                            f"PROJECTION of the history; all legal (L1..L4) traces with every control-input pattern, tokenizer.endpoint in {eps}, "
                            f"signal in {[hex(s) for s in sigs]}"))
        obs.append(tie.corr(f"corr_{t.name}", t, mstep=f"al_step {W} {big} {ep}", m0="al_init",
                            describe=desc + " vs alone-on-projection machine on legal simulator traces, full-range signal and endpoint values"))
    return obs


def tie_theorems(targets, tier):
    s = ""
    for t in targets:
        if getattr(t, "stream", False):
            if tier == "quick" and not os.environ.get("C12_STREAM"):
                continue
            G = t.modname; ep = t.params["ep"]
            s += f"""
Theorem C12_{t.name} : forall tr, Forall (fun i => In i ob_{t.name}.alpha) tr ->
  sc_legal_run {G}.step sin_legal sin_aux {G}.init sin_aux0 tr = true ->
  map sin_norm (run {G}.step {G}.init tr) = map sin_norm (run {G}.step {G}.init (map (sin_proj {ep}) tr)).
Proof.
  intros tr H HL.
  apply (sc_sound {G}.step (sin_proj {ep}) sin_norm sin_legal sin_aux tr {G}.init sin_aux0 {G}.init); [reflexivity | | exact HL].
  exact (ob_{t.name}_T.tie tr H).
Qed.
"""
            continue
        p = t.params; W = p["W"]; ep = p["ep"]; big = coqb(p["big"])
        s += f"""
Theorem C12_{t.name} : forall tr, Forall (fun i => In i ob_{t.name}.alpha) tr ->
  env_ok _ (al_step {W} {big} {ep}) (al_env {W}) al_init tr = true ->
  run {t.modname}.step {t.modname}.init tr = run (al_step {W} {big} {ep}) al_init tr /\\
  run {t.modname}.step {t.modname}.init tr = run (si_step {W} {big} {ep}) si_init tr.
Proof.
  intros tr H HE. split.
  - apply ob_{t.name}_T.tie; assumption.
  - rewrite (alone_machine_noninterference_reset {W} {big} {ep} tr HE). apply ob_{t.name}_T.tie; assumption.
Qed.
"""
    return s


def tie_theorem_names(targets, tier):
    return [f"C12_{t.name}" for t in targets
            if not (getattr(t, "stream", False) and tier == "quick" and not os.environ.get("C12_STREAM"))]


# ------------------------------------------------------------------------------------------------------
# complete device: differential runs, mixed host script vs. its projection on each endpoint
# ------------------------------------------------------------------------------------------------------
from props.C08 import token, datapkt, pidb, P, descriptors   # packet construction helpers (pure Python)


# endpoint numbers of the complete device: top half of the 4-bit range; the host also addresses n - 8 (no function there)
E_IN, E_OUT, E_SIG = 9, 15, 11
E_ALL = (E_IN, E_OUT, E_SIG)


def build_full():
    from luna.gateware.usb.usb2.device import USBDevice
    from luna.gateware.interface.utmi import UTMIInterface
    from luna.gateware.usb.usb2.endpoints.status import USBSignalInEndpoint
    from luna.gateware.usb.usb2.endpoints.stream import USBStreamInEndpoint, USBStreamOutEndpoint
    u = UTMIInterface()
    d = USBDevice(bus=u)
    d.add_standard_control_endpoint(descriptors())
    e1 = USBStreamInEndpoint(endpoint_number=E_IN, max_packet_size=8)
    e2 = USBStreamOutEndpoint(endpoint_number=E_OUT, max_packet_size=8)
    e3 = USBSignalInEndpoint(width=16, endpoint_number=E_SIG, endianness="big")
    for e in (e1, e2, e3):
        d.add_endpoint(e)
    ins = dict(rx_active=u.rx_active, rx_valid=u.rx_valid, rx_data=u.rx_data, line_state=u.line_state, connect=d.connect,
               tx_ready=u.tx_ready, s1_valid=e1.stream.valid, s1_payload=e1.stream.payload, s1_last=e1.stream.last,
               s2_ready=e2.stream.ready, sig3=e3.signal)
    def ep_obs(e, kind):
        i = e.interface
        o = [("tx_valid", i.tx.valid), ("tx_first", i.tx.first), ("tx_last", i.tx.last), ("tx_payload", i.tx.payload),
             ("tx_pid_toggle", i.tx_pid_toggle), ("hs_ack", i.handshakes_out.ack), ("hs_nak", i.handshakes_out.nak),
             ("hs_stall", i.handshakes_out.stall)]
        if kind == "in":
            o += [("stream_ready", e.stream.ready)]
        if kind == "out":
            o += [("stream_valid", e.stream.valid), ("stream_payload", e.stream.payload), ("stream_first", e.stream.first),
                  ("stream_last", e.stream.last)]
        if kind == "sig":
            o += [("status_read_complete", e.status_read_complete)]
        return o
    obs = {E_IN: ep_obs(e1, "in"), E_OUT: ep_obs(e2, "out"), E_SIG: ep_obs(e3, "sig")}
    wire = dict(tx_valid=u.tx_valid, tx_data=u.tx_data, s1_ready=e1.stream.ready)
    return d, ins, obs, wire


def norm_obs(o):
    """payloads are meaningful only while their valid is high"""
    o = dict(o)
    if not o.get("tx_valid"): o["tx_payload"] = 0
    if "stream_valid" in o and not o["stream_valid"]:
        o["stream_payload"] = 0; o["stream_first"] = 0; o["stream_last"] = 0
    return o


class MixedHost:
    """closed-loop host + local stimulus; records per cycle the input word and the endpoint whose transaction the cycle belongs to"""
    def __init__(self, rng):
        self.rng = rng
        self.trace = []; self.owner = []; self.obs = {e: [] for e in E_ALL}
        self.cur_owner = None
        self.tog_out = 0          # host's DATA toggle for OUT endpoint 2
        self.pending = []         # bytes the stream producer of endpoint 1 still has to hand over: (byte, last)
        self.sig = rng.getrandbits(16)

    def local(self, s1_ready):
        """local (non-bus) inputs of this cycle: producer for ep1 obeying valid/ready, consumer ready for ep2, signal for ep3"""
        rng = self.rng
        if not self.pending and rng.random() < 0.08:
            n = rng.choice([1, 3, 7, 8, 9, 16, 17])
            self.pending = [(rng.randrange(256), int(k == n - 1)) for k in range(n)]
        if rng.random() < 0.05:
            self.sig = rng.getrandbits(16)
        c = dict(s1_valid=0, s1_payload=0, s1_last=0, s2_ready=int(rng.random() < 0.6), sig3=self.sig)
        if self.pending:
            b, l = self.pending[0]
            c.update(s1_valid=1, s1_payload=b, s1_last=l)
        return c

    def run(self, script):
        from amaranth.sim import Simulator
        d, ins, obs, wire = build_full()
        sim = Simulator(d); sim.add_clock(1e-6, domain="usb")
        host = self

        async def tb(ctx):
            async def cyc(**k):
                c = dict(rx_active=0, rx_valid=0, rx_data=0, line_state=1, connect=1, tx_ready=1)
                c.update(host.local(None)); c.update(k)
                for n, v in c.items():
                    ctx.set(ins[n], v)
                # producer handshake: the byte is consumed in this cycle iff ready is high now
                if c["s1_valid"] and ctx.get(wire["s1_ready"]):
                    host.pending.pop(0)
                host.trace.append(c); host.owner.append(host.cur_owner)
                for e in E_ALL:
                    host.obs[e].append(norm_obs({n: ctx.get(s) for n, s in obs[e]}))
                txv = ctx.get(wire["tx_valid"]); txd = ctx.get(wire["tx_data"])
                await ctx.tick("usb")
                return txv, txd
            host.cyc = cyc
            await script(host)
        sim.add_testbench(tb)
        sim.run()

    async def idle(self, n=1):
        for _ in range(n): await self.cyc()

    async def send(self, data, gap=2):
        await self.cyc(rx_active=1, rx_valid=0, rx_data=self.rng.randrange(256))
        for b in data:
            await self.cyc(rx_active=1, rx_valid=1, rx_data=b)
        await self.idle(gap)

    async def recv(self, timeout=40):
        out = []
        for _ in range(timeout):
            v, dta = await self.cyc()
            if v:
                out.append(dta); break
        else:
            return out
        while True:
            v, dta = await self.cyc()
            if not v: break
            out.append(dta)
        return out

    async def in_xact(self, ep, ack=True):
        self.cur_owner = ep
        await self.send(token(P["IN"], 0, ep))
        data = await self.recv()
        if len(data) >= 3 and (data[0] & 3) == 3 and ack:
            await self.idle(self.rng.choice([1, 2, 3]))
            await self.send([pidb(P["ACK"])])
        await self.idle(self.rng.choice([1, 2, 4]))
        self.cur_owner = None
        return data

    async def out_xact(self, ep, data, pid=None, corrupt=False, ping=False):
        self.cur_owner = ep
        if ping:
            await self.send(token(P["PING"], 0, ep))
            r = await self.recv()
        else:
            await self.send(token(P["OUT"], 0, ep))
            pkt = datapkt(P["DATA1" if (self.tog_out if pid is None else pid) else "DATA0"], data)
            if corrupt: pkt[-1] ^= 0x40
            await self.send(pkt)
            r = await self.recv()
            if ep == E_OUT and pid is None and not corrupt and r and r[0] == pidb(P["ACK"]):
                self.tog_out ^= 1
        await self.idle(self.rng.choice([1, 2, 4]))
        self.cur_owner = None
        return r

    async def control_get(self, req, value, length):
        self.cur_owner = 0
        await self.send(token(P["SETUP"], 0, 0))
        await self.send(datapkt(P["DATA0"], [0x80, req, value & 0xff, value >> 8, 0, 0, length, 0]))
        await self.recv()
        await self.idle(2)
        await self.send(token(P["IN"], 0, 0))
        data = await self.recv()
        if len(data) >= 3:
            await self.idle(2); await self.send([pidb(P["ACK"])])
        await self.idle(2)
        await self.send(token(P["OUT"], 0, 0)); await self.send(datapkt(P["DATA1"], []))
        await self.recv()
        await self.idle(2)
        self.cur_owner = None


def mixed_script(rng, n):
    async def script(h):
        await h.idle(rng.choice([2, 5]))
        for _ in range(n):
            r = rng.random()
            if r < 0.30:
                await h.in_xact(E_IN, ack=rng.random() < 0.8)
            elif r < 0.55:
                k = rng.random()
                if k < 0.15:
                    await h.out_xact(E_OUT, [], ping=True)
                elif k < 0.3:
                    await h.out_xact(E_OUT, [rng.randrange(256) for _ in range(rng.choice([1, 8]))], pid=h.tog_out ^ 1)   # wrong toggle (re-sent packet)
                elif k < 0.4:
                    await h.out_xact(E_OUT, [rng.randrange(256) for _ in range(rng.choice([2, 8]))], corrupt=True)
                else:
                    await h.out_xact(E_OUT, [rng.randrange(256) for _ in range(rng.choice([0, 1, 3, 8, 8]))])
            elif r < 0.8:
                await h.in_xact(E_SIG, ack=rng.random() < 0.75)
            elif r < 0.88:
                await h.control_get(rng.choice([0, 6]), 0x0100, rng.choice([2, 18]))
            elif r < 0.94:
                await h.in_xact(rng.choice([E_IN ^ 8, E_SIG ^ 8, E_OUT ^ 8, 5]))            # n - 8: endpoint without a function
            else:
                await h.out_xact(rng.choice([E_IN, E_SIG, E_OUT ^ 8, 6]), [1, 2, 3])   # OUT data addressed to an IN endpoint / to n - 8 / absent endpoint
            await h.idle(rng.choice([0, 1, 3, 10]))
    return script


def replay_projected(trace, owner, e):
    """open-loop run of the projection on endpoint e: bus activity of every other endpoint's transaction removed"""
    from amaranth.sim import Simulator
    d, ins, obs, wire = build_full()
    sim = Simulator(d); sim.add_clock(1e-6, domain="usb")
    res = []

    async def tb(ctx):
        for c, o in zip(trace, owner):
            c = dict(c)
            if o is not None and o != e:
                c.update(rx_active=0, rx_valid=0, rx_data=0)
            for n, v in c.items():
                ctx.set(ins[n], v)
            res.append(norm_obs({n: ctx.get(s) for n, s in obs[e]}))
            await ctx.tick("usb")
    sim.add_testbench(tb)
    sim.run()
    return res


def correspondence(tier, rng, bdir, cov):
    """differential oracle on the real code: for each mixed run and each non-control endpoint e, the observable signals of e in the
    mixed run must equal, cycle by cycle, those in the run of the projection on e"""
    nruns = 6 if tier == "quick" else 30
    total = 0; own = {e: 0 for e in E_ALL}
    for k in range(nruns):
        h = MixedHost(rng)
        h.run(mixed_script(rng, rng.randint(8, 16) if tier == "quick" else rng.randint(10, 30)))
        total += len(h.trace)
        for e in E_ALL:
            own[e] += sum(1 for o in h.owner if o == e)
            alone = replay_projected(h.trace, h.owner, e)
            for t, (a, b) in enumerate(zip(h.obs[e], alone)):
                if a != b:
                    return dict(property=PID, obligation="diff_device_projection", target="device_full",
                                describe="complete USBDevice: observable signals of endpoint %d in the mixed run differ from those in the run of "
                                         "the projection of the host script on that endpoint" % e,
                                endpoint=e, differing_cycle=t, mixed=a, projected=b, inputs=h.trace[:t + 1], owner=h.owner[:t + 1],
                                confirmed_on_pysim=True, how="two runs of Amaranth's simulator on /repo's USBDevice")
    cov["correspondence"].append(dict(obligation="diff_device_projection", target="device_full", traces=nruns, cycles=total,
                                      describe="complete USBDevice (control + stream IN 1 + stream OUT 2 + status IN 3) over UTMI: mixed host script vs. "
                                               "its projection on each non-control endpoint, all observable endpoint signals compared every cycle; "
                                               f"cycles inside own transactions: {own}"))
    return None


LEVEL_TEXT = ("Machine-checked proof for the status IN endpoint; kernel-checked netlist self-composition at a tiny configuration plus differential "
              "checks for the stream endpoints. (1) Generic theorem: a relation between the state in the mixed run and the state in the "
              "projected run that is preserved, with equal outputs, by own cycles (same input) and foreign cycles (input vs. its quiet version) "
              "under a legal-host predicate yields equal output histories (C12_noninterference_generic). (2) USBSignalInEndpoint (FSM model of "
              "C17), every width / endianness / endpoint number, every legal mixed history of any length from reset: tx.valid/first/last, payload, "
              "DATA toggle and status_read_complete are in every cycle those of the endpoint run on the projection (C12_status_endpoint, "
              "C12_status_endpoint_words); the relation is 'equal, or the mixed run has already gone to RETRANSMIT on the foreign token while the "
              "projected run still waits and will do so at its next own token'. (3) Ties: for the real USBEndpointMultiplexer with two real status "
              "endpoints, the netlist (inputs on the multiplexer's shared side, outputs of one endpoint) is proved equal to the "
              "endpoint-alone-on-the-projection machine and hence to the endpoint model, on all legal traces over an explicit alphabet (certified "
              "product reachability; C12_mux_*). (4) Thorough tier only: for the real multiplexer + USBStreamInEndpoint(max_packet_size 1) + a status "
              "endpoint, the netlist on a legal mixed history and a second copy of the same netlist on the projection are proved to give equal "
              "outputs in every cycle, for all legal traces over an explicit alphabet (self-composition, certified reachability of the pair; "
              "C12_muxstream_m1_ep1) -- no hand model involved. (5) NOT proved: USBStreamInEndpoint at other sizes / with flush, discard, clear-halt; "
              "USBStreamOutEndpoint -- checked by running the complete USBDevice over UTMI on a mixed host script and on its projection on each "
              "endpoint and comparing all observable endpoint signals in every cycle.")
LEVEL_NOTE = ("Partial: the unbounded, parametric theorem covers the status endpoint only. For the stream IN endpoint the kernel-checked statement is "
              "about one small netlist (mps 1, two payload values, IN tokens for two endpoint numbers) and needs, beyond L1..L3, that "
              "ready_for_response comes at least two cycles after new_token; an unbounded proof would be the analogous relation on C11's InXfer model "
              "(WAIT_FOR_ACK vs WAIT_TO_SEND after a foreign token; additionally discard = 0 and no ClearFeature(ENDPOINT_HALT) in the window, because "
              "those two states treat both differently). USBStreamOutEndpoint (with the boundary detector it shares the receive stream through) has "
              "no model here. The legal-host hypotheses are necessary, not a convenience: the multiplexer gates nothing "
              "(C12_example_illegal_differs). Trusted: Coq kernel + vm_compute, Amaranth elaboration, nir2coq.py/Netlist.v/slice.py (validated each "
              "run against pysim); the differential check trusts only Amaranth's simulator.")
TECHNIQUE = ("Rocq proof: generic non-interference by a two-run simulation relation + instance for the status endpoint (all parameters, unbounded "
             "histories); certified product-reachability of the real multiplexer+endpoints netlist against the alone-on-projection machine under the "
             "legal-host environment; netlist self-composition (two copies, mixed vs. projected input) for the stream IN endpoint; two-run "
             "differential simulation of the complete device (mixed vs. projected host script)")
