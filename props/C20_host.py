"""C20 / C57 -- closed-loop host-script generator for complete USB2 devices on a raw UTMI bus.

The harness replays *static* input traces (one dict of input values per cycle).  A host, however, reacts to
the device (it waits for the response to a token, acknowledges data, retries after NAK).  `HostSim` therefore runs
Amaranth's simulator of the real device once, in closed loop, with a scripted host that chooses the inputs of
cycle t from the outputs of cycles < t (and of cycle t for the stream producer / PHY tx_ready, which are allowed to
be combinational functions of the device outputs), and records the inputs it applied.  The recorded list is then
an ordinary open-loop trace: the device is deterministic, so the harness' own simulation reproduces the run.

Sampling convention = harness.core.Target.simulate: inputs of the cycle are applied, outputs are sampled, then
the clock edge.

Legal host behaviour produced here (the hypothesis of C20/C57): a packet is sent only while the device is not
transmitting; after a packet that solicits a response the host waits for the response to complete, or for
`timeout` idle cycles, before it sends anything else; after a device packet it waits >= `gap` cycles.
"""
import random

# ---- wire formats --------------------------------------------------------------------------------------------
PID_OUT, PID_IN, PID_SOF, PID_SETUP, PID_PING = 0x1, 0x9, 0x5, 0xD, 0x4
PID_DATA0, PID_DATA1, PID_DATA2, PID_MDATA = 0x3, 0xB, 0x7, 0xF
PID_ACK, PID_NAK, PID_STALL, PID_NYET = 0x2, 0xA, 0xE, 0x6


def pid_byte(p):
    return p | ((p ^ 0xF) << 4)


def crc5(x, nbits=11):
    crc = 0x1f
    for k in range(nbits):
        top = ((crc >> 4) & 1) ^ ((x >> k) & 1)
        crc = (crc << 1) & 0x1f
        if top: crc ^= 0x05
    crc ^= 0x1f
    return int('{:05b}'.format(crc)[::-1], 2)


def crc16(data):
    crc = 0xffff
    for b in data:
        for k in range(8):
            top = ((crc >> 15) & 1) ^ ((b >> k) & 1)
            crc = (crc << 1) & 0xffff
            if top: crc ^= 0x8005
    crc ^= 0xffff
    return int('{:016b}'.format(crc)[::-1], 2)


def token_bytes(pid, addr, ep):
    v = (addr & 0x7f) | ((ep & 0xf) << 7)
    return [pid_byte(pid), v & 0xff, (v >> 8) | (crc5(v) << 3)]


def sof_bytes(frame):
    v = frame & 0x7ff
    return [pid_byte(PID_SOF), v & 0xff, (v >> 8) | (crc5(v) << 3)]


def data_bytes(pid, payload):
    c = crc16(payload)
    return [pid_byte(pid)] + list(payload) + [c & 0xff, c >> 8]


def parse_device_packet(bs):
    """-> ('hs', pid) | ('data', pid, payload) | ('bad', bytes)"""
    if len(bs) == 1 and bs[0] in (pid_byte(PID_ACK), pid_byte(PID_NAK), pid_byte(PID_STALL), pid_byte(PID_NYET)):
        return ('hs', bs[0] & 0xf)
    if len(bs) >= 3 and bs[0] in (pid_byte(PID_DATA0), pid_byte(PID_DATA1), pid_byte(PID_DATA2), pid_byte(PID_MDATA)):
        pl = bs[1:-2]
        c = crc16(pl)
        if [c & 0xff, c >> 8] == list(bs[-2:]):
            return ('data', bs[0] & 0xf, pl)
    return ('bad', list(bs))


class StreamProducer:
    """Feeds a LUNA StreamInterface (valid/first/last/payload -> ready) with a byte queue, honouring the stream
    contract (payload stable and valid held while not ready).  `gap_p` = probability of an idle cycle between
    bytes (valid low); packets = list of byte lists, the last byte of each carries `last`."""
    def __init__(self, rng, gap_p=0.0):
        self.rng = rng; self.gap_p = gap_p
        self.queue = []          # list of (byte, first, last)
        self.offering = False
        self.sent = []           # bytes accepted by the device

    def push(self, data, last=True):
        n = len(data)
        for k, b in enumerate(data):
            self.queue.append((b, int(k == 0), int(last and k == n - 1)))

    def drive(self):
        """inputs of this cycle"""
        if not self.offering and self.queue and self.rng.random() >= self.gap_p:
            self.offering = True
        if self.offering and self.queue:
            b, f, l = self.queue[0]
            return dict(valid=1, first=f, last=l, payload=b)
        return dict(valid=0, first=0, last=0, payload=0)

    def observe(self, ready):
        if self.offering and self.queue and ready:
            self.sent.append(self.queue.pop(0)[0])
            self.offering = False


class HostSim:
    """Closed-loop run of one device.  `build()` is a harness target builder; `names` maps roles to port names:
       rx_active rx_valid rx_data tx_ready tx_valid tx_data (UTMI) and optional extra constant inputs `const`.
       `script(host)` is an `async def` using the primitives below.  After `run()`, `.trace` is the recorded
       open-loop input trace."""

    def __init__(self, build, rng, *, const=None, ready_p=1.0, first_valid=False, byte_gap=0, timeout=24, gap=3,
                 in_stream=None, out_ready_p=1.0, in_prefix="in_", out_prefix="out_"):
        self.build = build; self.rng = rng
        self.const = dict(const or {})
        self.ready_p = ready_p; self.first_valid = first_valid; self.byte_gap = byte_gap
        self.timeout = timeout; self.gap = gap
        self.in_stream = in_stream; self.out_ready_p = out_ready_p
        self.in_prefix = in_prefix; self.out_prefix = out_prefix
        self.trace = []
        self.log = []            # ('h', bytes) host packets, ('d', bytes) device packets, in order
        self.out_bytes = []      # bytes delivered on the OUT stream (valid & ready)
        self.address = 0
        self._devpkt = None      # bytes of the device packet in progress
        self._last_tx_end = -10 ** 9
        self.t = 0
        self.interlude = None               # async fn(host, where) called between the stages of control transfers ("setup-data", "data",
                                            # "data-status", "setup-status"): transactions on OTHER endpoints the host is free to interleave
        self.status_after_silence = False   # control_out: proceed to the status stage when a data-stage packet gets no handshake

    # ---- one cycle ------------------------------------------------------------------------------------------
    async def cycle(self, rx_active=0, rx_valid=0, rx_data=0, **extra):
        ctx = self.ctx
        c = dict(self.const)
        c.update(rx_active=rx_active, rx_valid=rx_valid, rx_data=rx_data)
        c["tx_ready"] = int(self.rng.random() < self.ready_p)
        if self.in_stream is not None:
            d = self.in_stream.drive()
            for k, v in d.items():
                c[self.in_prefix + k] = v
        if (self.out_prefix + "ready") in self.insig:
            c[self.out_prefix + "ready"] = int(self.rng.random() < self.out_ready_p)
        c.update(extra)
        c = {k: v for k, v in c.items() if k in self.insig}
        for k, v in c.items():
            ctx.set(self.insig[k], v)
        o = {n: ctx.get(s) for n, s in self.outsig.items()}
        await ctx.tick(self.domain)
        self.trace.append(c); self.t += 1
        # bookkeeping on the device's transmissions
        if o["tx_valid"]:
            if self._devpkt is None:
                self._devpkt = []
            if c["tx_ready"]:
                self._devpkt.append(o["tx_data"])
        elif self._devpkt is not None:
            self.log.append(('d', self._devpkt)); self._done = self._devpkt; self._devpkt = None
            self._last_tx_end = self.t
        if self.in_stream is not None:
            self.in_stream.observe(o.get(self.in_prefix + "ready", 0))
        if o.get(self.out_prefix + "valid", 0) and c.get(self.out_prefix + "ready", 0):
            self.out_bytes.append(o[self.out_prefix + "payload"])
        self.last_out = o
        return o

    async def idle(self, n=1):
        for _ in range(n):
            await self.cycle()

    # ---- packets --------------------------------------------------------------------------------------------
    async def send_packet(self, data, *, abort_after=None):
        """One host packet as a maximal rx_active run.  Waits first until the device is silent for `gap` cycles."""
        while self._devpkt is not None or self.t - self._last_tx_end < self.gap:
            await self.cycle()
        rng = self.rng
        await self.cycle(rx_active=1, rx_valid=int(self.first_valid), rx_data=rng.randrange(256))
        for k, b in enumerate(data):
            if abort_after is not None and k >= abort_after:
                break
            for _ in range(self.byte_gap if isinstance(self.byte_gap, int) else rng.randint(0, self.byte_gap[1])):
                await self.cycle(rx_active=1, rx_valid=0, rx_data=rng.randrange(256))
            await self.cycle(rx_active=1, rx_valid=1, rx_data=b)
        if rng.random() < 0.3:
            await self.cycle(rx_active=1, rx_valid=0, rx_data=rng.randrange(256))
        await self.cycle(rx_active=0, rx_valid=0, rx_data=rng.randrange(256))
        self.log.append(('h', list(data)))

    async def wait_response(self, timeout=None):
        """Idle until the device has sent one complete packet (returns its bytes) or `timeout` cycles pass without
        a transmission starting (returns None)."""
        timeout = self.timeout if timeout is None else timeout
        self._done = None
        n = 0
        while True:
            await self.cycle()
            if self._done is not None:
                r = self._done; self._done = None
                return r
            if self._devpkt is None:
                n += 1
                if n >= timeout:
                    return None
            if n > 100000:
                raise RuntimeError("device transmission does not end")

    # ---- transactions ---------------------------------------------------------------------------------------
    async def token(self, pid, ep, addr=None):
        await self.send_packet(token_bytes(pid, self.address if addr is None else addr, ep))

    async def in_txn(self, ep, *, handshake=PID_ACK, addr=None):
        """IN transaction.  -> ('hs', pid) | ('data', pid, payload) | ('bad', ..) | None (no response)"""
        await self.token(PID_IN, ep, addr)
        r = await self.wait_response()
        if r is None:
            return None
        p = parse_device_packet(r)
        if p[0] == 'data' and handshake is not None:
            await self.send_packet([pid_byte(handshake)])
        return p

    async def out_txn(self, ep, payload, *, data_pid=PID_DATA0, token_pid=PID_OUT, corrupt=False, addr=None):
        """OUT / SETUP transaction.  -> ('hs', pid) | None"""
        await self.token(token_pid, ep, addr)
        await self.idle(self.rng.randint(1, 3))
        bs = data_bytes(data_pid, payload)
        if corrupt:
            bs[-1] ^= 1 << self.rng.randrange(8)
        await self.send_packet(bs)
        r = await self.wait_response()
        return None if r is None else parse_device_packet(r)

    async def setup(self, bmRequestType, bRequest, wValue=0, wIndex=0, wLength=0, ep=0):
        pl = [bmRequestType, bRequest, wValue & 0xff, wValue >> 8, wIndex & 0xff, wIndex >> 8, wLength & 0xff, wLength >> 8]
        return await self.out_txn(ep, pl, data_pid=PID_DATA0, token_pid=PID_SETUP)

    async def _inter(self, where):
        if self.interlude is not None:
            f = self.interlude
            self.interlude = None            # no recursion: the interlude itself may use control-free primitives only
            try:
                await f(self, where)
            finally:
                self.interlude = f

    async def control_in(self, bmRequestType, bRequest, wValue=0, wIndex=0, wLength=0, *, mps=64, max_naks=20, status=True):
        """-> (outcome, data): outcome 'ok' | 'stall' | 'timeout' | 'nak-limit' | 'bad'"""
        r = await self.setup(bmRequestType, bRequest, wValue, wIndex, wLength)
        if r != ('hs', PID_ACK):
            return ('setup-' + str(r), None)
        data = []; naks = 0
        await self._inter("setup-data")
        while True:
            await self.idle(self.rng.randint(0, 2))
            p = await self.in_txn(0)
            if p is None: return ('timeout', data)
            if p[0] == 'hs':
                if p[1] == PID_NAK:
                    naks += 1
                    if naks > max_naks: return ('nak-limit', data)
                    continue
                if p[1] == PID_STALL: return ('stall', data)
                return ('bad', data)
            if p[0] == 'bad': return ('bad', data)
            data += p[2]
            if len(p[2]) < mps or len(data) >= wLength:
                break
        if status:
            naks = 0
            await self._inter("data-status")
            while True:
                r = await self.out_txn(0, [], data_pid=PID_DATA1)
                if r == ('hs', PID_NAK):
                    naks += 1
                    if naks > max_naks: return ('nak-limit', data)
                    continue
                break
            if r == ('hs', PID_STALL): return ('stall-status', data)
            if r != ('hs', PID_ACK): return ('status-' + str(r), data)
        return ('ok', data)

    async def control_out(self, bmRequestType, bRequest, wValue=0, wIndex=0, data=(), *, mps=64, max_naks=20):
        """-> outcome 'ok' | 'stall' | ..."""
        len_data = len(data)
        r = await self.setup(bmRequestType, bRequest, wValue, wIndex, len(data))
        if r != ('hs', PID_ACK):
            return 'setup-' + str(r)
        data = list(data); pid = PID_DATA1
        await self._inter("setup-data" if data else "setup-status")
        while data:
            chunk, rest = data[:mps], data[mps:]
            naks = 0
            while True:
                r = await self.out_txn(0, chunk, data_pid=pid)
                if r == ('hs', PID_NAK):
                    naks += 1
                    if naks > max_naks: return 'nak-limit'
                    continue
                break
            if r == ('hs', PID_STALL): return 'stall'
            if r is None and self.status_after_silence: break     # unanswered data stage: go on to the status stage
            if r != ('hs', PID_ACK): return 'data-' + str(r)
            data = rest; pid = PID_DATA0 if pid == PID_DATA1 else PID_DATA1
        naks = 0
        if len_data: await self._inter("data-status")
        while True:
            await self.idle(self.rng.randint(0, 2))
            p = await self.in_txn(0)
            if p is None: return 'timeout'
            if p == ('hs', PID_NAK):
                naks += 1
                if naks > max_naks: return 'nak-limit'
                continue
            break
        if p == ('hs', PID_STALL): return 'stall'
        if p[0] == 'data' and p[2] == []: return 'ok'
        return 'status-' + str(p)

    async def foreign_txn(self, kind, addr, ep=1, payload=(), data_pid=PID_DATA0, hs=PID_ACK, quick=True):
        """One transaction addressed to ANOTHER device, as this device sees it on a shared bus segment (tokens and host data
        on its receiver, and -- UTMI has a single receive channel -- the other device's answers as well).  The device under
        test must not transmit anything during it.  kind: 'out' | 'setup' (token, data, the other device's handshake `hs` or
        nothing if hs is None), 'in' (token, the other device's data packet, the host's handshake), 'in_hs' (token, the other
        device's NAK/STALL), 'ping', 'token' (OUT token never followed by data).  quick: the other party answers after a
        few cycles (as a real device would); otherwise after the full time-out.  Returns the bytes this device transmitted
        during the transaction (should be [])."""
        rng = self.rng
        n0 = len([1 for k, _ in self.log if k == 'd'])

        async def turnaround():
            if quick: await self.idle(rng.randint(2, 6))
            else: await self.wait_response()
        if kind in ("out", "setup"):
            await self.token(PID_SETUP if kind == "setup" else PID_OUT, ep, addr)
            await self.idle(rng.randint(1, 3))
            await self.send_packet(data_bytes(data_pid, payload))
            await turnaround()
            if hs is not None:
                await self.send_packet([pid_byte(hs)])
        elif kind == "in":
            await self.token(PID_IN, ep, addr)
            await turnaround()
            await self.send_packet(data_bytes(data_pid, payload))
            await self.idle(rng.randint(2, 4))
            if hs is not None:
                await self.send_packet([pid_byte(hs)])
        elif kind == "in_hs":
            await self.token(PID_IN, ep, addr)
            await turnaround()
            await self.send_packet([pid_byte(hs if hs is not None else PID_NAK)])
        elif kind == "ping":
            await self.token(PID_PING, ep, addr)
            await turnaround()
            if hs is not None:
                await self.send_packet([pid_byte(hs)])
        else:
            await self.token(PID_OUT, ep, addr)
        await self.wait_response()
        return [p for k, p in self.log if k == 'd'][n0:]

    async def set_address(self, a):
        r = await self.control_out(0x00, 5, a)
        if r == 'ok':
            self.address = a
        return r

    # ---- running --------------------------------------------------------------------------------------------
    def run(self, script):
        from amaranth.sim import Simulator
        elab, ins, outs = self.build()
        self.insig = dict(ins); self.outsig = dict(outs)
        sim = Simulator(elab)
        domains = list(sim._design.fragment.domains.keys())
        for d in domains:
            sim.add_clock(1e-6, domain=d)
        self.domain = domains[0]
        result = {}

        async def tb(ctx):
            self.ctx = ctx
            result["r"] = await script(self)
        sim.add_testbench(tb)
        sim.run()
        return result.get("r")
