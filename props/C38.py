"""C38 -- link re-entry always re-advertises sequence number and credits
(luna/gateware/usb/usb3/link/receiver.py: HeaderPacketReceiver; enable / usb_reset at every point in time)."""
from harness import tie
from harness.tie_explicit import rlock_alpha
from props import C37_hdrrx as H
from props.C37 import B, alpha, model_args, W_STUB

PID = "C38"
ASSUMPTIONS = [
    "the link is down in a cycle iff enable = 0 or usb_reset = 1 in that cycle; enable and usb_reset are free inputs in every cycle "
    "(in the middle of an LGOOD, LCRD, LBAD, LRTY, keepalive or LXU, between header word and command word, with source.ready low, ...)",
    "required behaviour (specification sp_mon of Model/HdrRx.v, restarted by sp_fresh in every down cycle): after a down cycle the queue is empty, "
    "no LBAD is owed, headers are not ignored, the FIRST link command completed is LGOOD carrying (next expected sequence number - 1) "
    "[7 after a USB reset], LCRDs restart at index A and all buffer_count of them are owed; a header arriving in a down cycle is not accepted; "
    "a link command cut off by the link going down is abandoned (its remaining word is not sent after re-entry)",
    "the next expected sequence number survives a disable and is zeroed by usb_reset (as in the gateware)",
    "the partner's credit rules (see C37) are assumed between re-entries",
    "R ties: shrunk configurations of HeaderPacketReceiver's own elaborate() (see props/C37_hdrrx.py): buffer_count 1 and 2 (quick: n = 2 with enable / usb_reset / source.ready free, "
    "which covers a one-cycle restart in the very cycle a non-final LCRD completes), more alphabets in thorough, "
    "stubbed raw receiver; the unmodified HeaderPacketReceiver(buffer_count=4): correspondence + specification monitor over simulator traces with random disables / resets",
    "the raw receiver's parser state is NOT reset by a disable (a header straddling a re-entry is parsed as one header); C38 is about the bookkeeping",
]
TIE_IMPORTS = "From LunaModel Require Import Crc HdrRx HdrRx_proofs HdrRxReentry HdrRxReentry_proofs.\n"


def targets(tier):
    ts = [H.mk_stub(1, 1, 1), H.mk_stub(2, 1, 1), H.mk_full(4)]
    if tier != "quick":
        ts += [H.mk_stub(2, 2, 1), H.mk_stub(4, 3, 2), H.mk_full(2)]
    return ts


def restart_sweep(target, tier):
    """Directed traces: a ONE-cycle usb_reset (link up) or one-cycle drop of enable at every cycle offset of the initial
    advertisement (LGOOD, LCRD A..) and, by a second restart, of the advertisement that follows a re-entry, with
    source.ready always high and with back-pressure (ready every 2nd / every 3rd cycle).  No headers arrive, so the
    partner assumptions hold trivially and every re-entry is judged by the specification."""
    n = target.params["n"]
    span = 3 * (n + 1) + 4
    base = dict(enable=1, usb_reset=0, queue_ready=0, retry_received=0, retry_required=0, keepalive_required=0,
                reject_power_state=0, source_ready=1)
    if target.kind == "stub":
        base.update(new_packet=0, bad_packet=0, bad_sequence=0, packet=0)
    else:
        base.update(sink_valid=1, sink_data=0, sink_ctrl=0)
    periods = (1, 2, 3) if tier != "quick" or target.kind == "stub" else (1, 2)
    out = []
    for period in periods:
        scale = period
        for kind in ("usb_reset", "enable"):
            for off in range(0, span * scale + 2):
                second = off + 2 + (off * 7 + 3) % (span * scale)
                L = second + span * scale + 6
                tr = []
                for t in range(L):
                    c = dict(base)
                    c["source_ready"] = int(t % period == period - 1) if period > 1 else 1
                    if t in (off, second):
                        if kind == "usb_reset": c["usb_reset"] = 1
                        else: c["enable"] = 0
                    tr.append(c)
                out.append(tr)
    return out


def traces(target, rng, tier):
    if target.kind == "stub":
        return H.stub_traces(target, rng, tier, restarts=True) + restart_sweep(target, tier)
    return H.full_traces(target, rng, tier, restarts=True) + restart_sweep(target, tier)


def r_alphabets(t, tier):
    n = t.params["n"]
    flow = ["enable", "usb_reset", "source_ready", "new_packet", "queue_ready", "bad_packet"]
    disp = ["enable", "usb_reset", "source_ready", "retry_required", "keepalive_required", "reject_power_state"]
    out = []
    out.append(("crash", alpha([], ["enable", "usb_reset", "source_ready"]),
                "enable, usb_reset, source.ready free, nothing else happens (the link goes down at any point of the advertisement)"))
    if n == 1:
        out.append(("flow", alpha([], flow), "enable, usb_reset, source.ready, new_packet, queue.ready, bad_packet free"))
        out.append(("disp", alpha([], disp), "enable, usb_reset, source.ready, retry_required, keepalive_required, reject_power_state free"))
        if tier != "quick":
            out.append(("wide", alpha([], flow + ["retry_received", "packet"]),
                        "enable, usb_reset, source.ready, new_packet, queue.ready, bad_packet, retry_received, packet free"))
    elif n == 2 and t.params["sw"] == 2:
        out.append(("flow", alpha([], flow), "enable, usb_reset, source.ready, new_packet, queue.ready, bad_packet free"))
    return out


def obligations(targets, tier):
    obs = []
    for t in targets:
        a = model_args(t)
        core = f"{a['n']} {a['pw']} {a['cw']} {a['sw']} {a['down']}"
        if t.kind == "stub":
            hw = a["hw"]; nb = a["n"]
            alphs = r_alphabets(t, tier)
            # the specification itself, exhaustively (listed first: a violation is then reported against the specification)
            for tag, alph, desc in alphs[:2]:
                obs.append(tie.rmon(
                    f"sp_{t.name}_{tag}", t,
                    mon=f"(sp_monN {a['n']} {a['sw']} {a['down']} 8 (cin_of {hw}) (unpack_cout {hw}))",
                    m0=f"(sp_enc 8 (sp_fresh {a['n']} {a['sw']} 0))", alpha_bits=t_inwidth(t), alphabet=alph, fuel=1000000,
                    describe=f"HeaderPacketReceiver bookkeeping (buffer_count={a['n']}) satisfies the re-entry specification sp_mon on every trace over: {desc}"))
            for tag, alph, desc in alphs:
                obs.append(rlock_alpha(
                    f"ob_{t.name}_{tag}", t, St="core", mstep=f"core_mstep {core} {hw}",
                    enc=f"core_enc {W_STUB}", dec=f"core_dec {W_STUB} {nb}", wf=f"core_wf {W_STUB} {nb}",
                    dec_enc=f"core_dec_enc {W_STUB} {nb}",
                    wf_step=f"core_wf_step' {core} {hw} {W_STUB} {nb} ltac:(lia) ltac:(lia) ltac:(lia) ltac:(lia) ltac:(lia)",
                    m0=f"core_init {a['n']} {a['cw']} {a['sw']}", wf_m0="apply core_wf_init'; (lia || reflexivity).",
                    env=f"core_env {a['n']} {hw}", alphabet=alph, fuel=1000000,
                    describe=f"HeaderPacketReceiver bookkeeping (buffer_count={a['n']}, seq width {a['sw']}, stubbed raw receiver) == model in lock step, "
                             f"every trace over: {desc}"))
            obs.append(tie.corr(f"corr_{t.name}", t, mstep=f"core_mstep {core} {hw}", m0=f"core_init {a['n']} {a['cw']} {a['sw']}",
                                describe="bookkeeping model vs simulator, all inputs random including enable / usb_reset"))
            obs.append(tie.cmon(f"spec_{t.name}", t,
                                mon=f"(sp_monR {a['n']} {a['sw']} {a['down']} 8 {hw})",
                                m0=f"(2 * sp_enc 8 (sp_fresh {a['n']} {a['sw']} 0))",
                                describe="re-entry specification sp_mon as oracle over simulator traces with random disables / resets and a directed "
                                         "sweep of one-cycle resets / disables over every offset of the advertisement (re-synchronised at the next link-down "
                                         "cycle whenever the partner breaks its credit rules)"))
        else:
            obs.append(tie.cmon(f"spec_{t.name}", t, mon=f"(hs_monR {a['n']} 3 {a['down']} 130)",
                                m0=f"(2 * hs_enc 130 (rsx_init, sp_fresh {a['n']} 3 0))",
                                describe="sink-level specification as oracle over simulator traces of the real HeaderPacketReceiver with random disables / resets "
                                         "and a directed sweep of one-cycle resets / disables over every offset of the advertisement, with and without back-pressure "
                                         "(re-synchronised at the next link-down cycle whenever the partner breaks its credit rules)"))
            obs.append(tie.corr(f"corr_{t.name}", t, mstep=f"hr_mstep {core}", m0=f"hr_init {a['n']} {a['cw']} 3",
                                describe=f"complete HeaderPacketReceiver(buffer_count={a['n']}) model vs simulator with random disables / resets"))
    return obs


def t_inwidth(t):
    return 11 + t.params["hw"]


def tie_theorems(targets, tier):
    s = ""
    for t in targets:
        if t.kind != "stub":
            continue
        a = model_args(t); G = t.modname
        core = f"{a['n']} {a['pw']} {a['cw']} {a['sw']} {a['down']}"
        for tag, alph, desc in r_alphabets(t, tier):
            ob = f"ob_{t.name}_{tag}"
            s += f"""
Theorem C38_{t.name}_{tag}_meets_spec : forall tr, Forall (fun i => In i {ob}.alpha) tr ->
  env_ok core (core_mstep {core} {a['hw']}) (core_env {a['n']} {a['hw']}) (core_init {a['n']} {a['cw']} {a['sw']}) tr = true ->
  exists ios, map fst ios = map (cin_of {a['hw']}) tr /\\
              run {G}.step {G}.init tr = map (fun io => pack_cout {a['hw']} (snd io)) ios /\\
              sp_accepts {a['n']} {a['sw']} {a['down']} (sp_fresh {a['n']} {a['sw']} 0) ios = true.
Proof.
  intros tr H HE. exists (core_ios {core} (core_init {a['n']} {a['cw']} {a['sw']}) (map (cin_of {a['hw']}) tr)).
  split; [apply core_ios_inputs|]. split.
  - rewrite ({ob}_T.tie tr H HE). apply core_mrun.
  - apply (core_meets_spec {core}); (reflexivity || lia).
Qed.
"""
    return s


def tie_theorem_names(targets, tier):
    return [f"C38_{t.name}_{tag}_meets_spec" for t in targets if t.kind == "stub" for tag, _, _ in r_alphabets(t, tier)]


LEVEL_TEXT = (
    "Machine-checked proof (Rocq) about the corrected behaviour, plus a confirmed defect of the code as found. (1) C38_restart_is_fresh: from ANY state of the "
    "HeaderPacketReceiver bookkeeping model (every dispatcher state, a link command half sent, LBAD/LRTY/keepalive pending, arbitrary counters) one cycle with "
    "enable low or usb_reset high yields the fresh state (one LGOOD owed carrying expected-1, n LCRDs owed from index A, empty queue, not ignoring, nothing pending, "
    "generator idle); parametric in n, widths. (2) C38_reentry_meets_spec: every continuation (all later inputs, further disables/resets) is accepted by the specification "
    "sp_mon restarted at that sequence number (n = 2^pw, pw, sw <= 4). (3) C38_first_command_is_advertisement: under the specification nothing but LGOOD(expected-1) can complete "
    "before the advertisement. (4) C38_crash_point_sweep (LUNA's n = 4, sw = 3): for all 7 dispatcher x 3 generator states x 8 sequence numbers, disable and USB reset, the quiet "
    "re-entry run emits exactly LGOOD(e-1) [LGOOD 7 after reset], LCRD A..D. (5) Ties: regenerated netlist of the bookkeeping (shrunk configuration) |= sp_mon and == model on all "
    "traces over explicit alphabets in which enable and usb_reset are free in every cycle. On the UNCHANGED tree these ties fail with a replayed counterexample "
    "(findings/C38-restart-missed-outside-dispatch.json): the reset-on-disable block is evaluated only in DISPATCH_COMMAND and on a one-cycle edge; the check passes with findings/C38-restart-missed-outside-dispatch.diff.")
LEVEL_NOTE = (
    "The delivered model is the corrected behaviour (patched gateware): level-sensitive restart in every state, generator reset, header acceptance gated by the link being up, "
    "advertised number recomputed from the expected sequence number. ./check C38 exits 1 (VIOLATION, confirmed on the simulator) on the tree as found and 0 with the patch. "
    "R ties at buffer_count 1 (quick) / 1, 2 (thorough), stubbed raw receiver; n = 4 real receiver by correspondence + runtime oracle with random disables / resets. "
    "Liveness of the advertisement is shown for quiet re-entry runs at LUNA's configuration (computation), not in general. The raw receiver's parser is not reset on re-entry (stated).")
TECHNIQUE = ("Rocq proof: state-universal restart lemma + the C37 simulation restarted; exhaustive crash-point computation; certified product-reachability (specification monitor and lock-step) "
             "against the regenerated netlist with enable / usb_reset free; counterexample search replayed on Amaranth's simulator")
