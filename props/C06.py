"""C06 -- SETUP decoding (luna/gateware/usb/usb2/request.py: USBSetupDecoder, with packet.py: USBDataPacketDeserializer)."""
from harness.core import Target
from harness import tie

PID = "C06"
ASSUMPTIONS = []
TIE_IMPORTS = "From LunaModel Require Import Crc Handshake TokenDet IpTimer SetupDec SetupDec_proofs.\n"

SETUP, OUT, IN, SOF, PING = 0x2D, 0xE1, 0x69, 0xA5, 0xB4
DATA0, DATA1, DATA2, MDATA = 0xC3, 0x4B, 0x87, 0x0F
ACK, NAK = 0xD2, 0x5A


def crc5(v):
    reg = 0x1F
    for k in range(11):
        bit = (v >> k) & 1
        top = (reg >> 4) & 1
        reg = (reg << 1) & 0x1F
        if bit ^ top:
            reg ^= 0x05
    reg ^= 0x1F
    return int(f"{reg:05b}"[::-1], 2)


def crc16(data):
    crc = 0xFFFF
    for b in data:
        for i in range(8):
            fb = (crc & 1) ^ ((b >> i) & 1)
            crc >>= 1
            if fb:
                crc ^= 0xA001
    return crc ^ 0xFFFF


def token(pid, addr=0, ep=0):
    v = addr | (ep << 7)
    return [pid, v & 0xFF, (v >> 8) | (crc5(v) << 3)]


def data(payload, pid=DATA0, bad=False):
    c = crc16(payload)
    if bad:
        c ^= 1 << bad - 1 if isinstance(bad, int) and bad > 0 else 1
    return [pid] + list(payload) + [c & 0xFF, c >> 8]


def mk_setupdec():
    """USBSetupDecoder wired to a token detector, the data CRC unit and an inter-packet timer exactly as USBDevice /
    USBControlEndpoint wire it (USBSetupDecoder(standalone=True) does the same internally, but that scaffolding drives
    data_handler.data_crc.crc twice and cannot be elaborated to a netlist: amaranth DriverConflict)."""
    def build():
        from amaranth import Elaboratable, Module
        from luna.gateware.usb.usb2.request import USBSetupDecoder
        from luna.gateware.usb.usb2.packet import USBTokenDetector, USBDataPacketCRC, USBInterpacketTimer
        from luna.gateware.interface.utmi import UTMIInterface

        class Wired(Elaboratable):
            def __init__(self):
                self.utmi = UTMIInterface()
                self.dec = USBSetupDecoder(utmi=self.utmi)
                self.tok = USBTokenDetector(utmi=self.utmi)
                self.crc = USBDataPacketCRC()
                self.timer = USBInterpacketTimer()
                self.crc.add_interface(self.dec.data_crc)
                self.timer.add_interface(self.dec.timer)

            def elaborate(self, platform):
                m = Module()
                m.submodules.tokenizer = self.tok
                m.submodules.crc = self.crc
                m.submodules.timer = self.timer
                m.submodules.dec = self.dec
                m.d.comb += [
                    self.crc.rx_data.eq(self.utmi.rx_data), self.crc.rx_valid.eq(self.utmi.rx_valid), self.crc.tx_valid.eq(0),
                    self.tok.interface.connect(self.dec.tokenizer),
                    self.timer.speed.eq(self.dec.speed), self.tok.speed.eq(self.dec.speed),
                ]
                return m
        w = Wired(); d = w.dec; u = w.utmi; p = d.packet
        ins = [("rx_active", u.rx_active), ("rx_valid", u.rx_valid), ("rx_data", u.rx_data), ("address", w.tok.address),
               ("speed", d.speed)]
        outs = [("received", p.received), ("recipient", p.recipient), ("type", p.type), ("is_in_request", p.is_in_request),
                ("request", p.request), ("value", p.value), ("index", p.index), ("length", p.length),
                ("ack", d.ack), ("endpoint", d.tokenizer.endpoint)]
        return w, ins, outs
    return Target("setupdec", build)


def targets(tier):
    return [mk_setupdec()]


# ---- stimuli -------------------------------------------------------------------------------------
def rx_packet(rng, bytes_, speed, first_valid=False, gaps=0.0):
    cyc = [dict(rx_active=1, rx_valid=int(first_valid), rx_data=rng.randrange(256), address=0, speed=speed)]
    for b in bytes_:
        while rng.random() < gaps:
            cyc.append(dict(rx_active=1, rx_valid=0, rx_data=rng.randrange(256), address=0, speed=speed))
        cyc.append(dict(rx_active=1, rx_valid=1, rx_data=b, address=0, speed=speed))
    while rng.random() < gaps:
        cyc.append(dict(rx_active=1, rx_valid=0, rx_data=rng.randrange(256), address=0, speed=speed))
    return cyc


def idle(n, speed):
    return [dict(rx_active=0, rx_valid=0, rx_data=0, address=0, speed=speed) for _ in range(n)]


def rand_payload(rng, n):
    return [rng.choice([0, 0x80, 6, 1, 0xFF, rng.randrange(256)]) for _ in range(n)]


def junk_packet(rng):
    """a packet that is not a SETUP transaction part: corrupted / aborted / unrelated"""
    r = rng.random()
    if r < 0.2:
        return data(rand_payload(rng, rng.choice([0, 1, 3, 8, 8, 8])), pid=rng.choice([DATA0, DATA1]), bad=rng.randint(1, 16))
    if r < 0.3:
        return data(rand_payload(rng, rng.choice([0, 1, 2, 7, 9, 10, 12])), pid=rng.choice([DATA0, DATA1]))
    if r < 0.4:
        return data(rand_payload(rng, 8))[:rng.randint(1, 10)]            # aborted data packet
    if r < 0.5:
        return [rng.choice([ACK, NAK])]
    if r < 0.65:
        return token(rng.choice([OUT, IN, PING, SETUP]), addr=rng.choice([0, 0, 5]), ep=rng.choice([0, 1]))
    if r < 0.75:
        return token(SOF, addr=rng.randrange(128), ep=rng.randrange(16))
    if r < 0.85:
        t = token(SETUP); t[rng.randrange(3)] ^= 1 << rng.randrange(8); return t
    return [rng.randrange(256) for _ in range(rng.randint(0, 13))]


def gen_trace(rng, mode):
    speed = rng.choice([0, 1])
    gap = lambda: idle(rng.choice([1, 2, 3, 15]) if speed == 0 else rng.choice([1, 2, 14, 15]), speed)
    gaps = 0.3 if mode == 2 else 0.0
    fv = lambda: mode == 1 and rng.random() < 0.5
    tr = idle(rng.randint(0, 3), speed)
    for _ in range(rng.randint(1, 5)):
        for _ in range(rng.choice([0, 0, 1, 1, 2])):
            tr += rx_packet(rng, junk_packet(rng), speed, fv(), gaps) + gap()
        if rng.random() < 0.4:      # an aborted packet directly before the SETUP token
            tr += rx_packet(rng, truncated_packet(rng), speed, fv(), gaps) + idle(rng.choice([1, 2, 3]), speed)
        r = rng.random()
        tr += rx_packet(rng, token(SETUP, ep=rng.choice([0, 0, 0, 3])), speed, fv(), gaps) + gap()
        if r < 0.15:        # corrupted data stage, host retries
            tr += rx_packet(rng, data(rand_payload(rng, 8), bad=rng.randint(1, 16)), speed, fv(), gaps) + idle(14, speed)
            tr += rx_packet(rng, token(SETUP), speed, fv(), gaps) + gap()
        elif r < 0.25:      # unrelated packet between token and data
            tr += rx_packet(rng, junk_packet(rng), speed, fv(), gaps) + gap()
        elif r < 0.32:      # data stage cut off (bare PID ... one CRC byte missing), then the real transaction after a new token
            full = data(rand_payload(rng, 8), pid=rng.choice([DATA0, DATA1]))
            tr += rx_packet(rng, full[:rng.choice([1, 1, 2, 3, rng.randint(1, 10)])], speed, fv(), gaps) + idle(rng.choice([14, 16]), speed)
            tr += rx_packet(rng, token(SETUP), speed, fv(), gaps) + gap()
        elif r < 0.45:      # over-long data stage (valid setup packet + extra bytes), then the real one after a new token
            tr += rx_packet(rng, overlong_packet(rng), speed, fv(), gaps) + idle(rng.choice([14, 16]), speed)
            tr += rx_packet(rng, token(SETUP), speed, fv(), gaps) + gap()
        tr += rx_packet(rng, data(rand_payload(rng, 8), pid=rng.choice([DATA0, DATA0, DATA1])), speed, fv(), gaps)
        tr += idle(rng.choice([14, 15, 20]), speed)
    return tr


REF_SETUP = [0x80, 0x06, 0x00, 0x01, 0x00, 0x00, 0x40, 0x00]       # GET_DESCRIPTOR(DEVICE), 64 bytes


def directed(rng):
    """short directed histories: a corrupted / aborted / unrelated packet before a valid SETUP transaction"""
    out = []
    for speed in (0, 1):
        pk = lambda b: rx_packet(rng, b, speed)
        tail = idle(16, speed)
        # a corrupted data packet (3 payload bytes), then a valid SETUP transaction
        out.append(idle(1, speed) + pk(data([1, 2, 3], bad=1)) + idle(3, speed) + pk(token(SETUP)) + idle(2, speed) + pk(data(REF_SETUP)) + tail)
        # SETUP whose data stage is corrupted, then the host's retry
        out.append(idle(1, speed) + pk(token(SETUP)) + idle(2, speed) + pk(data(REF_SETUP, bad=9)) + idle(16, speed)
                   + pk(token(SETUP)) + idle(2, speed) + pk(data(REF_SETUP)) + tail)
        # aborted data packet, OUT transaction to another endpoint, then SETUP
        out.append(pk(data(REF_SETUP)[:5]) + idle(2, speed) + pk(token(OUT, ep=2)) + idle(2, speed) + pk(data([9] * 4, pid=DATA1)) + idle(16, speed)
                   + pk(token(SETUP)) + idle(2, speed) + pk(data(REF_SETUP)) + tail)
        # plain valid SETUP, short SETUP payload, SETUP to a foreign address
        out.append(pk(token(SETUP)) + idle(2, speed) + pk(data(REF_SETUP)) + tail + pk(token(SETUP)) + idle(2, speed) + pk(data(REF_SETUP[:7])) + tail
                   + pk(token(SETUP, addr=5)) + idle(2, speed) + pk(data(REF_SETUP)) + tail)
        # over-long data stage: a complete valid setup data packet (8 bytes + CRC16) followed by 1..5 extra bytes,
        # without and with a valid CRC16 over the whole thing; never a setup request, no ACK
        good = data(REF_SETUP)
        for k in (1, 2, 3, 5):
            ex = [rng.randrange(256) for _ in range(k)]
            out.append(idle(1, speed) + pk(token(SETUP)) + idle(2, speed) + pk(good + ex) + tail)
            out.append(idle(1, speed) + pk(token(SETUP)) + idle(2, speed) + pk(data(good[1:] + ex)) + tail
                       + pk(token(SETUP)) + idle(2, speed) + pk(good) + tail)
        # the packet before a valid SETUP transaction is cut off at EVERY byte position: tokens after the PID / one byte /
        # two bytes, data packets after the PID / mid-payload / after one CRC byte, a handshake, an empty run
        good = data(REF_SETUP)
        cuts = []
        for tk in (token(OUT, ep=1), token(SETUP), token(IN), token(PING), token(SOF, addr=0x23, ep=4)):
            cuts += [tk[:1], tk[:2], tk[:3]]
        cuts += [good[:k] for k in range(1, len(good))] + [[ACK], [NAK], []]
        for c in cuts:
            out.append(idle(1, speed) + pk(c) + idle(rng.choice([1, 2, 3]), speed)
                       + pk(token(SETUP)) + idle(2, speed) + pk(good) + tail)
        # the DATA STAGE itself is cut off: SETUP token followed by a data packet truncated at every length (bare PID, PID + 1 byte,
        # ... , one CRC byte missing), straight after reset and after a complete valid SETUP transaction (stale CRC registers
        # equal); never a setup request, no ACK; a following complete transaction is reported
        for pre in ([], pk(token(SETUP)) + idle(2, speed) + pk(good) + tail):
            for pid in (DATA0, DATA1):
                full = data(REF_SETUP, pid=pid)
                for k in range(1, len(full)):
                    out.append(idle(1, speed) + pre + pk(token(SETUP)) + idle(2, speed) + pk(full[:k]) + tail
                               + (pk(token(SETUP)) + idle(2, speed) + pk(good) + tail if k % 3 == 1 else []))
    return out


def truncated_packet(rng):
    """a token / data / handshake packet aborted at a random byte position (possibly complete)"""
    base = rng.choice([token(rng.choice([OUT, IN, SETUP, PING]), ep=rng.choice([0, 1])), token(SOF, addr=rng.randrange(128), ep=rng.randrange(16)),
                       data(rand_payload(rng, rng.choice([0, 3, 8]))), [rng.choice([ACK, NAK])]])
    return base[:rng.randint(0, len(base))]


def overlong_packet(rng):
    """valid 8-byte data packet followed by extra bytes (optionally with a valid overall CRC)"""
    good = data(rand_payload(rng, 8), pid=rng.choice([DATA0, DATA1]))
    ex = [rng.randrange(256) for _ in range(rng.randint(1, 5))]
    return good + ex if rng.random() < 0.5 else data(good[1:] + ex, pid=good[0])


def traces(target, rng, tier):
    n = 40 if tier == "quick" else 300
    return directed(rng) + [gen_trace(rng, k % 3) for k in range(n)]


def sweeps(tier):
    """exhaustive single-transaction sweeps from reset: (name, Coq index -> trace function, index bits, what)"""
    return [("setup_bytes_hs", "sweep_setup_byte 0", 11,
             "high speed: SETUP token + DATA0 with each of the 8 setup bytes taking all 256 values (correct CRC16)"),
            ("setup_crcflip_fs", "sweep_setup_crcflip 1", 4,
             "full speed: SETUP token + DATA0 with each single CRC16 bit flipped"),
            ("setup_extra_hs", "sweep_setup_extra 0", 10,
             "high speed: SETUP token + a complete valid setup data packet followed by 1..4 copies of each of the 256 byte values"),
            ("abort_then_setup_hs", "sweep_abort_then_setup 0", 10,
             "high speed: a packet aborted after PID+1 byte (OUT, SETUP), any single byte, or IN+2 equal bytes, for all 256 byte values, "
             "directly before a valid SETUP transaction"),
            ("setup_runt_hs", "sweep_setup_runt 0", 6,
             "high speed: SETUP token + a packet consisting of a bare PID byte (all 16 PIDs) or PID + one byte, straight after reset and "
             "after a complete valid SETUP transaction"),
            ("setup_runt_fs", "sweep_setup_runt 1", 6, "full speed: the same")] + \
           ([("setup_bytes_fs", "sweep_setup_byte 1", 11, "full speed: same byte sweep, incl. the delayed ACK")]
            if tier != "quick" else [])


def obligations(targets, tier):
    t = targets[0]
    return [tie.cmon("spec_setupdec", t, mon="sm_mon", m0="(sm_enc sm_init)",
                     describe="specification monitor sm_step (received / setup bytes / ack / endpoint, every cycle) over simulator traces of "
                              "USBSetupDecoder wired to USBTokenDetector + USBDataPacketCRC + USBInterpacketTimer"),
            tie.corr("corr_setupdec", t, mstep="c6_step true true", m0="c6_init",
                     describe="the same netlist vs the corrected model c6_step true true, every output every cycle")]


def tie_theorems(targets, tier):
    G = targets[0].modname
    s = ""
    for name, fn, w, what in sweeps(tier):
        s += f"""
Lemma C06_sweep_{name}_ok : c6_sweep_eq {G}.step {G}.init {w} ({fn}) = true.
Proof. vm_cast_no_check (@eq_refl bool true). Qed.
Theorem C06_sweep_{name} : forall x, x < 2 ^ N.of_nat {w} ->
  run {G}.step {G}.init ({fn} x) = run (c6_step true true) c6_init ({fn} x).
Proof. exact (c6_sweep_sound _ _ _ _ C06_sweep_{name}_ok). Qed.
"""
    return s


def tie_theorem_names(targets, tier):
    return [f"C06_sweep_{n}" for n, _, _, _ in sweeps(tier)]


ASSUMPTIONS[:] = [
    "target: USBSetupDecoder (with its USBDataPacketDeserializer, max_packet_size 8) wired to USBTokenDetector, USBDataPacketCRC and a "
    "USBInterpacketTimer(60 MHz, HS-capable) exactly as USBDevice/USBControlEndpoint wire them; USBSetupDecoder(standalone=True) itself "
    "cannot be elaborated to a netlist by amaranth 0.5.9 (DriverConflict on data_handler.data_crc.crc: the standalone scaffolding drives it "
    "from the internal CRC unit and from self.data_crc.connect)",
    "UTMI receive convention of C01/C04 (packet = maximal rx_active run, bytes at rx_valid except the run's first cycle); no assumption on "
    "rx_active/rx_valid/rx_data/address",
    "environment assumption of the specification (monitor returns None, nothing is claimed from that cycle on): speed is constant and HIGH or "
    "FULL (LOW is excluded: the timer's low-speed table is C05's finding); at full speed no packet completes during the 11 cycles in which "
    "the ACK is delayed (one full-speed byte takes 40 cycles at 60 MHz)",
    "reading of 'followed by': event level, as DESIGN.md -- the SETUP token event must be the last token event for this device before the data "
    "packet; packets that produce no event (handshakes, foreign-address tokens, SOF, CRC-corrupted or over-long data packets, garbage) in "
    "between do not cancel it; a CRC-valid data packet of another length does; a data packet cut off before its CRC field may or may not "
    "(explicit don't-care A_q: the deserializer compares stale CRC registers), until the next token event",
    "the control endpoint's gate `received & (tokenizer.endpoint == endpoint_number)` is not inside USBSetupDecoder: the endpoint output is "
    "checked every cycle to be C01's tokenizer endpoint, i.e. the endpoint of the SETUP token; USBControlEndpoint itself is C07's subject. "
    "Observation (not claimed as a defect here): setup_decoder.ack is NOT gated by endpoint_targeted in USBControlEndpoint, so a SETUP to "
    "another endpoint of the device is ACKed by the control endpoint",
    "timer: a private USBInterpacketTimer started only by the decoder (as in standalone mode); in USBDevice the timer is shared with other "
    "users, which can only restart it",
    "no kernel-checked netlist tie for all traces: the deserializer's CRC register absorbs every rx_valid byte in every state, so even tiny "
    "byte alphabets reach ~2^16 CRC values times the buffers; the tie is simulator correspondence + the specification monitor on directed and "
    "random histories, plus exhaustive single-transaction sweeps of the regenerated netlist from reset (kernel-checked)",
]

LEVEL_TEXT = ("Machine-checked proof about the hand model, correspondence to the code. (1) For every input history the corrected model "
              "(c6_step true true: decoder FSM + 8-byte deserializer + CRC16 unit + token detector + timer) is accepted in every cycle by the "
              "specification monitor sm_step, which fixes received, the 8 setup bytes (little-endian), ack and the endpoint from the packet-level "
              "history (C06_model_meets_spec; simulation relation c6_rel incl. the deserializer's CRC bookkeeping against crc16_usb). "
              "(2) C06_setup_never_missed: after ANY history, a well-formed SETUP token for the device followed (after any idle gap, any rx_valid "
              "pattern) by a DATAx packet with 8 bytes and correct CRC16 is reported: received two cycles after rx_active falls with exactly "
              "those bytes, ack one cycle after at high speed; C06_fs_ack_timing: at full speed the ack comes exactly 12 cycles after rx_active "
              "falls (10 cycles = 2 bit times after the timer restart), not before. (3) C06_received_sound: received is raised only for such a "
              "packet while a SETUP was the last token event. (4) The netlist regenerated from /repo equals the corrected model on exhaustive "
              "single-transaction sweeps from reset (C06_sweep_*) and, by simulator correspondence and the monitor, on directed and random "
              "histories. ON THE UNCHANGED TREE THE CHECK FAILS (two defects, findings/C06-*.json/.diff: the deserializer hangs after a CRC "
              "mismatch; a retried SETUP token is dropped); it passes with findings/C06-both-fixes.diff. Examples C06_refuted_as_found_1/2 show "
              "the as-found model violating the property on the replayed histories.")
LEVEL_NOTE = ("Trusted: Coq kernel + vm_compute, Amaranth elaboration, nir2coq.py/Netlist.v (validated each run against pysim). The unbounded "
              "theorems are about the hand model; model = code is tied by correspondence (not a proof) and by bounded sweeps. Environment: speed "
              "constant HIGH/FULL, no packet completion during the full-speed ACK delay. The specification has an explicit don't-care (A_q) after "
              "a data packet cut off before its CRC field while a SETUP is pending. Low speed is excluded (C05's finding).")
TECHNIQUE = ("Rocq proof: simulation relation between the composed FSM model and a packet-level specification monitor (induction over the trace), "
             "CRC16 bookkeeping against the bit-serial reference; simulator correspondence + monitor + exhaustive vm_compute sweeps of the regenerated netlist")
