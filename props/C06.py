"""C06 -- SETUP decoding (luna/gateware/usb/usb2/request.py: USBSetupDecoder, with packet.py: USBDataPacketDeserializer)."""
from harness.core import Target
from harness import tie

PID = "C06"
ASSUMPTIONS = ["in progress"]
TIE_IMPORTS = "From LunaModel Require Import Crc Handshake TokenDet IpTimer SetupDec SetupDec_proofs.\n"

SETUP, OUT, IN, SOF, PING = 0x2D, 0xE1, 0x69, 0xA5, 0xB4
DATA0, DATA1, DATA2, MDATA = 0xC3, 0x4B, 0x87, 0x0F
ACK, NAK = 0xD2, 0x5A


def crc5(v):
    reg = 0x1F
    for k in range(11):
        bit = (v >> k) & 1
        top = (reg >> 4) & 1
        reg = (reg << 1) & 0x1F
        if bit ^ top:
            reg ^= 0x05
    reg ^= 0x1F
    return int(f"{reg:05b}"[::-1], 2)


def crc16(data):
    crc = 0xFFFF
    for b in data:
        for i in range(8):
            fb = (crc & 1) ^ ((b >> i) & 1)
            crc >>= 1
            if fb:
                crc ^= 0xA001
    return crc ^ 0xFFFF


def token(pid, addr=0, ep=0):
    v = addr | (ep << 7)
    return [pid, v & 0xFF, (v >> 8) | (crc5(v) << 3)]


def data(payload, pid=DATA0, bad=False):
    c = crc16(payload)
    if bad:
        c ^= 1 << bad - 1 if isinstance(bad, int) and bad > 0 else 1
    return [pid] + list(payload) + [c & 0xFF, c >> 8]


def mk_setupdec():
    """USBSetupDecoder wired to a token detector, the data CRC unit and an inter-packet timer exactly as USBDevice /
    USBControlEndpoint wire it (USBSetupDecoder(standalone=True) does the same internally, but that scaffolding drives
    data_handler.data_crc.crc twice and cannot be elaborated to a netlist: amaranth DriverConflict)."""
    def build():
        from amaranth import Elaboratable, Module
        from luna.gateware.usb.usb2.request import USBSetupDecoder
        from luna.gateware.usb.usb2.packet import USBTokenDetector, USBDataPacketCRC, USBInterpacketTimer
        from luna.gateware.interface.utmi import UTMIInterface

        class Wired(Elaboratable):
            def __init__(self):
                self.utmi = UTMIInterface()
                self.dec = USBSetupDecoder(utmi=self.utmi)
                self.tok = USBTokenDetector(utmi=self.utmi)
                self.crc = USBDataPacketCRC()
                self.timer = USBInterpacketTimer()
                self.crc.add_interface(self.dec.data_crc)
                self.timer.add_interface(self.dec.timer)

            def elaborate(self, platform):
                m = Module()
                m.submodules.tokenizer = self.tok
                m.submodules.crc = self.crc
                m.submodules.timer = self.timer
                m.submodules.dec = self.dec
                m.d.comb += [
                    self.crc.rx_data.eq(self.utmi.rx_data), self.crc.rx_valid.eq(self.utmi.rx_valid), self.crc.tx_valid.eq(0),
                    self.tok.interface.connect(self.dec.tokenizer),
                    self.timer.speed.eq(self.dec.speed), self.tok.speed.eq(self.dec.speed),
                ]
                return m
        w = Wired(); d = w.dec; u = w.utmi; p = d.packet
        ins = [("rx_active", u.rx_active), ("rx_valid", u.rx_valid), ("rx_data", u.rx_data), ("address", w.tok.address),
               ("speed", d.speed)]
        outs = [("received", p.received), ("recipient", p.recipient), ("type", p.type), ("is_in_request", p.is_in_request),
                ("request", p.request), ("value", p.value), ("index", p.index), ("length", p.length),
                ("ack", d.ack), ("endpoint", d.tokenizer.endpoint)]
        return w, ins, outs
    return Target("setupdec", build)


def targets(tier):
    return [mk_setupdec()]


# ---- stimuli -------------------------------------------------------------------------------------
def rx_packet(rng, bytes_, speed, first_valid=False, gaps=0.0):
    cyc = [dict(rx_active=1, rx_valid=int(first_valid), rx_data=rng.randrange(256), address=0, speed=speed)]
    for b in bytes_:
        while rng.random() < gaps:
            cyc.append(dict(rx_active=1, rx_valid=0, rx_data=rng.randrange(256), address=0, speed=speed))
        cyc.append(dict(rx_active=1, rx_valid=1, rx_data=b, address=0, speed=speed))
    while rng.random() < gaps:
        cyc.append(dict(rx_active=1, rx_valid=0, rx_data=rng.randrange(256), address=0, speed=speed))
    return cyc


def idle(n, speed):
    return [dict(rx_active=0, rx_valid=0, rx_data=0, address=0, speed=speed) for _ in range(n)]


def rand_payload(rng, n):
    return [rng.choice([0, 0x80, 6, 1, 0xFF, rng.randrange(256)]) for _ in range(n)]


def junk_packet(rng):
    """a packet that is not a SETUP transaction part: corrupted / aborted / unrelated"""
    r = rng.random()
    if r < 0.2:
        return data(rand_payload(rng, rng.choice([0, 1, 3, 8, 8, 8])), pid=rng.choice([DATA0, DATA1]), bad=rng.randint(1, 16))
    if r < 0.3:
        return data(rand_payload(rng, rng.choice([0, 1, 2, 7, 9, 10, 12])), pid=rng.choice([DATA0, DATA1]))
    if r < 0.4:
        return data(rand_payload(rng, 8))[:rng.randint(1, 10)]            # aborted data packet
    if r < 0.5:
        return [rng.choice([ACK, NAK])]
    if r < 0.65:
        return token(rng.choice([OUT, IN, PING, SETUP]), addr=rng.choice([0, 0, 5]), ep=rng.choice([0, 1]))
    if r < 0.75:
        return token(SOF, addr=rng.randrange(128), ep=rng.randrange(16))
    if r < 0.85:
        t = token(SETUP); t[rng.randrange(3)] ^= 1 << rng.randrange(8); return t
    return [rng.randrange(256) for _ in range(rng.randint(0, 13))]


def gen_trace(rng, mode):
    speed = rng.choice([0, 1])
    gap = lambda: idle(rng.choice([1, 2, 3, 15]) if speed == 0 else rng.choice([1, 2, 14, 15]), speed)
    gaps = 0.3 if mode == 2 else 0.0
    fv = lambda: mode == 1 and rng.random() < 0.5
    tr = idle(rng.randint(0, 3), speed)
    for _ in range(rng.randint(1, 5)):
        for _ in range(rng.choice([0, 0, 1, 1, 2])):
            tr += rx_packet(rng, junk_packet(rng), speed, fv(), gaps) + gap()
        r = rng.random()
        tr += rx_packet(rng, token(SETUP, ep=rng.choice([0, 0, 0, 3])), speed, fv(), gaps) + gap()
        if r < 0.15:        # corrupted data stage, host retries
            tr += rx_packet(rng, data(rand_payload(rng, 8), bad=rng.randint(1, 16)), speed, fv(), gaps) + idle(14, speed)
            tr += rx_packet(rng, token(SETUP), speed, fv(), gaps) + gap()
        elif r < 0.25:      # unrelated packet between token and data
            tr += rx_packet(rng, junk_packet(rng), speed, fv(), gaps) + gap()
        tr += rx_packet(rng, data(rand_payload(rng, 8), pid=rng.choice([DATA0, DATA0, DATA1])), speed, fv(), gaps)
        tr += idle(rng.choice([14, 15, 20]), speed)
    return tr


REF_SETUP = [0x80, 0x06, 0x00, 0x01, 0x00, 0x00, 0x40, 0x00]       # GET_DESCRIPTOR(DEVICE), 64 bytes


def directed(rng):
    """short directed histories: a corrupted / aborted / unrelated packet before a valid SETUP transaction"""
    out = []
    for speed in (0, 1):
        pk = lambda b: rx_packet(rng, b, speed)
        tail = idle(16, speed)
        # a corrupted data packet (3 payload bytes), then a valid SETUP transaction
        out.append(idle(1, speed) + pk(data([1, 2, 3], bad=1)) + idle(3, speed) + pk(token(SETUP)) + idle(2, speed) + pk(data(REF_SETUP)) + tail)
        # SETUP whose data stage is corrupted, then the host's retry
        out.append(idle(1, speed) + pk(token(SETUP)) + idle(2, speed) + pk(data(REF_SETUP, bad=9)) + idle(16, speed)
                   + pk(token(SETUP)) + idle(2, speed) + pk(data(REF_SETUP)) + tail)
        # aborted data packet, OUT transaction to another endpoint, then SETUP
        out.append(pk(data(REF_SETUP)[:5]) + idle(2, speed) + pk(token(OUT, ep=2)) + idle(2, speed) + pk(data([9] * 4, pid=DATA1)) + idle(16, speed)
                   + pk(token(SETUP)) + idle(2, speed) + pk(data(REF_SETUP)) + tail)
        # plain valid SETUP, short SETUP payload, SETUP to a foreign address
        out.append(pk(token(SETUP)) + idle(2, speed) + pk(data(REF_SETUP)) + tail + pk(token(SETUP)) + idle(2, speed) + pk(data(REF_SETUP[:7])) + tail
                   + pk(token(SETUP, addr=5)) + idle(2, speed) + pk(data(REF_SETUP)) + tail)
    return out


def traces(target, rng, tier):
    n = 40 if tier == "quick" else 300
    return directed(rng) + [gen_trace(rng, k % 3) for k in range(n)]


FA = "true"; FB = "true"


def obligations(targets, tier):
    t = targets[0]
    return [tie.cmon("spec_setupdec", t, mon="sm_mon", m0="(sm_enc sm_init)", describe="specification monitor sm_step over simulator traces"),
            tie.corr("corr_asfound", t, mstep=f"c6_step {FA} {FB}", m0="c6_init",
                     describe="USBSetupDecoder(standalone=True) vs the model of the code as found")]


def tie_theorems(targets, tier):
    return ""


def tie_theorem_names(targets, tier):
    return []


LEVEL_TEXT = "in progress"
LEVEL_NOTE = "in progress"
TECHNIQUE = "in progress"
