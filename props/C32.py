"""C32 -- receive clock-tolerance compensation removes exactly the SKP symbols
(luna/gateware/usb/usb3/physical/ctc.py: CTCSkipRemover)."""
from harness.core import Target
from harness import tie
from harness import tie_ss

PID = "C32"

SKP, COM, EPF = 0x13C, 0x1BC, 0x1F7           # symbols as data + 256*ctrl
# R alphabets: every 4-symbol word over {SKP, a, b} (81 valid words; SKPs at any byte positions), with
# a, b chosen so that a SKP look-alike is present: 0x3C as plain data (ctrl = 0) and a K-symbol that is not SKP.
ALPHABETS = {
    "skp_com_d3c": [SKP, COM, 0x03C],
    "skp_d00_dff": [SKP, 0x000, 0x0FF],
    "skp_epf_d3d": [SKP, EPF, 0x03D],
}

ASSUMPTIONS = [
    "environment: source.ready = 1 in every cycle (the physical layer never back-pressures the remover); sink.valid, "
    "data, ctrl and the SKP positions are unconstrained",
    "parametric theorems (Properties/C32.v) hold for every word size W >= 1 and every trace length; the code fixes W = 4",
    "R tie: the netlist regenerated from /repo equals the model on ALL traces whose words are drawn from a 3-symbol alphabet "
    "{SKP, a, b} (all 81 valid words + invalid words), for the alphabets listed in obligation_list; full-width random data "
    "(including source.ready = 0 phases, where the model is still cycle-exact) is covered by correspondence, not proof",
    "outputs are compared after masking data/ctrl while source.valid = 0 (the property does not observe them)",
]
TIE_IMPORTS = "From LunaLib Require Import SymWord.\nFrom LunaModel Require Import SkipRemover SkipRemover_proofs.\n"


def mk():
    def build():
        from luna.gateware.usb.usb3.physical.ctc import CTCSkipRemover
        d = CTCSkipRemover()
        return (d,
                [("data", d.sink.data), ("ctrl", d.sink.ctrl), ("valid", d.sink.valid), ("ready", d.source.ready)],
                [("o_data", d.source.data), ("o_ctrl", d.source.ctrl), ("o_valid", d.source.valid)])
    return Target("ctc", build)


def targets(tier):
    return [mk()]


# ---------------------------------------------------------------------------------------------
def _word(rng, p_skp, pool):
    data = 0; ctrl = 0
    for k in range(4):
        if rng.random() < p_skp:
            s = SKP
        else:
            s = rng.choice(pool)(rng)
        data |= (s & 0xFF) << (8 * k); ctrl |= (s >> 8) << k
    return data, ctrl


POOL = [
    lambda r: r.randrange(256),                 # data byte
    lambda r: r.randrange(256),
    lambda r: r.randrange(256),
    lambda r: 0x03C,                            # SKP's byte as plain data
    lambda r: 0x100 | r.randrange(256),         # some K symbol
    lambda r: r.choice([COM, EPF, 0x1FE, 0x1FB, 0x13D, 0x17C]),
]


def traces(target, rng, tier):
    n = 40 if tier == "quick" else 300
    out = []
    # the stimuli of tests/test_usb3_ctc.py
    for seq in ([(0xAABBCCDD, 0), (0x71BA3C3C, 3), (0x11223344, 12), (0x11223344, 12), (0x11223344, 12)],
                [(0xAABBCCDD, 0), (0x713C3CBA, 6), (0x113C3C44, 6), (0x55667788, 0), (0x55667788, 0)],
                [(0xAABBCCDD, 0), (0x3C556677, 8), (0x11223344, 12), (0x11223344, 12), (0x11223344, 12)],
                [(0xAABBCCDD, 0), (0x3C556677, 8), (0x1122333C, 1), (0x44556677, 0), (0x44556677, 0)]):
        out.append([dict(data=d, ctrl=c, valid=1, ready=1) for d, c in seq])
    for k in range(n):
        p_skp = rng.choice([0.0, 0.1, 0.3, 0.6, 0.9])
        p_valid = rng.choice([1.0, 1.0, 0.8, 0.3])
        always_ready = (k % 5 != 4)             # every fifth trace also exercises back-pressure
        L = rng.choice([1, 2, 3, 4, 5, 7, 8, 9, 16, 40, 90])
        tr = []
        for _ in range(L):
            if rng.random() < 0.08:             # a run of pure SKP words (SKP ordered sets)
                for _ in range(rng.randint(1, 4)):
                    tr.append(dict(data=0x3C3C3C3C, ctrl=0xF, valid=1, ready=1 if always_ready else rng.randint(0, 1)))
            d, c = _word(rng, p_skp, POOL)
            tr.append(dict(data=d, ctrl=c, valid=int(rng.random() < p_valid),
                           ready=1 if always_ready else int(rng.random() < 0.7)))
        out.append(tr)
    return out


def _syms(name):
    return "[" + "; ".join(str(s) for s in ALPHABETS[name]) + "]"


def _alpha_names(tier):
    return ["skp_com_d3c"] if tier == "quick" else list(ALPHABETS)


QUICK_ENV = "ctc_env_marked 4 60 2"     # quick tier: at most two markers (data 0x3C) inside the buffer window + incoming word


def _env(tier):
    return QUICK_ENV if tier == "quick" else "(fun _ _ => true)"


def obligations(targets, tier):
    t = targets[0]
    obs = []
    for a in _alpha_names(tier):
        # thorough: the first alphabet with every invalid word too, the others with the uniform invalid words only
        alpha = (f"ctc_alphabet 4 {_syms(a)}" if (tier != "quick" and a == "skp_com_d3c") else f"ctc_alphabet_small 4 {_syms(a)}")
        extra = (" in which the marker symbol 0x3c (data) occurs at most twice among the 8 buffer positions and the incoming word"
                 if tier == "quick" else "")
        obs.append(tie_ss.rlock_alpha(
            f"ob_ctc_{a}", t,
            St="ctc_state", mstep="ctc_mstep 4", enc="ctc_enc", dec="ctc_dec 4",
            wf="ctc_wf 4", dec_enc="ctc_dec_enc 4 ctc_cw4", wf_step="ctc_wf_step 4",
            m0="ctc_init 4", wf_m0="apply ctc_wf_init.",
            alphabet=alpha, norm="ctc_norm 4", env=_env(tier), fuel=5000,
            describe=f"CTCSkipRemover == shift-register model on all traces of words over symbols {[hex(s) for s in ALPHABETS[a]]} "
                     f"(SKP at any byte positions, valid or not, downstream ready)" + extra))
    obs.append(tie.corr("corr_ctc", t, mstep="ctc_mstep 4", m0="ctc_init 4", norm="ctc_norm 4",
                        describe="model vs simulator, full-width random symbols, SKP bursts, sink.valid gaps and source.ready stalls"))
    return obs


def tie_theorems(targets, tier):
    G = targets[0].modname
    env = _env(tier)
    s = ""
    for a in _alpha_names(tier):
        ob = f"ob_ctc_{a}"
        s += f"""
Theorem C32_{ob} : forall tr, Forall (fun i => In i {ob}.alpha) tr ->
  env_ok ctc_state (ctc_mstep 4) ({env}) (ctc_init 4) tr = true ->
  map (ctc_norm 4) (run {G}.step {G}.init tr) = map (ctc_eout 4) (trun (sp_step 4) [] (map (ctc_din 4) tr)) /\\
  exists pending, (length pending < 8)%nat /\\
    out_stream (map (ctc_dout 4) (run {G}.step {G}.init tr)) ++ pending = keep (in_stream (map (ctc_din 4) tr)).
Proof.
  intros tr H HE.
  assert (HR : Forall (ready_bit 4) tr).
  {{ eapply Forall_impl; [|exact H]. intros i Hi.
    assert (HA : forallb (fun i => N.testbit i 37) {ob}.alpha = true) by (vm_compute; reflexivity).
    rewrite forallb_forall in HA. exact (HA i Hi). }}
  pose proof ({ob}_T.tie tr H HE) as T. unfold {ob}.norm in T.
  split.
  - rewrite T. apply ctc_packed_refines; [lia | exact HR].
  - destruct (ctc_packed_stream 4 ltac:(lia) tr HR) as (p & Hp & He). exists p. split; [exact Hp|].
    rewrite <- He, <- T, map_map. f_equal. f_equal. apply map_ext. intros o. symmetry. apply dout_norm.
Qed.
"""
    return s


def tie_theorem_names(targets, tier):
    return [f"C32_ob_ctc_{a}" for a in _alpha_names(tier)]


LEVEL_TEXT = ("Machine-checked proof. (1) For every word size W >= 1 and every input history with source.ready = 1 (any data, any "
              "sink.valid gaps, SKPs at any positions, any number of consecutive SKP words), the code-shaped model of CTCSkipRemover "
              "(2W-symbol shift register + fill counter of the real width) is cycle-exactly equal to an unbounded symbol FIFO that "
              "appends the non-SKP symbols of each valid word and emits the oldest W symbols whenever at least W are queued "
              "(C32_ctc_refines_fifo, simulation relation + induction); hence the emitted symbols followed by the < 2W still queued "
              "are exactly the input symbols with every SKP removed, in order, nothing lost or duplicated, in full W-symbol words "
              "(C32_ctc_stream, and C32_ctc_packed_stream for the bit-packed machine). (2) The netlist regenerated from /repo is proved "
              "equal to that packed model on all traces over 3-symbol alphabets {SKP,a,b} (all 81 SKP/non-SKP word shapes) by certified "
              "product reachability, giving C32_ob_ctc_<alphabet>: netlist output stream = SKP-filtered input stream.")
LEVEL_NOTE = ("Trusted: Coq kernel + vm_compute, Amaranth elaboration, nir2coq.py/Netlist.v (validated each run against pysim). "
              "The netlist tie is a theorem only for words over the listed 3-symbol alphabets (quick: {SKP, COM, data 0x3C} restricted to traces with at most two 0x3C "
              "markers inside the 8-symbol buffer window at any time; thorough: three alphabets without that restriction, one of them with all invalid words too); for arbitrary 32+4-bit words the model is compared with the simulator (correspondence, "
              "incl. source.ready = 0 phases). Behaviour under back-pressure is modelled but not part of the property. "
              "The module is not parametric in /repo (W = 4 is fixed by USBRawSuperSpeedStream and the literal 8 in word_position).")
TECHNIQUE = ("Rocq proof: simulation relation shift-register -> symbol FIFO (all W, all traces) + certified product-reachability "
             "(lock-step over explicit symbol alphabets) against the netlist regenerated from source + simulator correspondence")
