"""C03 -- USB2 transmitted data packets are correctly framed with a valid CRC16
(luna/gateware/usb/usb2/packet.py: USBDataPacketGenerator, with USBDataPacketCRC wired as
luna/gateware/usb/usb2/device.py does: data_crc.tx_valid = tx.valid & tx_ready, data_crc.tx_data = tx.data)."""
from harness.core import Target
from harness import tie, tie_explicit

PID = "C03"
ASSUMPTIONS = [
    "CRC wiring as in USBDevice (device.py ~363): the shared CRC16 unit advances on tx.valid & tx_ready with tx.data, is cleared by "
    "crc.start (asserted throughout SEND_PID); no receive traffic during the transmission (rx_valid = 0)",
    "the refinement theorem (model = specification machine, cycle by cycle) and the accepted/consumed-bytes theorems need NO "
    "assumption on tx_ready, data_pid, first/last, payload or stream.valid",
    "framing on the wire (one transaction = one uninterrupted tx.valid run) additionally needs the USBInStreamInterface producer "
    "contract: stream.valid stays high from the first byte to the byte marked last (txs_env). If the producer under-runs, the module "
    "ends the payload there, lowers tx.valid for that cycle and still appends the CRC of the bytes sent (modelled and specified, "
    "but outside the property)",
    "a request is seen only in the idle state: stream.valid & first starts a packet whose PID is data_pid of that cycle; "
    "stream.valid & last without first a zero-length packet; the stream inputs are ignored while the PID and CRC bytes are offered",
    "a payload byte is consumed (stream.ready) in exactly the cycle the PHY accepts it (tx_ready), so payload stability while "
    "stalled is not needed",
    "USBDevice-level target: raw UTMI bus (full-speed only, 12 MHz tables), bus idle (line_state J, connected), no receive traffic, one "
    "pass-through endpoint exposing the shared transmit stream; the reset sequencer and handshake generator stay silent in these traces",
    "tie configuration: the module has no parameters. The lock-step R tie is against the netlist of the bare generator "
    "(crc.crc as a free input, crc.start observed) over a restricted payload/CRC-value alphabet with every control pattern; the "
    "generator + CRC16 composite is tied by simulator correspondence + specification monitor with full-range bytes, and the CRC16 "
    "equations for all 2^24 inputs by C30",
]
TIE_IMPORTS = "From LunaModel Require Import Crc Usb2DataTx Usb2DataTx_proofs.\n"

PID_BYTES = [0xC3, 0x4B, 0x87, 0x0F]
PORTS_IN = ["data_pid", "valid", "first", "last", "payload", "tx_ready"]


def mk_dev():
    def build():
        from amaranth import Elaboratable, Module
        from luna.gateware.usb.usb2.packet import USBDataPacketGenerator, USBDataPacketCRC

        class TxDev(Elaboratable):
            """generator + shared CRC unit, connected as USBDevice.elaborate does"""
            def __init__(self):
                self.gen = USBDataPacketGenerator()
            def elaborate(self, platform):
                m = Module()
                m.submodules.gen = gen = self.gen
                m.submodules.crc = crc = USBDataPacketCRC()
                crc.add_interface(gen.crc)
                m.d.comb += [crc.rx_valid.eq(0),
                             crc.tx_valid.eq(gen.tx.valid & gen.tx.ready),
                             crc.tx_data.eq(gen.tx.data)]
                return m
        w = TxDev(); g = w.gen
        return w, [("data_pid", g.data_pid), ("valid", g.stream.valid), ("first", g.stream.first), ("last", g.stream.last),
                   ("payload", g.stream.payload), ("tx_ready", g.tx.ready)], \
            [("tx_valid", g.tx.valid), ("tx_data", g.tx.data), ("stream_ready", g.stream.ready)]
    t = Target("datatx", build); t.core = False
    return t


def mk_core():
    def build():
        from luna.gateware.usb.usb2.packet import USBDataPacketGenerator
        g = USBDataPacketGenerator()
        return g, [("data_pid", g.data_pid), ("valid", g.stream.valid), ("first", g.stream.first), ("last", g.stream.last),
                   ("payload", g.stream.payload), ("tx_ready", g.tx.ready), ("crc", g.crc.crc)], \
            [("tx_valid", g.tx.valid), ("tx_data", g.tx.data), ("stream_ready", g.stream.ready), ("crc_start", g.crc.start)]
    t = Target("txcore", build); t.core = True
    return t


def mk_usbdev():
    """The complete USBDevice (raw UTMI bus, full-speed only) with one pass-through endpoint that exposes the shared transmit
    stream: ties the CRC wiring of device.py itself (tx_multiplexer.output.valid & utmi.tx_ready) and the transmit multiplexer.
    The bus is held idle (line_state = J, connected, no receive traffic) so that only the data transmitter drives UTMI."""
    def build():
        from amaranth import Elaboratable, Module
        from luna.gateware.usb.usb2.device import USBDevice
        from luna.gateware.usb.usb2.endpoint import EndpointInterface
        from luna.gateware.interface.utmi import UTMIInterface

        class PassThroughEndpoint(Elaboratable):
            def __init__(self):
                self.interface = EndpointInterface()
            def elaborate(self, platform):
                return Module()
        u = UTMIInterface()
        d = USBDevice(bus=u)
        ep = PassThroughEndpoint(); d.add_endpoint(ep)
        ifc = ep.interface
        return d, [("data_pid", ifc.tx_pid_toggle), ("valid", ifc.tx.valid), ("first", ifc.tx.first), ("last", ifc.tx.last),
                   ("payload", ifc.tx.payload), ("tx_ready", u.tx_ready),
                   ("line_state", u.line_state), ("full_speed_only", d.full_speed_only), ("connect", d.connect)], \
            [("tx_valid", u.tx_valid), ("tx_data", u.tx_data), ("stream_ready", ifc.tx.ready)]
    t = Target("usbdevice_tx", build); t.core = False; t.usbdev = True
    return t


def targets(tier):
    ts = [mk_dev(), mk_core(), mk_usbdev()]
    ts[0].usbdev = False; ts[1].usbdev = False
    return ts


# ---------------------------------------------------------------------------------------------------------
def cyc(dp=0, v=0, f=0, l=0, pl=0, r=0):
    return dict(data_pid=dp, valid=v, first=f, last=l, payload=pl, tx_ready=r)


def packet_cycles(rng, payload, dp, pready, zlp_hold=False, hold_next=None):
    """Input cycles of one transaction, following the module's phases open-loop (they are determined by the inputs).
    payload == [] : zero-length request (last without first)."""
    rd = lambda: int(rng.random() < pready)
    out = []
    if not payload:
        out.append(cyc(dp, 1, 0, 1, rng.randrange(256), rd()))               # request seen in IDLE
        junk = lambda: cyc(rng.randrange(4), int(zlp_hold), 0, int(zlp_hold), rng.randrange(256), rd())
        for phase in range(3):                                                # PID, CRC low, CRC high
            while True:
                c = junk(); out.append(c)
                if c["tx_ready"]: break
        return out
    n = len(payload)
    b0 = cyc(dp, 1, 1, int(n == 1), payload[0], rd())
    out.append(b0)                                                            # request seen in IDLE
    while True:                                                               # PID offered
        c = cyc(rng.randrange(4), 1, 1, int(n == 1), payload[0], rd()); out.append(c)
        if c["tx_ready"]: break
    for j, b in enumerate(payload):                                           # payload passes through
        while True:
            c = cyc(rng.randrange(4), 1, int(j == 0 or rng.random() < 0.1), int(j == n - 1), b, rd()); out.append(c)
            if c["tx_ready"]: break
    for phase in range(2):                                                    # CRC low, CRC high (stream ignored)
        while True:
            c = cyc(rng.randrange(4), rng.randrange(2), rng.randrange(2), rng.randrange(2), rng.randrange(256), rd())
            out.append(c)
            if c["tx_ready"]: break
    return out


def dev_trace(rng, npackets, small=None):
    tr = []
    byte = (lambda: rng.choice(small)) if small else (lambda: rng.randrange(256))
    for _ in range(npackets):
        for _ in range(rng.choice([0, 1, 1, 2, 4])):      # idle: no request (valid without first/last, or invalid)
            tr.append(cyc(rng.randrange(4), rng.randrange(2) if rng.random() < 0.3 else 0, 0, 0, byte(), rng.randrange(2)))
            if tr[-1]["valid"]: tr[-1]["first"] = 0; tr[-1]["last"] = 0
        n = rng.choice([0, 0, 1, 1, 2, 3, 7, 8, 9, 16, 33, 64])
        pready = rng.choice([1.0, 1.0, 0.7, 0.5, 0.2, 0.1])
        tr += packet_cycles(rng, [byte() for _ in range(n)], rng.randrange(4), pready, zlp_hold=(rng.random() < 0.2))
    tr += [cyc(r=1)] * 2
    return tr


def stall_trace(rng, state_idx):
    """a long stall while the module sits in each FSM state in turn"""
    payload = [rng.randrange(256) for _ in range(3)]
    tr = [cyc(2, 1, 1, 0, payload[0], 1)]
    phases = [[cyc(0, 1, 1, 0, payload[0], 0)] * (12 if state_idx == 0 else 0) + [cyc(0, 1, 1, 0, payload[0], 1)]]
    for j, b in enumerate(payload):
        phases.append([cyc(0, 1, 0, int(j == 2), b, 0)] * (12 if state_idx == 1 + j else 0) + [cyc(0, 1, 0, int(j == 2), b, 1)])
    phases.append([cyc(r=0)] * (12 if state_idx == 4 else 0) + [cyc(r=1)])
    phases.append([cyc(r=0)] * (12 if state_idx == 5 else 0) + [cyc(r=1)])
    for p in phases: tr += p
    return tr + [cyc(r=1)] * 2


def dev_traces(rng, tier, small):
    n = 28 if tier == "quick" else 300
    out = [stall_trace(rng, k) for k in range(6)]
    for k in range(n):
        out.append(dev_trace(rng, rng.randint(1, 5), small=small if k % 5 == 4 else None))
    for k in range(n // 4):          # adversarial: unstructured inputs (producer under-runs, first/last anywhere)
        pv = rng.choice([0.5, 0.9])
        out.append([cyc(rng.randrange(4), int(rng.random() < pv), int(rng.random() < 0.3), int(rng.random() < 0.3),
                        rng.randrange(256), rng.randrange(2)) for _ in range(rng.randint(5, 100))])
    return out


def crc16(data):
    crc = 0xFFFF
    for b in data:
        for i in range(8):
            fb = ((crc >> 15) & 1) ^ ((b >> i) & 1)
            crc = (crc << 1) & 0xFFFF
            if fb:
                crc ^= 0x8005
    crc ^= 0xFFFF
    return sum(((crc >> i) & 1) << (15 - i) for i in range(16))


def payload_alphabet(tier):
    return [0x00, 0xA5, 0xFF] if tier == "quick" else [0x00, 0xA5, 0xFF, 0x3C]


def crc_values(tier):
    return [0x0000, 0xC3A5, 0xFFFF] if tier == "quick" else [0x0000, 0xC3A5, 0xFFFF, 0x5A00]


def traces(target, rng, tier):
    base = dev_traces(rng, tier, payload_alphabet(tier))
    if target.usbdev:
        # idle full-speed bus: line_state = J (1), connected, full-speed only; the packed input word keeps the
        # six transmit inputs in bits 0..13, the three bus-state inputs sit above and are ignored by the model
        return [[dict(c, line_state=1, full_speed_only=1, connect=1) for c in tr] for tr in base[: (14 if tier == "quick" else 150)]]
    if not target.core:
        return base
    out = []
    for tr in base[: (20 if tier == "quick" else 200)]:
        out.append([dict(c, crc=(rng.choice(crc_values(tier)) if rng.random() < 0.3 else rng.getrandbits(16))) for c in tr])
    return out


def coq_list(xs):
    return "[" + "; ".join(str(x) for x in xs) + "]"


def alpha_words(tier):
    """every data_pid / valid / first / last / tx_ready pattern x payload alphabet x crc.crc alphabet"""
    ws = []
    for ctl in range(32):                   # bits 0..4: data_pid(2) valid first last
        for r in (0, 1):
            for pl in payload_alphabet(tier):
                for c in crc_values(tier):
                    ws.append(ctl + 32 * pl + (1 << 13) * r + (1 << 14) * c)
    return ws


def obligations(targets, tier):
    dev, core, usbdev = targets
    return [
        tie.corr("corr_usbdevice_tx", usbdev, mstep="tx_step", m0="tx_init", norm="tx_mask",
                 describe="composite model vs simulator of the complete USBDevice (device.py's own CRC wiring and transmit multiplexer) with a "
                          "pass-through endpoint on an idle full-speed bus; UTMI tx_valid / tx_data (while valid) / stream ready compared"),
        tie.cmon("spec_usbdevice_tx", usbdev, mon="txs_mon", m0="(txs_enc txs_init)",
                 describe="the transaction-level SPECIFICATION as runtime oracle over simulator traces of the complete USBDevice"),
        tie_explicit.rlock_alpha(
            "ob_txcore", core, St="txo_state", mstep="txo_step", enc="txo_enc", dec="txo_dec", wf="txo_wf",
            dec_enc="txo_dec_enc", wf_step="txo_wf_step", m0="txo_init", wf_m0="exact txo_wf_init.",
            alphabet=coq_list(alpha_words(tier)), fuel=100000,
            describe=f"USBDataPacketGenerator (FSM, PID latch, remaining_crc capture, is_zlp; CRC unit outside) netlist == core model txo_step "
                     f"in lock step: all histories of any length with every data_pid/valid/first/last/tx_ready pattern, payload bytes from "
                     f"{[hex(x) for x in payload_alphabet(tier)]} and crc.crc values from {[hex(x) for x in crc_values(tier)]}"),
        tie.corr("corr_txcore", core, mstep="txo_step", m0="txo_init",
                 describe="core model vs simulator of the bare generator: full-range payload bytes and CRC inputs"),
        tie.corr("corr_datatx", dev, mstep="tx_step", m0="tx_init",
                 describe="composite model (generator core + CRC16 unit, USBDevice wiring) vs simulator: payloads of 0..64 full-range bytes, all "
                          "four PIDs, stall patterns none / random 70-10 % / a long stall in each FSM state, back-to-back requests, "
                          "held ZLP requests, and unstructured inputs (producer under-runs)"),
        tie.cmon("spec_datatx", dev, mon="txs_mon", m0="(txs_enc txs_init)",
                 describe="the transaction-level SPECIFICATION (txs_step: PID, pass-through payload, declarative crc16_usb of the accepted "
                          "bytes) evaluated as a runtime oracle over simulator traces of generator + CRC unit (tx.data compared while tx.valid)"),
    ]


def tie_theorems(targets, tier):
    core = targets[1]
    G = core.modname
    return f"""
Theorem C03_txcore_netlist_is_model : forall tr,
  Forall (fun i => In i ob_txcore.alpha) tr ->
  run {G}.step {G}.init tr = run txo_step txo_init tr.
Proof. intros tr H. apply (ob_txcore_T.tie tr H). apply env_ok_true. Qed.
"""


def tie_theorem_names(targets, tier):
    return ["C03_txcore_netlist_is_model"]


LEVEL_TEXT = ("Machine-checked proof for the hand model + netlist tie of the FSM on a restricted alphabet. (1) For EVERY input history (any "
              "tx_ready stall pattern, PID selection, first/last/valid pattern, payload bytes, any length) the code-shaped model of "
              "USBDataPacketGenerator composed with the CRC16 unit as USBDevice wires it produces in every cycle exactly the outputs of the "
              "transaction-level specification txs_step (C03_generator_refines; simulation relation: CRC register = running CRC of the accepted "
              "payload bytes, remaining_crc = high byte of crc16_usb). (2) Reading theorems of the specification: the bytes accepted by the PHY "
              "are, in order, PID byte ++ payload ++ crc16_usb(payload) low byte first for each transaction (C03_accepted_bytes; zero-length: "
              "PID 00 00, C03_wire_zlp; PID bytes = DATA0/1/2/MDATA, C03_pid_bytes); the bytes consumed from the stream are exactly those "
              "payloads -- each offered byte that is taken is sent once, in order (C03_consumed_bytes); under the producer contract tx.valid is "
              "high exactly during a transaction and every transaction ends in idle, so one transaction is one packet on the wire "
              "(C03_valid_iff_busy, C03_idle_after_packet). (3) The netlist of the bare generator regenerated from /repo is proved equal to the "
              "core model on all histories over every control pattern with a restricted payload / CRC-input alphabet (certified product "
              "reachability).")
LEVEL_NOTE = ("The R tie covers the generator FSM with crc.crc as a free input over 3 (quick) / 4 (thorough) payload bytes and CRC values, all 64 "
              "control patterns; the composition with the CRC16 unit (whose 16-bit register cannot be enumerated together with stale "
              "remaining_crc values) is definitional in the model (tx_step = txo_core + crc_reg_next of Model/Crc.v) and tied to the real "
              "wiring by simulator correspondence + the specification monitor with full-range bytes, both on generator + CRC unit wired in "
              "the harness as device.py does and on the complete USBDevice (device.py's own wiring and transmit multiplexer; idle bus); the CRC16 equations are tied for all 2^24 "
              "inputs by C30. The wire-level segmentation into packets is stated as per-cycle facts (tx.valid = busy, idle after each packet) "
              "rather than as one list-of-packets equation. No bounded-response (liveness) theorem. Trusted: Coq kernel + vm_compute, "
              "Amaranth elaboration, nir2coq.py/Netlist.v (validated each run against pysim).")
TECHNIQUE = ("Rocq proof: simulation relation between the incremental FSM+CRC model and a transaction-level specification with declarative CRC "
             "(all input histories) + induction for the accepted/consumed byte streams + certified product-reachability of the regenerated "
             "generator netlist over an explicit alphabet + simulator correspondence and specification monitor")
