"""C34 -- word alignment (luna/gateware/usb/usb3/physical/alignment.py: RxWordAligner, RxPacketAligner)."""
from harness.core import Target
from harness import tie
from harness import tie_ss

PID = "C34"

COM, SHP, SLC, EPF = 0x1BC, 0x1FB, 0x1FE, 0x1F7      # symbols as data + 256*ctrl
CLASSES = {"wa": ("RxWordAligner", "crit_com"), "pa": ("RxPacketAligner", "crit_pkt")}
# R alphabets (symbols per obligation).  Two symbols whose 9 bits are complementary exercise every lane of the
# datapath; the look-alikes (same byte, ctrl = 0) exercise the ctrl part of the criteria.
ALPHA_QUICK = {
    "wa": {"com_d43": [COM, 0x043], "com_dbc": [COM, 0x0BC]},
    "pa": {"slc_epf": [SLC, EPF], "shp_epf": [SHP, EPF]},
}
ALPHA_THOROUGH_2 = {
    "wa": {"com_d43": [COM, 0x043], "com_dbc": [COM, 0x0BC], "com_k43": [COM, 0x143]},
    "pa": {"slc_epf": [SLC, EPF], "shp_epf": [SHP, EPF], "slc_df7": [SLC, 0x0F7], "epf_d08": [EPF, 0x008]},
}
ALPHA_THOROUGH_3 = {            # all 81 valid words over three symbols (+ uniform invalid words)
    "wa": {"com_d43_dbc": [COM, 0x043, 0x0BC]},
    "pa": {},
}

ASSUMPTIONS = [
    "no environment hypothesis: any input words, any sink.valid gaps, any offset changes; traces of any length",
    "parametric theorems (Properties/C34.v) hold for every word size W >= 1 and every alignment criteria; the code fixes W = 4 "
    "and the criteria COM^4 (RxWordAligner) or SHP^3 EPF / SLC^3 EPF (RxPacketAligner)",
    "when more than four COMs arrive in a row several windows match and the code takes the highest offset; the property's "
    "'four-COM sequence' is read as: a COM^4 window with no COM^4 window at a higher offset of the same word pair",
    "R tie: netlist == model on ALL traces of words over the listed 2-symbol (thorough: also one 3-symbol) alphabets, valid or not; "
    "full-width random symbol streams with embedded COM/SHP/SLC sequences at all four offsets are covered by correspondence, not proof",
    "source.data/ctrl are compared only while source.valid = 1; alignment_offset and source.valid in every cycle",
]
TIE_IMPORTS = "From LunaLib Require Import SymWord.\nFrom LunaModel Require Import Aligner Aligner_proofs.\n"


def mk(key):
    cls, crit = CLASSES[key]
    def build():
        from luna.gateware.usb.usb3.physical import alignment
        d = getattr(alignment, cls)()
        return (d,
                [("data", d.sink.data), ("ctrl", d.sink.ctrl), ("valid", d.sink.valid)],
                [("o_data", d.source.data), ("o_ctrl", d.source.ctrl), ("o_valid", d.source.valid),
                 ("o_offset", d.alignment_offset)])
    t = Target(key, build)
    t.params = dict(key=key, cls=cls, crit=crit)
    return t


def targets(tier):
    return [mk("wa"), mk("pa")]


# ---------------------------------------------------------------------------------------------
def _rand_sym(rng):
    k = rng.random()
    if k < 0.6: return rng.randrange(256)
    if k < 0.7: return rng.choice([0x0BC, 0x0FB, 0x0FE, 0x0F7])          # look-alike data bytes
    if k < 0.8: return 0x100 | rng.randrange(256)
    return rng.choice([COM, SHP, SLC, EPF, 0x13C])


def _stream(rng, key, nsym):
    """A symbol stream with alignment sequences embedded at arbitrary symbol positions."""
    s = []
    while len(s) < nsym:
        k = rng.random()
        if k < 0.25:
            if key == "wa":
                n = rng.choice([4, 4, 4, 4, 3, 5, 6, 8])                  # mostly exact COM^4, some short/long runs
                s += [COM] * n
            else:
                head = rng.choice([SHP, SLC])
                s += rng.choice([[head] * 3 + [EPF], [head] * 3 + [EPF], [head] * 2 + [EPF], [head] * 4 + [EPF],
                                 [head, head, head, 0x0F7]])
        elif k < 0.35:
            s += [rng.choice([COM, SHP, SLC, EPF])]
        else:
            s += [_rand_sym(rng) for _ in range(rng.choice([1, 2, 3, 5, 8, 13]))]
    return s


def traces(target, rng, tier):
    key = target.params["key"]
    n = 40 if tier == "quick" else 300
    out = []
    for k in range(n):
        nsym = rng.choice([4, 8, 12, 16, 40, 80, 200])
        s = _stream(rng, key, nsym + rng.randrange(4))
        p_valid = rng.choice([1.0, 1.0, 0.85, 0.4])
        tr = []
        for w in range(len(s) // 4):
            while rng.random() > p_valid:                                # invalid words carry garbage
                tr.append(dict(data=rng.getrandbits(32), ctrl=rng.getrandbits(4), valid=0))
            syms = s[4 * w: 4 * w + 4]
            tr.append(dict(data=sum((x & 0xFF) << (8 * j) for j, x in enumerate(syms)),
                           ctrl=sum((x >> 8) << j for j, x in enumerate(syms)), valid=1))
        tr.append(dict(data=0, ctrl=0, valid=0))
        out.append(tr)
    return out


def _alphabets(key, tier):
    if tier == "quick":
        return [(a, s, "al_alphabet") for a, s in ALPHA_QUICK[key].items()]
    return ([(a, s, "al_alphabet") for a, s in ALPHA_THOROUGH_2[key].items()] +
            [(a, s, "al_alphabet_small") for a, s in ALPHA_THOROUGH_3[key].items()])


def obligations(targets, tier):
    obs = []
    for t in targets:
        key, crit = t.params["key"], t.params["crit"]
        for a, syms, fn in _alphabets(key, tier):
            sl = "[" + "; ".join(str(x) for x in syms) + "]"
            obs.append(tie_ss.rlock_alpha(
                f"ob_{key}_{a}", t,
                St="al_state", mstep=f"al_mstep 4 {crit}", enc="al_enc", dec="al_dec 4",
                wf="al_wf 4", dec_enc="al_dec_enc 4 al_w4", wf_step=f"al_wf_step 4 {crit}",
                m0="al_init 4", wf_m0="apply al_wf_init; exact al_w4'.",
                alphabet=f"{fn} 4 {sl}", norm="al_norm 4", fuel=5000,
                describe=f"{t.params['cls']} == model ({crit}) on all traces of words over symbols {[hex(x) for x in syms]}, valid or not"))
        obs.append(tie.corr(f"corr_{key}", t, mstep=f"al_mstep 4 {crit}", m0="al_init 4", norm="al_norm 4",
                            describe=f"{t.params['cls']}: model vs simulator, random symbol streams with alignment sequences "
                                     f"at all four offsets, runs of 3/5/6/8 COMs, look-alike symbols, invalid words"))
    return obs


def tie_theorems(targets, tier):
    s = ""
    for t in targets:
        key, crit = t.params["key"], t.params["crit"]
        G = t.modname
        for a, syms, fn in _alphabets(key, tier):
            ob = f"ob_{key}_{a}"
            s += f"""
Theorem C34_{ob} : forall tr x, Forall (fun i => In i {ob}.alpha) (tr ++ [x]) ->
  map (al_norm 4) (run {G}.step {G}.init (tr ++ [x]))
  = map (al_eout 4) (oreg (al_init 4) :: al_results 4 {crit} (al_init 4) (map (al_din 4) tr)).
Proof.
  intros tr x H. pose proof ({ob}_T.tie (tr ++ [x]) H (env_ok_true _ _ _ _)) as T. unfold {ob}.norm in T.
  rewrite T, al_mrun, map_app. cbn [map]. rewrite al_outputs_are_results. reflexivity.
Qed.
"""
    return s


def tie_theorem_names(targets, tier):
    return [f"C34_ob_{t.params['key']}_{a}" for t in targets for a, _, _ in _alphabets(t.params["key"], tier)]


LEVEL_TEXT = ("Machine-checked proof. For every word size W >= 1, every alignment criteria and every input history (any words, valid "
              "gaps, offset changes) the code-shaped model of the aligner satisfies: (1) a valid word completing a criteria window at "
              "offset j (and none higher) is output as exactly that window with alignment_offset j (C34_match_presented; for COM^4: "
              "C34_align_on_com); (2) otherwise the offset is kept and invalid words are skipped (C34_no_match_keeps_offset, "
              "C34_invalid_words_skipped); (3) while the offset stays s the concatenated valid output words equal the stream "
              "'held word ++ valid input words' minus its first s symbols, up to the last complete word -- delayed, regrouped, nothing "
              "lost/duplicated/reordered (C34_regroup, induction over the trace). The netlists of RxWordAligner and RxPacketAligner "
              "regenerated from /repo are proved equal to this model on all traces over small symbol alphabets by certified product "
              "reachability (C34_ob_<cfg>: netlist outputs = encoded model results).")
LEVEL_NOTE = ("Trusted: Coq kernel + vm_compute, Amaranth elaboration, nir2coq.py/Netlist.v (validated each run against pysim). "
              "The netlist tie is a theorem only for words over the listed alphabets (quick: two 2-symbol alphabets per aligner; thorough: "
              "more, plus all 81 words over {COM, 0x43, data 0xBC}); arbitrary 36-bit words are compared with the simulator "
              "(correspondence). The model-level theorems speak about symbol lists; the packing al_eout/al_din to the 32+4-bit ports is "
              "a definition, checked only through the tie. With 5+ consecutive COMs the code picks the highest matching offset; this is "
              "modelled, and the COM theorem assumes no higher matching window.")
TECHNIQUE = ("Rocq proof: list-level induction over the trace for the parametric model + certified product-reachability "
             "(lock-step over explicit symbol alphabets) against the netlists regenerated from source + simulator correspondence")
