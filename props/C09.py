"""C09 -- GET_DESCRIPTOR returns exactly the requested descriptor bytes
(luna/gateware/usb/usb2/descriptor.py: GetDescriptorHandlerBlock incl. generate_rom_content, GetDescriptorHandlerDistributed;
 luna/gateware/stream/generator.py: ConstantStreamGenerator; start_position bookkeeping of luna/gateware/usb/request/standard.py)."""
import os, sys, json
from harness.core import Target
from harness import core, tie
from harness import tie_explicit

PID = "C09"
TIE_IMPORTS = ("From LunaModel Require Import ConstGen DescSpec DescSpec_proofs DescRom DescRom_proofs "
               "DescBlock DescBlock_proofs DescDist DescDist_proofs DescMux DescMux_proofs.\n")

ASSUMPTIONS = [
    "handler-level environment (s_env / req_legal): a request (start strobe) is made only while the handler is idle; value, "
    "length and start_position are held and start stays low until the answer is complete (they come from the latched SETUP "
    "packet and the request handler's start_position register); start_position < wLength and start_position <= len(descriptor) "
    "-- exactly the offsets a host produces that reads in max-packet-size pieces (theorem C09_offsets_legal)",
    "protocol level: the host reads at offsets 0, mps, 2*mps, ... (the 11-bit start_position register of StandardRequestHandler "
    "advances by max_packet_size per ACK) until a short packet, wLength bytes, or STALL; descriptors shorter than 2048 bytes; "
    "wLength >= 1 (a GET_DESCRIPTOR with wLength = 0 has no data stage); the ACK/IN-token plumbing of the control endpoint is "
    "covered by the end-to-end oracle (full USBDevice driven over UTMI), not by a theorem",
    "zero-length packet on the handler's tx stream = ONE cycle of valid & last & ~first (the convention USBDataPacketGenerator "
    "implements: it never raises ready for such a beat, so a ZLP that is held until ready is transmitted again and again)",
    "latency between start and the answer is implementation-defined (bk_lat: 1/2/4 cycles, ds_lat: 0/1/2) and not part of the property",
    "collections (coll_okb): types and indexes < 256, at most 255 indexes per type, bytes < 256, ROM image < 64 KiB; for the "
    "distributed handler additionally every descriptor non-empty and shorter than 2048 bytes (dist_okb; a ConstantStreamGenerator "
    "of no data does not elaborate); a language descriptor (type 3 index 0) is always present because DeviceDescriptorCollection adds one",
    "ROM layout: Python generate_rom_content is compared with the Gallina rom_of / max_desc_len / max_type / index_map on random "
    "collections on every run (differential test, reported as no-failing-input-found when only the layout differs); the layout "
    "lemmas are proved about rom_of",
    "netlist ties: block handler -- no environment assumption, all histories over the explicit request alphabet; distributed handler "
    "-- histories that respect ds_env (model-state form of the assumption above: one generator busy at a time, its descriptor selected, "
    "start low, start_position/length limit held while it streams; legal offsets), which every s_env-legal history does "
    "(second conjunct of C09_distributed_handler). Without it the product of the generators' state spaces is out of reach",
    "the distributed-handler model is the behaviour WITH findings/C09-dist-zlp.diff; on the unchanged tree the check reports the "
    "violation (ob_dst_* counterexample confirmed on the simulator; also the packet-level oracle and the end-to-end oracle)",
    "GetDescriptorHandlerMux (block ROM handler for the fixed descriptors + distributed handler for the runtime descriptors, as "
    "StandardRequestHandler.get_descriptor_handler_submodule builds it) is modelled with runtime descriptors = constant byte strings "
    "served by USBDescriptorStreamGenerator; arbitrary callables (data that changes at run time, generators that do not follow the "
    "ConstantStreamGenerator interface) are not modelled. The mux theorem assumes disjoint (type,index) keys of the two parts and "
    "histories that are legal for the union specification AND for both handlers' own specification machines (a new request only once "
    "both handlers are idle: the ROM handler takes up to 2 cycles to stall a request that is not its own); the netlist tie uses the "
    "model-state form mxm_env of the same assumption (ghost register = request of the last start strobe)",
    "the mux model is the behaviour WITH findings/C09-mux-stall-latch.diff (stall latch ignored in the start cycle) and the targets are "
    "built through StandardRequestHandler, i.e. WITH findings/C09-mux-duplicate-language.diff the runtime collection no longer gains a "
    "default language descriptor; on a tree without them the check reports the violation (ob_mux_* counterexample, whole-device oracle)",
    "tie configurations: see obligation_list",
]

# ------------------------------------------------------------------------------------------------------------
# collections
# ------------------------------------------------------------------------------------------------------------
LANG = (3, 0, [4, 3, 9, 4])


def _blob(n, seed):
    return [(seed * 37 + 11 * k + (k * k) % 7) & 0xFF for k in range(n)]


TINY_A = [(1, 0, [5, 1, 7, 8, 9]), LANG, (3, 2, [8, 3, 1, 2, 3, 4, 5, 6])]                 # sparse indexes -> index map
TINY_B = [(1, 0, _blob(10, 1)), (2, 0, _blob(16, 2)), LANG, (3, 1, _blob(8, 3))]            # consecutive indexes
TINY_C = [(2, 1, _blob(3, 4)), (2, 5, _blob(12, 5)), LANG, (6, 0, _blob(1, 6))]             # sparse, type gap, length 1
TINY_D = [(1, 0, _blob(6, 7)), LANG]                                                        # smallest direct-index collection


# mux configurations: (fixed descriptors -> block ROM, runtime descriptors -> distributed handler behind GetDescriptorHandlerMux)
LANG6 = (3, 0, [6, 3, 9, 4, 7, 4])        # differs from the language descriptor DeviceDescriptorCollection adds by default
MUX_A = dict(fixed=[(1, 0, [5, 1, 7, 8, 9]), LANG6], runtime=[(3, 2, [8, 3, 1, 2, 3, 4, 5, 6])])
MUX_B = dict(fixed=[(1, 0, _blob(6, 21)), LANG6, (3, 1, _blob(4, 22))], runtime=[(2, 0, _blob(3, 23)), (3, 5, _blob(9, 24))])


def repo_test_collection():
    """The collection of tests/test_usb2_descriptor.py (device, configuration, strings incl. a sparse one, HID)."""
    from usb_protocol.emitters import DeviceDescriptorCollection
    from usb_protocol.emitters.descriptors.standard import get_string_descriptor
    descriptors = DeviceDescriptorCollection()
    with descriptors.DeviceDescriptor() as d:
        d.bcdUSB = 2.00; d.idVendor = 0x1234; d.idProduct = 0x4567
        d.iManufacturer = "Manufacturer"; d.iProduct = "Product"
        d.iSerialNumber = "ThisSerialNumberIsResultsInADescriptorLongerThan64Bytes"
        d.bNumConfigurations = 1
        with descriptors.ConfigurationDescriptor() as c:
            c.bmAttributes = 0xC0; c.bMaxPower = 50
            with c.InterfaceDescriptor() as i:
                i.bInterfaceNumber = 0; i.bInterfaceClass = 0x02; i.bInterfaceSubclass = 0x02; i.bInterfaceProtocol = 0x01
                with i.EndpointDescriptor() as e:
                    e.bEndpointAddress = 0x81; e.bmAttributes = 0x03; e.wMaxPacketSize = 64; e.bInterval = 11
    descriptors.add_descriptor(get_string_descriptor("nonconsecutive"), index=0xfe)
    descriptors.add_descriptor(b'\x09\x21\x01\x01\x00\x01\x22\x00\x32')
    return [(int(t), int(i), list(bytes(raw))) for t, i, raw in descriptors]


def random_triples(rng, mps=None, maxlen=200, ntypes=None):
    """Random collection: sparse types 0..15, sparse indexes, lengths around multiples of 8/16/32/64."""
    mps = mps or rng.choice([8, 16, 32, 64])
    types = sorted(rng.sample(range(0, 16), ntypes or rng.randint(1, 5)))
    out = {}
    for t in types:
        n = rng.randint(1, 4)
        if rng.random() < 0.5:
            idxs = list(range(n))
        else:
            idxs = sorted(rng.sample(range(0, rng.choice([6, 40, 256])), n))
        for ix in idxs:
            base = rng.choice([0, mps, 2 * mps, 8, 16, 32, 64, 128]) if rng.random() < 0.7 else rng.randint(0, maxlen)
            L = max(1, min(maxlen, base + rng.choice([-2, -1, 0, 0, 1, 2, 3, 4, 5])))
            out[(t, ix)] = [rng.randrange(256) for _ in range(L)]
    out.setdefault((3, 0), LANG[2])
    items = list(out.items()); rng.shuffle(items)
    return [(t, ix, d) for (t, ix), d in items]


def collection_of(triples):
    from usb_protocol.emitters import DeviceDescriptorCollection
    c = DeviceDescriptorCollection()
    for ty, ix, data in triples:
        c.add_descriptor(bytes(data), index=ix, descriptor_type=ty)
    return c


def coq_triples(triples):
    return "[" + "; ".join(f"({t}, {i}, [{'; '.join(str(b) for b in d)}])" for t, i, d in triples) + "]"


def coq_coll(triples):
    return f"(coll_of_triples {coq_triples(triples)})"


# ------------------------------------------------------------------------------------------------------------
# targets
# ------------------------------------------------------------------------------------------------------------
def mk(name, kind, triples, mps, big):
    def build():
        from luna.gateware.usb.usb2.descriptor import GetDescriptorHandlerBlock, GetDescriptorHandlerDistributed
        cls = GetDescriptorHandlerBlock if kind == "block" else GetDescriptorHandlerDistributed
        d = cls(collection_of(triples), max_packet_length=mps)
        ins = [("value", d.value), ("length", d.length), ("start", d.start), ("start_position", d.start_position),
               ("ready", d.tx.ready)]
        outs = [("valid", d.tx.valid), ("first", d.tx.first), ("last", d.tx.last), ("payload", d.tx.payload),
                ("stall", d.stall)]
        return d, ins, outs
    t = Target(name, build)
    t.params = dict(kind=kind, triples=triples, mps=mps)
    t.big = big
    t.coll = coq_coll(triples)
    orig = t.simulate

    def simulate(traces, _orig=orig, _t=t):
        r = _orig(traces)
        if len(traces) > 1:
            _t.last_sim = (traces, r)       # kept for the specification oracles (correspondence hook)
        return r
    t.simulate = simulate
    return t


def mk_mux(name, cfg, mps, big):
    """The handler StandardRequestHandler.get_descriptor_handler_submodule() builds for a collection with runtime
    descriptors (each runtime descriptor = a callable returning a USBDescriptorStreamGenerator over constant bytes)."""
    fixed, runtime = cfg["fixed"], cfg["runtime"]

    def build():
        from usb_protocol.emitters import DeviceDescriptorCollection
        from luna.gateware.usb.request.standard import StandardRequestHandler
        from luna.gateware.usb.usb2.descriptor import USBDescriptorStreamGenerator, GetDescriptorHandlerMux
        c = DeviceDescriptorCollection()
        for ty, ix, data in fixed:
            c.add_descriptor(bytes(data), index=ix, descriptor_type=ty)
        for ty, ix, data in runtime:
            c.add_descriptor((lambda b: (lambda: USBDescriptorStreamGenerator(b)))(bytes(data)), index=ix, descriptor_type=ty)
        import warnings
        with warnings.catch_warnings():
            warnings.simplefilter("ignore")
            d = StandardRequestHandler(c, max_packet_size=mps, avoid_blockram=False).get_descriptor_handler_submodule()
        assert isinstance(d, GetDescriptorHandlerMux)
        ins = [("value", d.value), ("length", d.length), ("start", d.start), ("start_position", d.start_position),
               ("ready", d.tx.ready)]
        outs = [("valid", d.tx.valid), ("first", d.tx.first), ("last", d.tx.last), ("payload", d.tx.payload),
                ("stall", d.stall)]
        return d, ins, outs
    t = Target(name, build)
    t.params = dict(kind="mux", triples=fixed + runtime, fixed=fixed, runtime=runtime, mps=mps)
    t.big = big
    t.coll = coq_coll(fixed + runtime)          # the union collection (specification side)
    t.cfg = f"{{| x_fixed := {coq_coll(fixed)}; x_runtime := {coq_coll(runtime)}; x_mps := {mps} |}}"
    orig = t.simulate

    def simulate(traces, _orig=orig, _t=t):
        r = _orig(traces)
        if len(traces) > 1:
            _t.last_sim = (traces, r)
        return r
    t.simulate = simulate
    return t


_cache = {}


def targets(tier):
    key = ("targets", tier)
    if key in _cache:
        return _cache[key]
    import random
    r = random.Random(909)          # configuration choice is fixed; the traces use the run's rng
    ts = [mk("blk_tinyA_mps4", "block", TINY_A, 4, False),
          mk("blk_tinyD_mps4", "block", TINY_D, 4, False)]
    if tier != "quick":
        ts.append(mk("blk_tinyB_mps8", "block", TINY_B, 8, False))
        ts.append(mk("blk_tinyC_mps4", "block", TINY_C, 4, False))
    ts.append(mk("dst_tinyA_mps4", "dist", TINY_A, 4, False))
    if tier != "quick":
        ts.append(mk("dst_tinyD_mps4", "dist", TINY_D, 4, False))
        ts.append(mk("dst_tinyC_mps4", "dist", TINY_C, 4, False))
    ts.append(mk_mux("mux_A_mps4", MUX_A, 4, False))
    if tier != "quick":
        ts.append(mk_mux("mux_B_mps4", MUX_B, 4, False))
    ts.append(mk_mux("mux_repo_mps64", dict(fixed=repo_test_collection(), runtime=[(3, 0xEE, _blob(12, 31)), (0x30, 0, _blob(64, 32))]), 64, True))
    ts.append(mk("blk_repo_mps64", "block", repo_test_collection(), 64, True))
    ts.append(mk("dst_repo_mps64", "dist", repo_test_collection(), 64, True))
    nrand = 0 if tier == "quick" else 5
    for k in range(nrand):
        mps = [16, 8, 32, 64][k % 4]
        tri = random_triples(r, mps)
        ts.append(mk(f"blk_rand{k}_mps{mps}", "block", tri, mps, True))
        ts.append(mk(f"dst_rand{k}_mps{mps}", "dist", tri, mps, True))
    _cache[key] = ts
    return ts


# ------------------------------------------------------------------------------------------------------------
# traces
# ------------------------------------------------------------------------------------------------------------
def _present(triples):
    return {(t, i): d for t, i, d in triples}


def _pick_value(rng, triples, p_absent=0.3):
    pres = _present(triples)
    if rng.random() >= p_absent:
        t, i = rng.choice(list(pres))
        return (t << 8) | i
    maxt = max(t for t, _ in pres)
    kind = rng.randrange(4)
    if kind == 0:                       # present type, absent index
        t = rng.choice([t for t, _ in pres]); i = rng.randrange(256)
    elif kind == 1:                     # absent type below the maximum
        t = rng.randrange(maxt + 1); i = rng.choice([0, 0, rng.randrange(256)])
    elif kind == 2:                     # type beyond the table
        t = rng.randrange(maxt + 1, 256) if maxt < 255 else maxt; i = rng.choice([0, rng.randrange(256)])
    else:
        t = rng.randrange(256); i = rng.randrange(256)
    return (t << 8) | i


def _one_request(rng, triples, mps, value, wlen, sp, p_ready, tr, legal=True):
    """Append one request (start cycle + held inputs until the answer must be over) to tr."""
    pres = _present(triples)
    d = pres.get((value >> 8, value & 0xFF))
    n = 0 if d is None else max(0, min(mps, wlen - sp, len(d) - sp))
    cyc = lambda start, ready: dict(value=value, length=wlen, start=start, start_position=sp, ready=ready)
    tr.append(cyc(1, int(rng.random() < p_ready)))
    budget = 6 + n                       # latency (<= 4) + one cycle per byte + slack
    style = rng.randrange(3)
    k = 0; accepted = 0
    while k < budget or accepted < n + 1:
        if style == 0:   rdy = int(rng.random() < p_ready)
        elif style == 1: rdy = int(k >= 7)          # like USBDataPacketGenerator: ready low until the PID is out
        else:            rdy = 1
        if p_ready == 0.0 and k > budget + 3: rdy = 1
        tr.append(cyc(0, rdy)); k += 1
        if k > 5: accepted += rdy
        if k > 4 * (budget + n) + 40: break
    return n


def gen_trace(rng, triples, mps, nreq, adversarial=False):
    pres = _present(triples)
    tr = []
    for _ in range(nreq):
        value = _pick_value(rng, triples)
        d = pres.get((value >> 8, value & 0xFF))
        L = len(d) if d is not None else rng.choice([4, 18, 64])
        wlen = rng.choice([1, 2, mps - 1, mps, mps + 1, 2 * mps, L - 1, L, L + 1, L + mps, 255, 0xFFFF, rng.randint(1, 2 * L + 2)])
        wlen = max(1, min(0xFFFF, wlen))
        kmax = min(L, wlen - 1) // mps
        sp = mps * rng.randint(0, kmax)
        if rng.random() < 0.4: sp = mps * kmax         # favour the last piece (short packet / ZLP)
        # idle gap: arbitrary inputs with start low
        for _ in range(rng.choice([0, 1, 2, 5])):
            tr.append(dict(value=rng.getrandbits(16), length=rng.getrandbits(16), start=0,
                           start_position=rng.getrandbits(11), ready=rng.getrandbits(1)))
        if adversarial and rng.random() < 0.5:
            sp = rng.choice([sp + 1, L + 1, L + mps, wlen, wlen + 3, rng.getrandbits(11)]) & 0x7FF
            if rng.random() < 0.3: wlen = rng.choice([0, wlen])
        p_ready = rng.choice([0.0, 0.3, 0.8, 1.0])
        start_at = len(tr)
        _one_request(rng, triples, mps, value, wlen, sp, p_ready, tr)
        if adversarial:
            for k in range(start_at + 1, len(tr)):
                if rng.random() < 0.08: tr[k]["start"] = 1
                if rng.random() < 0.05: tr[k]["value"] = _pick_value(rng, triples)
                if rng.random() < 0.05: tr[k]["start_position"] = rng.getrandbits(11)
                if rng.random() < 0.05: tr[k]["length"] = rng.getrandbits(16)
    return tr


def traces(target, rng, tier):
    key = ("traces", target.name, tier)
    if key in _cache:
        return _cache[key]
    p = target.params
    n = (10 if tier == "quick" else 30)
    out = []
    for k in range(n):
        adversarial = (k % 5 == 4)
        out.append(gen_trace(rng, p["triples"], p["mps"], rng.choice([2, 3, 4] if tier == "quick" else [2, 4, 6]), adversarial))
    target.legal = [k % 5 != 4 for k in range(n)]
    if p["kind"] == "mux":
        # outside the protocol on purpose: start strobes in consecutive cycles (stall latches vs. an overlapping request)
        pres = _present(p["triples"]); maxt = max(x[0] for x in p["fixed"])
        tr = []
        for v in (((maxt + 1) & 0xFF) << 8, (sorted(pres)[0][0] << 8) | 0xFD, (sorted(pres)[-1][0] << 8) | sorted(pres)[-1][1]):
            for st in (1, 1, 0, 0, 0, 0, 1, 0, 1, 0, 0, 0, 0, 0):
                tr.append(dict(value=v, length=255, start=st, start_position=0, ready=1))
            _one_request(rng, p["triples"], p["mps"], (sorted(pres)[0][0] << 8) | sorted(pres)[0][1], 255, 0, 1.0, tr)
        out.append(tr); target.legal.append(False)
    _cache[key] = out
    return out


# ------------------------------------------------------------------------------------------------------------
# obligations
# ------------------------------------------------------------------------------------------------------------
def pack_in(value, wlen, start, sp, ready):
    return value | (wlen << 16) | (start << 32) | (sp << 33) | (ready << 44)


def alphabet_for(triples, mps, tier):
    """Explicit input alphabet of the lock-step ties.  Requests (value, wLength, start_position): every present descriptor
    read whole at every packet-aligned offset up to and including its end (the ZLP offset), and with wLength one above the
    packet size; an absent index, an absent type inside the table, a type beyond the table; in the thorough tier also
    wLength 1 and wLength = len, a misaligned offset and an offset equal to wLength.  Every request with start and ready both ways."""
    pres = _present(triples)
    maxt = max(t for t, _ in pres)
    reqs = []
    for (t, i), d in sorted(pres.items()):
        v = (t << 8) | i; L = len(d)
        for sp in range(0, L + 1, mps):
            reqs.append((v, 0xFFFF, sp))
        reqs.append((v, mps + 1, 0)); reqs.append((v, mps + 1, mps))
        if tier != "quick":
            reqs += [(v, 1, 0), (v, L, 0), (v, 0xFFFF, 1), (v, mps, mps)]     # short / exact wLength, misaligned offset, offset = wLength
    t0, i0 = sorted(pres)[0]
    absent = [(t0 << 8) | ((i0 + 1) & 0xFF), ((maxt + 1) & 0xFF) << 8]
    gap = [t for t in range(maxt + 1) if t not in {t for t, _ in pres}]
    if gap: absent.append(gap[0] << 8)
    if tier != "quick": absent.append(0xFF00 | i0)
    for v in absent:
        reqs.append((v, 0xFFFF, 0))
    reqs = sorted(set(reqs))
    return [pack_in(v, w, st, s, r) for (v, w, s) in reqs for st in (0, 1) for r in (0, 1)]


def obligations(targets, tier):
    obs = []
    for t in targets:
        p = t.params
        if p["kind"] == "block":
            cfg = f"(block_cfg {t.coll} {p['mps']})"
            if t.big:
                obs.append(tie.corr(f"corr_{t.name}", t, mstep=f"bk_step {cfg}", m0="bk_init",
                                    describe=f"{t.name}: block handler model vs simulator, {len(p['triples'])} descriptors, "
                                             f"max packet {p['mps']}, legal and adversarial request sequences"))
                continue
            alpha = alphabet_for(p["triples"], p["mps"], tier)
            t.alpha_size = len(alpha)
            obs.append(tie_explicit.rlock_alpha(
                f"ob_{t.name}", t, St="bk_state", mstep=f"bk_step {cfg}", enc=f"bk_enc {cfg}", dec=f"bk_dec {cfg}",
                wf=f"bk_wf {cfg}", dec_enc=f"bk_dec_enc {cfg}", wf_step=f"bk_wf_step {cfg}", m0="bk_init",
                wf_m0="apply bk_wf_init.", alphabet=core.nlist(alpha), fuel=100000,
                describe=f"{t.name}: netlist == block handler model on ALL input histories over {len(alpha)} input words "
                         f"(no environment assumption; see alphabet_for)"))
        elif p["kind"] == "mux":
            cfg = f"({t.cfg})"
            if t.big:
                obs.append(tie.corr(f"corr_{t.name}", t, mstep=f"mxm_step {cfg}", m0=f"mxm_init {cfg}",
                                    describe=f"{t.name}: mux(block ROM handler, distributed handler) model vs simulator, "
                                             f"{len(p['fixed'])} fixed + {len(p['runtime'])} runtime descriptors, max packet {p['mps']}, "
                                             f"request sequences across both handlers, legal and adversarial"))
                continue
            alpha = alphabet_for(p["triples"], p["mps"], tier)
            t.alpha_size = len(alpha)
            obs.append(tie_explicit.rlock_alpha(
                f"ob_{t.name}", t, St="mxm_state", mstep=f"mxm_step {cfg}", enc=f"mxm_enc {cfg}", dec=f"mxm_dec {cfg}",
                wf=f"mxm_wf {cfg}", dec_enc=f"mxm_dec_enc {cfg}", wf_step=f"mxm_wf_step {cfg}", m0=f"mxm_init {cfg}",
                wf_m0="apply mxm_wf_init; vm_compute; reflexivity.", alphabet=core.nlist(alpha), fuel=100000,
                env=f"mxm_env {cfg}",
                describe=f"{t.name}: GetDescriptorHandlerMux netlist (as built by StandardRequestHandler for {len(p['fixed'])} fixed + "
                         f"{len(p['runtime'])} runtime descriptors) == mux model on all request SEQUENCES over {len(alpha)} input words that "
                         f"respect mxm_env (one request at a time, made when both handlers are idle, inputs held, legal offsets)"))
        else:
            gens = f"(dist_gens {t.coll})"; mps = p["mps"]
            if t.big:
                obs.append(tie.corr(f"corr_{t.name}", t, mstep=f"ds_step {gens} {mps}", m0=f"ds_init {gens}",
                                    describe=f"{t.name}: distributed handler model vs simulator, {len(p['triples'])} descriptors, "
                                             f"max packet {mps}, legal and adversarial request sequences"))
                continue
            alpha = alphabet_for(p["triples"], mps, tier)
            t.alpha_size = len(alpha)
            obs.append(tie_explicit.rlock_alpha(
                f"ob_{t.name}", t, St="ds_state", mstep=f"ds_step {gens} {mps}", enc=f"ds_enc {gens}", dec=f"ds_dec {gens}",
                wf=f"ds_wf {gens}", dec_enc=f"ds_dec_enc {gens}", wf_step=f"ds_wf_step {gens} {mps}", m0=f"ds_init {gens}",
                wf_m0="apply ds_wf_init; vm_compute; reflexivity.", alphabet=core.nlist(alpha), fuel=100000,
                env=f"ds_env {gens} {mps}",
                describe=f"{t.name}: netlist == distributed handler model on all input histories over {len(alpha)} input words "
                         f"that respect ds_env (one request at a time, inputs held while it is answered, legal offsets)"))
    return obs


def tie_theorems(targets, tier):
    s = ""
    for t in targets:
        if t.big: continue
        p = t.params
        if p["kind"] == "block":
            spec = f"(s_step (resp_of {t.coll} {p['mps']}) (bk_lat {t.coll}))"
            s += f"""
Theorem C09_{t.name} : forall tr, Forall (fun i => In i ob_{t.name}.alpha) tr ->
  env_ok sstate {spec} (s_env (req_legal {t.coll})) SIdle tr = true ->
  run {t.modname}.step {t.modname}.init tr = run {spec} SIdle tr.
Proof.
  intros tr H HE. rewrite (ob_{t.name}_T.tie tr H (env_ok_true _ _ _ _)).
  apply block_refines; [vm_compute; reflexivity | lia | exact HE].
Qed.
"""
        elif p["kind"] == "mux":
            cF, cR, mps = coq_coll(p["fixed"]), coq_coll(p["runtime"]), p["mps"]
            specU = f"(s_step (resp_mux {cF} {cR} {mps}) (mx_lat {cF} {cR}))"
            s += f"""
Theorem C09_{t.name} : forall tr, Forall (fun i => In i ob_{t.name}.alpha) tr ->
  env_ok sstate {specU} (s_env (legal_mux {cF} {cR})) SIdle tr = true ->
  env_ok sstate (s_step (resp_of {cF} {mps}) (bk_lat {cF})) (s_env (req_legal {cF})) SIdle tr = true ->
  env_ok sstate (s_step (resp_of {cR} {mps}) (ds_lat {cR})) (s_env (req_legal {cR})) SIdle tr = true ->
  env_ok mxm_state (mxm_step ({t.cfg})) (mxm_env ({t.cfg})) (mxm_init ({t.cfg})) tr = true ->
  run {t.modname}.step {t.modname}.init tr = run {specU} SIdle tr.
Proof.
  intros tr H EU EB ED EM. rewrite (ob_{t.name}_T.tie tr H EM).
  apply (mux_refines {cF} {cR} {mps}); [vm_compute; reflexivity | vm_compute; reflexivity | vm_compute; reflexivity
                                         | vm_compute; reflexivity | lia | exact EU | exact EB | exact ED].
Qed.
"""
        else:
            spec = f"(s_step (resp_of {t.coll} {p['mps']}) (ds_lat {t.coll}))"
            s += f"""
Theorem C09_{t.name} : forall tr, Forall (fun i => In i ob_{t.name}.alpha) tr ->
  env_ok sstate {spec} (s_env (req_legal {t.coll})) SIdle tr = true ->
  run {t.modname}.step {t.modname}.init tr = run {spec} SIdle tr.
Proof.
  intros tr H HE.
  destruct (dist_refines {t.coll} {p['mps']} ltac:(vm_compute; reflexivity) ltac:(vm_compute; reflexivity)
              ltac:(lia) tr HE) as [Hrun Henv].
  rewrite (ob_{t.name}_T.tie tr H Henv). exact Hrun.
Qed.
"""
    return s


def tie_theorem_names(targets, tier):
    return [f"C09_{t.name}" for t in targets if not t.big]


# ------------------------------------------------------------------------------------------------------------
# runtime oracles evaluated on the real code (specification, not model): ROM layout, packet-level and cycle-level
# specification over the simulator traces, and the whole device driven by a host over UTMI
# ------------------------------------------------------------------------------------------------------------
def _coq_pkts(pkts):
    return "[" + "; ".join("[" + "; ".join(str(b) for b in p) + "]" for p in pkts) + "]"


def rom_layout_check(tier, rng, bdir, cov):
    """Python generate_rom_content vs the Gallina rom_of / max_desc_len / max_type / index_map, byte for byte."""
    from luna.gateware.usb.usb2.descriptor import GetDescriptorHandlerBlock
    n = 32 if tier == "quick" else 120
    colls = [TINY_A, TINY_B, TINY_C, repo_test_collection()]
    while len(colls) < n:
        tri = random_triples(rng, maxlen=rng.choice([40, 140, 300]))
        if rng.random() < 0.25:                       # the ROM handler also takes empty descriptors
            k = rng.randrange(len(tri))
            if (tri[k][0], tri[k][1]) != (3, 0):
                tri[k] = (tri[k][0], tri[k][1], [])
        colls.append(tri)
    rows = []
    for tri in colls:
        h = GetDescriptorHandlerBlock(collection_of(tri), max_packet_length=64)
        rom, maxlen, maxtype, imap = h.generate_rom_content()
        # what the collection object iterates over is what the handler sees (it adds a language descriptor if missing)
        seen = [(int(t), int(i), list(bytes(raw))) for t, i, raw in collection_of(tri)]
        rows.append((seen, [int(x) for x in rom], int(maxlen), int(maxtype), [(int(k), int(v)) for k, v in imap.items()]))
    defs = ""
    qs = []
    for k, (seen, rom, maxlen, maxtype, imap) in enumerate(rows):
        defs += (f"Definition c{k} := coll_of_triples {coq_triples(seen)}.\n"
                 f"Definition ok{k} : bool := list_eqb (rom_of c{k}) {core.nlist(rom)} && (max_desc_len c{k} =? {maxlen}) && "
                 f"(max_type c{k} =? {maxtype}) && list_eqb (map fst (index_map c{k})) {core.nlist([a for a, _ in imap])} && "
                 f"list_eqb (map snd (index_map c{k})) {core.nlist([b for _, b in imap])} && coll_okb c{k}.\n")
    defs += "Definition oks : list bool := [" + "; ".join(f"ok{k}" for k in range(len(rows))) + "].\n"
    hdr = tie.HEADER + TIE_IMPORTS
    res = core.coq_eval(bdir, "RomLayout_C09", hdr, defs, [("bad", "map (fun b : bool => if b then 0 else 1) oks")])
    bad = core.parse_nums(res["bad"])
    cov["correspondence"].append(dict(obligation="rom_layout", target="GetDescriptorHandlerBlock.generate_rom_content",
                                      traces=len(rows), cycles=sum(len(r[1]) for r in rows),
                                      describe=f"Python generate_rom_content == Gallina rom_of/max_desc_len/max_type/index_map on "
                                               f"{len(rows)} collections (fixed + random: sparse types/indexes, lengths around multiples "
                                               f"of 8/16/32/64), ROM words compared one by one; coll_okb holds for each"))
    for k, b in enumerate(bad):
        if b:
            seen, rom, maxlen, maxtype, imap = rows[k]
            return dict(property=PID, obligation="rom_layout", target="generate_rom_content", nofail=True,
                        reason="the ROM image (or max length / max type / index map) that Python's generate_rom_content builds differs from "
                               "the Gallina re-implementation rom_of: theorem C09_block_handler no longer speaks about the ROM the gateware "
                               "uses (the netlist ties, correspondence and oracles that ran before this did not find a behavioural difference)",
                        inputs=[dict(descriptors=seen)], outputs=[dict(rom=rom, max_len=maxlen, max_type=maxtype, index_map=imap)],
                        how="generate_rom_content of /repo evaluated on a descriptor collection")
    return None


def spec_oracles(tier, rng, bdir, cov):
    """The specification itself over the simulator traces of every target (legal traces only): cycle-level s_step, and the
    packet-level reading (latency-independent): packets/stalls seen on the tx stream == respond for each start strobe."""
    ts = [t for t in targets(tier) if getattr(t, "last_sim", None)]
    defs = ""; qs = []; meta = []
    for t in ts:
        trs, outs = t.last_sim
        legal = [k for k in range(len(trs)) if t.legal[k]]
        tin = [[t.pack_in(c) for c in trs[k]] for k in legal]
        tout = [[t.pack_out(o) for o in outs[k]] for k in legal]
        p = t.params
        lat = {"block": "bk_lat", "dist": "ds_lat", "mux": "mx_lat"}[p["kind"]]
        defs += (f"Definition co_{t.name} := {t.coll}.\n"
                 f"Definition in_{t.name} : list (list N) := [" + ";\n ".join(core.nlist(x) for x in tin) + "].\n" +
                 f"Definition out_{t.name} : list (list N) := [" + ";\n ".join(core.nlist(x) for x in tout) + "].\n")
        lat_e = f"mx_lat {coq_coll(p['fixed'])} {coq_coll(p['runtime'])}" if p["kind"] == "mux" else f"{lat} co_{t.name}"
        qs.append((f"ev_{t.name}", f"map (fun p => events_code co_{t.name} {p['mps']} (fst p) (snd p)) (combine in_{t.name} out_{t.name})"))
        qs.append((f"cy_{t.name}", f"map (fun p => spec_check (resp_of co_{t.name} {p['mps']}) ({lat_e}) (req_legal co_{t.name}) "
                                   f"0 SIdle (fst p) (snd p)) (combine in_{t.name} out_{t.name})"))
        meta.append((t, legal))
    if not ts:
        return None
    hdr = tie.HEADER + TIE_IMPORTS
    res = core.coq_eval(bdir, "Oracle_C09", hdr, defs, qs)
    for t, legal in meta:
        trs, outs = t.last_sim
        ev = core.parse_nums(res[f"ev_{t.name}"]); cy = core.parse_nums(res[f"cy_{t.name}"])
        cov["correspondence"].append(dict(obligation=f"oracle_{t.name}", target=t.name, traces=len(legal),
                                          cycles=sum(len(trs[k]) for k in legal),
                                          describe="specification oracle on simulator traces: (a) packets/stalls on the tx stream == "
                                                   "respond(value, wLength, start_position) for every start strobe; (b) every cycle == "
                                                   "the specification machine s_step"))
        for j, k in enumerate(legal):
            if ev[j] or cy[j]:
                n = (cy[j] if cy[j] else len(trs[k]))
                return dict(property=PID, obligation=f"oracle_{t.name}", target=t.name, describe=t.name, confirmed_on_pysim=True,
                            reason=("the packets/stalls the handler put on its tx stream differ from the specified answer" if ev[j] else
                                    "the handler's outputs differ from the specification machine") +
                                   (f" (first differing cycle {cy[j] - 1})" if cy[j] else ""),
                            inputs=trs[k][:n], outputs=outs[k][:n], failing_cycle=(cy[j] - 1) if cy[j] else None,
                            how="specification (Model/DescSpec.v: respond / events / s_step) evaluated over a simulator trace of /repo")
    return None


E2E = [(1, 0, _blob(18, 11)), (2, 0, _blob(64, 12)), LANG, (3, 1, _blob(128, 13)), (0x21, 0, _blob(130, 14)),
       (0x22, 0, _blob(192, 15)), (0x22, 2, _blob(70, 16)), (0x22, 5, _blob(9, 17))]


def e2e_requests(tier, rng):
    pres = _present(E2E)
    reqs = [((0x22 << 8) | 0, 1024), ((2 << 8) | 0, 255), ((3 << 8) | 1, 128), ((0x21 << 8) | 0, 100), ((0x22 << 8) | 1, 64)]
    if tier != "quick":
        for (t, i), d in pres.items():
            for w in (8, 64, len(d), len(d) + 1, 1000):
                reqs.append(((t << 8) | i, w))
        reqs += [((5 << 8) | 0, 18), ((0x30 << 8) | 0, 64)]
    return reqs


# host histories with ABANDONED transfers: ("abandon", wValue, wLength, k, extra) = SETUP GET_DESCRIPTOR, k data packets read and
# ACKed, optionally one more packet received but NOT acknowledged, then no status stage -- the next SETUP arrives while the request
# handler is still in its GET_DESCRIPTOR state; ("vendor",) = a vendor SETUP that nobody follows up.  Every following plain
# (wValue, wLength) request must be served from offset 0 again.
E2E_ABANDON = [("abandon", (0x22 << 8) | 0, 1024, 1, False), ((0x22 << 8) | 0, 1024),
               ("abandon", (0x22 << 8) | 0, 1024, 2, True), ((3 << 8) | 1, 128),
               ("abandon", (3 << 8) | 1, 255, 1, False), ("vendor",), ((2 << 8) | 0, 255),
               ("abandon", (0x21 << 8) | 0, 1000, 2, False), ((1 << 8) | 0, 18),
               ("abandon", (0x22 << 8) | 0, 1024, 3, False), ("abandon", (0x21 << 8) | 0, 130, 1, True), ((0x22 << 8) | 2, 70)]
E2E_ABANDON_MUX = [("abandon", (0x30 << 8) | 0, 255, 1, False), ((3 << 8) | 0xEE, 255),
                   ("abandon", (0x22 << 8) | 0, 1024, 2, False), ((0x30 << 8) | 0, 255),
                   ("abandon", (0x30 << 8) | 0, 255, 1, True), ("vendor",), ((1 << 8) | 0, 64)]


def e2e_run(avoid_blockram, reqs, runtime=()):
    """Drive a full USBDevice (standard control endpoint) over UTMI with LUNA's own host-side helpers; for every request
    return the data packets received and whether the data stage was STALLed (or the exception that ended it)."""
    import unittest
    from luna.gateware.test import usb_domain_test_case
    from luna.gateware.test.usb2 import USBDeviceTest
    from luna.gateware.usb.usb2 import USBPacketID
    from luna.gateware.usb.usb2.device import USBDevice
    results = []

    class C09EndToEnd(USBDeviceTest):
        FRAGMENT_UNDER_TEST = USBDevice
        FRAGMENT_ARGUMENTS = {'handle_clocking': False}

        def initialize_signals(self):
            yield self.utmi.line_state.eq(0b01)
            yield self.dut.connect.eq(1)
            yield self.utmi.tx_ready.eq(1)

        def provision_dut(self, dut):
            coll = collection_of(E2E)
            if runtime:
                from luna.gateware.usb.usb2.descriptor import USBDescriptorStreamGenerator
                for ty, ix, data in runtime:
                    coll.add_descriptor((lambda b: (lambda: USBDescriptorStreamGenerator(b)))(bytes(data)), index=ix, descriptor_type=ty)
            dut.add_standard_control_endpoint(coll, avoid_blockram=avoid_blockram)

        def read_stage(self, value, wlen):
            yield from self.setup_transaction(0x80, 6, value, 0, wlen)
            yield from self.control_interphase_delay()
            pkts = []; got = 0; naks = 0
            while True:
                pid, packet = yield from self.in_transaction(endpoint=0)
                if pid == USBPacketID.NAK:
                    naks += 1
                    if naks > 50: raise RuntimeError("device keeps NAKing the data stage")
                    continue
                if pid == USBPacketID.STALL:
                    return pkts, True
                pkts.append(list(packet)); got += len(packet)
                if len(packet) < 64 or got >= wlen:
                    break
            yield from self.control_interphase_delay()
            hs = USBPacketID.NAK; naks = 0
            while hs == USBPacketID.NAK:
                naks += 1
                if naks > 50: raise RuntimeError("device keeps NAKing the status stage")
                hs = yield from self.out_transaction(data_pid=USBPacketID.DATA1)
            if hs != USBPacketID.ACK:
                raise RuntimeError(f"status stage answered with {hs}")
            return pkts, False

        def abandon_stage(self, value, wlen, k, extra_unacked):
            """SETUP + k acknowledged data packets (+ one packet received but not acknowledged), then nothing."""
            yield from self.setup_transaction(0x80, 6, value, 0, wlen)
            yield from self.control_interphase_delay()
            pkts = []; naks = 0
            while len(pkts) < k:
                pid, packet = yield from self.in_transaction(endpoint=0)
                if pid == USBPacketID.NAK:
                    naks += 1
                    if naks > 50: raise RuntimeError("device keeps NAKing the data stage")
                    continue
                if pid == USBPacketID.STALL:
                    return pkts, True
                pkts.append(list(packet))
            if extra_unacked:
                yield from self.send_token(USBPacketID.IN, endpoint=0)
                yield from self.receive_packet()          # ... and the host stays silent: no handshake
                yield from self.interpacket_delay()
                yield from self.interpacket_delay()
            return pkts, False

        @usb_domain_test_case
        def test_stages(self):
            for rq in reqs:
                try:
                    if rq[0] == "abandon":
                        _, value, wlen, k, extra = rq
                        pkts, stalled = yield from self.abandon_stage(value, wlen, k, extra)
                        results.append((value, wlen, pkts, stalled, None, "abandon"))
                    elif rq[0] == "vendor":
                        yield from self.setup_transaction(0xC0, 0x55, 0x1234, 0, 8)
                        yield from self.control_interphase_delay()
                        results.append((0, 0, [], False, None, "vendor"))
                    else:
                        value, wlen = rq
                        pkts, stalled = yield from self.read_stage(value, wlen)
                        results.append((value, wlen, pkts, stalled, None, "full"))
                except Exception as e:          # the device misbehaved on the wire: report and stop
                    v, w = (rq[1], rq[2]) if rq[0] == "abandon" else ((0, 0) if rq[0] == "vendor" else rq)
                    results.append((v, w, [], False, f"{type(e).__name__}: {e}", "full"))
                    return

    suite = unittest.defaultTestLoader.loadTestsFromTestCase(C09EndToEnd)
    with open(os.devnull, "w") as null:
        r = unittest.TextTestRunner(stream=null, verbosity=0).run(suite)
    if (r.errors or r.failures) and not any(x[4] for x in results):
        results.append((0, 0, [], False, "host-side harness failed: " + (r.errors + r.failures)[0][1][-300:], "full"))
    return results


E2E_RUNTIME = [(3, 0xEE, _blob(12, 31)), (0x30, 0, _blob(70, 32))]
E2E_MUX_REQS = [((3 << 8) | 0xEE, 255), ((1 << 8) | 0, 64), ((0x30 << 8) | 0, 255), ((0x22 << 8) | 0, 1024), ((3 << 8) | 0, 255),
                ((5 << 8) | 0, 8), ((2 << 8) | 0, 255), ((3 << 8) | 0xEE, 8)]


def e2e_check(tier, rng, bdir, cov):
    reqs = e2e_requests(tier, rng) + E2E_ABANDON
    variants = [("e2e_device_block", False, (), reqs, "block ROM handler"),
                ("e2e_device_distributed", True, (), reqs, "LUNA_AVOID_BLOCKRAM (distributed) handler"),
                ("e2e_device_mux", False, E2E_RUNTIME, E2E_MUX_REQS + E2E_ABANDON_MUX,
                 "GetDescriptorHandlerMux: block ROM handler + distributed handler for two runtime descriptors; request sequence "
                 "runtime -> ROM -> runtime -> ROM -> STRING 0 -> absent -> ROM -> runtime")]
    prefix_def = ("Fixpoint pkts_prefixb (a b : list (list N)) : bool := match a, b with [] , _ => true "
                  "| x :: a', y :: b' => bytes_eqb x y && pkts_prefixb a' b' | _ :: _, [] => false end.\n"
                  "Definition prefix_code (c : dcoll) (mps value wlen : N) (pkts : list (list N)) (stalled : bool) : N :=\n"
                  "  let (ps, st) := data_stage 4096 (respond c mps value wlen) mps wlen 0 0 in\n"
                  "  if pkts_prefixb pkts ps && (if stalled then st else true) then 0 else 1.\n")
    for name, avoid, runtime, rq, what in variants:
        coll = coq_coll(E2E + list(runtime))
        res = e2e_run(avoid, rq, runtime)
        defs = f"Definition co := {coll}.\n" + prefix_def
        checked = [r for r in res if not r[4] and r[5] != "vendor"]
        codes = "[" + "; ".join(f"{'stage_code' if kind == 'full' else 'prefix_code'} co 64 {v} {w} {_coq_pkts(pk)} {'true' if st else 'false'}"
                                for v, w, pk, st, err, kind in checked) + "]"
        out = core.coq_eval(bdir, "E2E_C09_" + name[11:], tie.HEADER + TIE_IMPORTS, defs, [("codes", codes)])
        bad = core.parse_nums(out["codes"]) if out["codes"].strip() != "[]" else []
        cov["correspondence"].append(dict(obligation=name, target="USBDevice + standard control endpoint", traces=len(res), cycles=0,
                                          describe=f"whole device ({what}) driven over UTMI by LUNA's host-side test helpers: packets of each "
                                                   f"GET_DESCRIPTOR data stage == data_stage over respond (start_position bookkeeping of "
                                                   f"StandardRequestHandler included), also directly after ABANDONED transfers (1..3 data packets "
                                                   f"ACKed, optionally one more un-ACKed, no status stage, optionally a vendor SETUP in between): "
                                                   f"the next GET_DESCRIPTOR must again deliver the first min(wLength,len) bytes"))
        k = 0
        for idx, (v, w, pk, st, err, kind) in enumerate(res):
            if kind == "vendor" and not err:
                continue
            failed = bool(err) or bool(bad[k] if k < len(bad) else 0)
            if not err: k += 1
            if failed:
                return dict(property=PID, obligation=name, target="USBDevice", confirmed_on_pysim=True,
                            reason=(("GET_DESCRIPTOR data stage differs from the specification" if kind == "full" else
                                     "the packets of an (abandoned) GET_DESCRIPTOR data stage are not a prefix of the specified ones")
                                    if not err else "the device misbehaved on the wire during a GET_DESCRIPTOR: " + err),
                            inputs=[dict(wValue=v, wLength=w, avoid_blockram=avoid, descriptors=E2E, runtime_descriptors=list(runtime),
                                         host_history=[list(x) if isinstance(x, tuple) else x for x in rq[:idx + 1]])],
                            outputs=[dict(packets=pk, stalled=st)],
                            how="full USBDevice simulated with Amaranth's simulator, host side = luna.gateware.test.usb2.USBDeviceTest; "
                                "host_history lists the requests in order: [wValue, wLength] = complete control transfer, "
                                "['abandon', wValue, wLength, k, extra] = k data packets ACKed (+1 un-ACKed if extra) and no status stage, "
                                "['vendor'] = vendor SETUP without follow-up")
    return None


def correspondence(tier, rng, bdir, cov):
    for f in (spec_oracles, e2e_check, rom_layout_check):
        payload = f(tier, rng, bdir, cov)
        if payload is not None:
            return payload
    return None


LEVEL_TEXT = (
    "Machine-checked proof, three layers. (1) Protocol: a host that reads a descriptor in max-packet-size pieces from a responder "
    "answering each IN transaction as `respond` specifies receives exactly the first min(wLength, len) bytes, every packet <= mps, all "
    "but the last full, the last short -- a zero-length packet exactly when the total is a multiple of mps below wLength; absent "
    "descriptors are STALLed without data; all offsets used are < wLength and <= len (C09_data_stage, C09_zlp_rule, C09_absent_stalled, "
    "C09_offsets_legal; all wLength >= 1, mps >= 1, lengths < 2048). (2) Block-ROM handler: for EVERY well-formed collection (sparse "
    "types and indexes, lengths 0..) and every packet size the code-shaped model of GetDescriptorHandlerBlock, configured with the Gallina "
    "re-implementation of generate_rom_content, equals the specification machine cycle for cycle on every legal request history of any "
    "length (C09_block_handler, simulation relation; layout lemmas C09_rom_walk_present/absent proved for all collections). "
    "(3) Block-RAM-free handler: the bank-of-ConstantStreamGenerators model (ConstGen.cg_step per descriptor) WITH the candidate fix "
    "equals the same specification machine for every collection of non-empty descriptors (C09_distributed_handler). (4) The netlists "
    "regenerated from /repo are proved equal to the models on all traces over explicit request alphabets (block: no environment "
    "assumption; distributed: under ds_env, which legal histories satisfy), giving netlist = specification corollaries C09_<target>. "
    "(5) GetDescriptorHandlerMux: the mux of the two handler models (repaired stall latching) equals the specification machine of the "
    "union collection for all disjoint fixed/runtime collections and all request sequences legal for the three specification machines "
    "(C09_mux_handler via C09_mux_of_specs: no stall for an existing descriptor whatever the previous request was, one stall pulse and no "
    "data for an absent one, data from exactly one handler); netlist tie + corollary C09_mux_<target>, whole-device scenario with runtime "
    "descriptors. The mux as in /repo before the two C09-mux diffs FAILS (spurious STALL of a ROM descriptor after a runtime one; STRING 0 "
    "answered by both handlers) -- findings/C09-mux-*.json/.diff. "
    "The model is the property-satisfying behaviour: the pre-9ef863f /repo FAILED for GetDescriptorHandlerDistributed (zero-length packets: "
    "descriptor data re-sent when the length is a power of two; otherwise a ZLP-shaped beat held forever, which the packet generator "
    "turns into endless ZLPs) -- findings/C09-dist-zlp.json/.diff; with the patch applied the check passes. The block-ROM handler holds.")
LEVEL_NOTE = (
    "Trusted: Coq kernel + vm_compute, Amaranth elaboration, nir2coq.py/Netlist.v (validated each run against pysim), harness. "
    "Python generate_rom_content is tied to the Gallina rom_of by a differential test (32/120 collections per run, word for word), not "
    "by a proof. Netlist ties are per configuration and per explicit input alphabet (tiny collections, packet size 4/8); realistic "
    "collections (the repo's test collection at mps 64, random collections at mps 8/16/32/64) are covered by model-vs-simulator "
    "correspondence plus the specification oracles (packet-level and cycle-level) on simulator traces. The connection between the "
    "handler ports and the wire (IN tokens -> start, ACK -> start_position += mps in StandardRequestHandler, USBDataPacketGenerator) is "
    "covered by the end-to-end oracle (whole USBDevice driven over UTMI for both handlers), not by a theorem. Latency (bk_lat/ds_lat) is a "
    "parameter of the specification machine. Not modelled: runtime descriptors other than constant byte strings; a request with "
    "start_position = wLength (a host asking for more than it requested) is outside req_legal -- both handlers answer it with a ZLP "
    "(model mirrors the code; the block netlist tie covers it).")
TECHNIQUE = ("Rocq proof: list-level induction for the host loop; simulation relations between code-shaped FSM models (block ROM walker incl. "
             "ROM layout lemmas for a Gallina generate_rom_content; bank of C27 generator models) and a packet-level specification machine; "
             "certified product reachability of the regenerated netlists over explicit request alphabets; differential ROM-layout test; "
             "specification oracles on simulator traces and on a whole-device UTMI simulation")
