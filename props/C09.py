"""C09 -- GET_DESCRIPTOR returns exactly the requested descriptor bytes
(luna/gateware/usb/usb2/descriptor.py: GetDescriptorHandlerBlock incl. generate_rom_content, GetDescriptorHandlerDistributed;
 luna/gateware/stream/generator.py: ConstantStreamGenerator; start_position bookkeeping of luna/gateware/usb/request/standard.py)."""
import os, sys, json
from harness.core import Target
from harness import core, tie
from harness import tie_explicit

PID = "C09"
TIE_IMPORTS = ("From LunaModel Require Import ConstGen DescSpec DescSpec_proofs DescRom DescRom_proofs "
               "DescBlock DescBlock_proofs DescDist DescDist_proofs.\n")

ASSUMPTIONS = [
    "handler-level environment (s_env / req_legal): a request (start strobe) is made only while the handler is idle; value, "
    "length and start_position are held and start stays low until the answer is complete (they come from the latched SETUP "
    "packet and the request handler's start_position register); start_position < wLength and start_position <= len(descriptor) "
    "-- exactly the offsets a host produces that reads in max-packet-size pieces (theorem C09_offsets_legal)",
    "protocol level: the host reads at offsets 0, mps, 2*mps, ... (the 11-bit start_position register of StandardRequestHandler "
    "advances by max_packet_size per ACK) until a short packet, wLength bytes, or STALL; descriptors shorter than 2048 bytes; "
    "wLength >= 1 (a GET_DESCRIPTOR with wLength = 0 has no data stage); the ACK/IN-token plumbing of the control endpoint is "
    "covered by the end-to-end oracle (full USBDevice driven over UTMI), not by a theorem",
    "zero-length packet on the handler's tx stream = ONE cycle of valid & last & ~first (the convention USBDataPacketGenerator "
    "implements: it never raises ready for such a beat, so a ZLP that is held until ready is transmitted again and again)",
    "latency between start and the answer is implementation-defined (bk_lat / ds_lat) and not part of the property",
    "collections (coll_okb): types and indexes < 256, at most 255 indexes per type, bytes < 256, ROM image < 64 KiB; "
    "a language descriptor (type 3 index 0) is always present because DeviceDescriptorCollection adds one",
    "ROM layout: Python generate_rom_content is compared with the Gallina rom_of / max_desc_len / max_type / index_map on random "
    "collections on every run (differential test); the layout lemmas are proved about rom_of",
    "runtime (callable) descriptors of GetDescriptorHandlerDistributed and GetDescriptorHandlerMux are not modelled",
    "tie configurations: see obligation_list",
]

# ------------------------------------------------------------------------------------------------------------
# collections
# ------------------------------------------------------------------------------------------------------------
LANG = (3, 0, [4, 3, 9, 4])


def _blob(n, seed):
    return [(seed * 37 + 11 * k + (k * k) % 7) & 0xFF for k in range(n)]


TINY_A = [(1, 0, [5, 1, 7, 8, 9]), LANG, (3, 2, [8, 3, 1, 2, 3, 4, 5, 6])]                 # sparse indexes -> index map
TINY_B = [(1, 0, _blob(10, 1)), (2, 0, _blob(16, 2)), LANG, (3, 1, _blob(8, 3))]            # consecutive indexes
TINY_C = [(2, 1, _blob(3, 4)), (2, 5, _blob(12, 5)), LANG, (6, 0, _blob(1, 6))]             # sparse, type gap, length 1


def repo_test_collection():
    """The collection of tests/test_usb2_descriptor.py (device, configuration, strings incl. a sparse one, HID)."""
    from usb_protocol.emitters import DeviceDescriptorCollection
    from usb_protocol.emitters.descriptors.standard import get_string_descriptor
    descriptors = DeviceDescriptorCollection()
    with descriptors.DeviceDescriptor() as d:
        d.bcdUSB = 2.00; d.idVendor = 0x1234; d.idProduct = 0x4567
        d.iManufacturer = "Manufacturer"; d.iProduct = "Product"
        d.iSerialNumber = "ThisSerialNumberIsResultsInADescriptorLongerThan64Bytes"
        d.bNumConfigurations = 1
        with descriptors.ConfigurationDescriptor() as c:
            c.bmAttributes = 0xC0; c.bMaxPower = 50
            with c.InterfaceDescriptor() as i:
                i.bInterfaceNumber = 0; i.bInterfaceClass = 0x02; i.bInterfaceSubclass = 0x02; i.bInterfaceProtocol = 0x01
                with i.EndpointDescriptor() as e:
                    e.bEndpointAddress = 0x81; e.bmAttributes = 0x03; e.wMaxPacketSize = 64; e.bInterval = 11
    descriptors.add_descriptor(get_string_descriptor("nonconsecutive"), index=0xfe)
    descriptors.add_descriptor(b'\x09\x21\x01\x01\x00\x01\x22\x00\x32')
    return [(int(t), int(i), list(bytes(raw))) for t, i, raw in descriptors]


def random_triples(rng, mps=None, maxlen=200, ntypes=None):
    """Random collection: sparse types 0..15, sparse indexes, lengths around multiples of 8/16/32/64."""
    mps = mps or rng.choice([8, 16, 32, 64])
    types = sorted(rng.sample(range(0, 16), ntypes or rng.randint(1, 5)))
    out = {}
    for t in types:
        n = rng.randint(1, 4)
        if rng.random() < 0.5:
            idxs = list(range(n))
        else:
            idxs = sorted(rng.sample(range(0, rng.choice([6, 40, 256])), n))
        for ix in idxs:
            base = rng.choice([0, mps, 2 * mps, 8, 16, 32, 64, 128]) if rng.random() < 0.7 else rng.randint(0, maxlen)
            L = max(1, min(maxlen, base + rng.choice([-2, -1, 0, 0, 1, 2, 3, 4, 5])))
            out[(t, ix)] = [rng.randrange(256) for _ in range(L)]
    out.setdefault((3, 0), LANG[2])
    items = list(out.items()); rng.shuffle(items)
    return [(t, ix, d) for (t, ix), d in items]


def collection_of(triples):
    from usb_protocol.emitters import DeviceDescriptorCollection
    c = DeviceDescriptorCollection()
    for ty, ix, data in triples:
        c.add_descriptor(bytes(data), index=ix, descriptor_type=ty)
    return c


def coq_triples(triples):
    return "[" + "; ".join(f"({t}, {i}, [{'; '.join(str(b) for b in d)}])" for t, i, d in triples) + "]"


def coq_coll(triples):
    return f"(coll_of_triples {coq_triples(triples)})"


# ------------------------------------------------------------------------------------------------------------
# targets
# ------------------------------------------------------------------------------------------------------------
def mk(name, kind, triples, mps, big):
    def build():
        from luna.gateware.usb.usb2.descriptor import GetDescriptorHandlerBlock, GetDescriptorHandlerDistributed
        cls = GetDescriptorHandlerBlock if kind == "block" else GetDescriptorHandlerDistributed
        d = cls(collection_of(triples), max_packet_length=mps)
        ins = [("value", d.value), ("length", d.length), ("start", d.start), ("start_position", d.start_position),
               ("ready", d.tx.ready)]
        outs = [("valid", d.tx.valid), ("first", d.tx.first), ("last", d.tx.last), ("payload", d.tx.payload),
                ("stall", d.stall)]
        return d, ins, outs
    t = Target(name, build)
    t.params = dict(kind=kind, triples=triples, mps=mps)
    t.big = big
    t.coll = coq_coll(triples)
    return t


_cache = {}


def targets(tier):
    key = ("targets", tier)
    if key in _cache:
        return _cache[key]
    import random
    r = random.Random(909)          # configuration choice is fixed; the traces use the run's rng
    ts = [mk("blk_tinyA_mps4", "block", TINY_A, 4, False),
          mk("blk_tinyB_mps8", "block", TINY_B, 8, False)]
    if tier != "quick":
        ts.append(mk("blk_tinyC_mps4", "block", TINY_C, 4, False))
    ts.append(mk("dst_tinyA_mps4", "dist", TINY_A, 4, False))
    if tier != "quick":
        ts.append(mk("dst_tinyB_mps8", "dist", TINY_B, 8, False))
        ts.append(mk("dst_tinyC_mps4", "dist", TINY_C, 4, False))
    ts.append(mk("blk_repo_mps64", "block", repo_test_collection(), 64, True))
    ts.append(mk("dst_repo_mps64", "dist", repo_test_collection(), 64, True))
    nrand = 2 if tier == "quick" else 8
    for k in range(nrand):
        mps = [8, 16, 32, 64][k % 4]
        tri = random_triples(r, mps)
        ts.append(mk(f"blk_rand{k}_mps{mps}", "block", tri, mps, True))
        ts.append(mk(f"dst_rand{k}_mps{mps}", "dist", tri, mps, True))
    _cache[key] = ts
    return ts


# ------------------------------------------------------------------------------------------------------------
# traces
# ------------------------------------------------------------------------------------------------------------
def _present(triples):
    return {(t, i): d for t, i, d in triples}


def _pick_value(rng, triples, p_absent=0.3):
    pres = _present(triples)
    if rng.random() >= p_absent:
        t, i = rng.choice(list(pres))
        return (t << 8) | i
    maxt = max(t for t, _ in pres)
    kind = rng.randrange(4)
    if kind == 0:                       # present type, absent index
        t = rng.choice([t for t, _ in pres]); i = rng.randrange(256)
    elif kind == 1:                     # absent type below the maximum
        t = rng.randrange(maxt + 1); i = rng.choice([0, 0, rng.randrange(256)])
    elif kind == 2:                     # type beyond the table
        t = rng.randrange(maxt + 1, 256) if maxt < 255 else maxt; i = rng.choice([0, rng.randrange(256)])
    else:
        t = rng.randrange(256); i = rng.randrange(256)
    return (t << 8) | i


def _one_request(rng, triples, mps, value, wlen, sp, p_ready, tr, legal=True):
    """Append one request (start cycle + held inputs until the answer must be over) to tr."""
    pres = _present(triples)
    d = pres.get((value >> 8, value & 0xFF))
    n = 0 if d is None else max(0, min(mps, wlen - sp, len(d) - sp))
    cyc = lambda start, ready: dict(value=value, length=wlen, start=start, start_position=sp, ready=ready)
    tr.append(cyc(1, int(rng.random() < p_ready)))
    budget = 6 + n                       # latency (<= 4) + one cycle per byte + slack
    style = rng.randrange(3)
    k = 0; accepted = 0
    while k < budget or accepted < n + 1:
        if style == 0:   rdy = int(rng.random() < p_ready)
        elif style == 1: rdy = int(k >= 7)          # like USBDataPacketGenerator: ready low until the PID is out
        else:            rdy = 1
        if p_ready == 0.0 and k > budget + 3: rdy = 1
        tr.append(cyc(0, rdy)); k += 1
        if k > 5: accepted += rdy
        if k > 4 * (budget + n) + 40: break
    return n


def gen_trace(rng, triples, mps, nreq, adversarial=False):
    pres = _present(triples)
    tr = []
    for _ in range(nreq):
        value = _pick_value(rng, triples)
        d = pres.get((value >> 8, value & 0xFF))
        L = len(d) if d is not None else rng.choice([4, 18, 64])
        wlen = rng.choice([1, 2, mps - 1, mps, mps + 1, 2 * mps, L - 1, L, L + 1, L + mps, 255, 0xFFFF, rng.randint(1, 2 * L + 2)])
        wlen = max(1, min(0xFFFF, wlen))
        kmax = min(L, wlen - 1) // mps
        sp = mps * rng.randint(0, kmax)
        if rng.random() < 0.4: sp = mps * kmax         # favour the last piece (short packet / ZLP)
        # idle gap: arbitrary inputs with start low
        for _ in range(rng.choice([0, 1, 2, 5])):
            tr.append(dict(value=rng.getrandbits(16), length=rng.getrandbits(16), start=0,
                           start_position=rng.getrandbits(11), ready=rng.getrandbits(1)))
        if adversarial and rng.random() < 0.5:
            sp = rng.choice([sp + 1, L + 1, L + mps, wlen, wlen + 3, rng.getrandbits(11)]) & 0x7FF
            if rng.random() < 0.3: wlen = rng.choice([0, wlen])
        p_ready = rng.choice([0.0, 0.3, 0.8, 1.0])
        start_at = len(tr)
        _one_request(rng, triples, mps, value, wlen, sp, p_ready, tr)
        if adversarial:
            for k in range(start_at + 1, len(tr)):
                if rng.random() < 0.08: tr[k]["start"] = 1
                if rng.random() < 0.05: tr[k]["value"] = _pick_value(rng, triples)
                if rng.random() < 0.05: tr[k]["start_position"] = rng.getrandbits(11)
                if rng.random() < 0.05: tr[k]["length"] = rng.getrandbits(16)
    return tr


def traces(target, rng, tier):
    key = ("traces", target.name, tier)
    if key in _cache:
        return _cache[key]
    p = target.params
    n = (10 if tier == "quick" else 40)
    out = []
    for k in range(n):
        adversarial = (k % 5 == 4)
        out.append(gen_trace(rng, p["triples"], p["mps"], rng.choice([2, 4, 6]), adversarial))
    target.legal = [k % 5 != 4 for k in range(n)]
    _cache[key] = out
    return out


# ------------------------------------------------------------------------------------------------------------
# obligations
# ------------------------------------------------------------------------------------------------------------
def pack_in(value, wlen, start, sp, ready):
    return value | (wlen << 16) | (start << 32) | (sp << 33) | (ready << 44)


def alphabet_for(triples, mps, tier):
    """Explicit input alphabet of the lock-step ties: every present descriptor, absent index / absent type / type beyond
    the table, wLength around the packet size and the descriptor lengths, all packet-aligned offsets, plus misaligned and
    out-of-range ones; each with start and ready both ways."""
    pres = _present(triples)
    maxt = max(t for t, _ in pres)
    values = [(t << 8) | i for t, i in pres]
    t0, i0 = sorted(pres)[0]
    absent = [(t0 << 8) | ((i0 + 1) & 0xFF)]
    gap = [t for t in range(maxt + 1) if t not in {t for t, _ in pres}]
    if gap: absent.append(gap[0] << 8)
    absent.append(((maxt + 1) & 0xFF) << 8)
    absent.append(0xFF00 | i0)
    lens = sorted({len(d) for d in pres.values()})
    wlens = sorted({1, mps - 1, mps, mps + 1, 2 * mps, 0xFFFF} | set(lens) | {L + 1 for L in lens})
    sps = sorted({0, mps, 2 * mps, 3 * mps, 1, 0x7FF})
    if tier == "quick":
        # the quick closure has to stay within ~10^5 netlist steps: one absent index, one type beyond the table,
        # a wLength just above the packet size and an unbounded one, the packet-aligned offsets
        absent = [absent[0], absent[-2]]
        wlens = [mps + 1, 0xFFFF]
        sps = [0, mps, 2 * mps]
    words = []
    for v in values + absent:
        for w in wlens:
            for s in sps:
                for st in (0, 1):
                    for r in (0, 1):
                        words.append(pack_in(v, w, st, s, r))
    return words


def obligations(targets, tier):
    obs = []
    for t in targets:
        p = t.params
        if p["kind"] == "block":
            cfg = f"(block_cfg {t.coll} {p['mps']})"
            if t.big:
                obs.append(tie.corr(f"corr_{t.name}", t, mstep=f"bk_step {cfg}", m0="bk_init",
                                    describe=f"{t.name}: block handler model vs simulator, {len(p['triples'])} descriptors, "
                                             f"max packet {p['mps']}, legal and adversarial request sequences"))
                continue
            alpha = alphabet_for(p["triples"], p["mps"], tier)
            t.alpha_size = len(alpha)
            obs.append(tie_explicit.rlock_alpha(
                f"ob_{t.name}", t, St="bk_state", mstep=f"bk_step {cfg}", enc=f"bk_enc {cfg}", dec=f"bk_dec {cfg}",
                wf=f"bk_wf {cfg}", dec_enc=f"bk_dec_enc {cfg}", wf_step=f"bk_wf_step {cfg}", m0="bk_init",
                wf_m0="apply bk_wf_init.", alphabet=core.nlist(alpha), fuel=100000,
                describe=f"{t.name}: netlist == block handler model on all input histories over {len(alpha)} input words "
                         f"(every descriptor, absent index/type, wLength around packet size and descriptor lengths, "
                         f"aligned and misaligned offsets, start/ready both ways)"))
    return obs


def tie_theorems(targets, tier):
    s = ""
    for t in targets:
        if t.big: continue
        p = t.params
        if p["kind"] == "block":
            cfg = f"(block_cfg {t.coll} {p['mps']})"
            spec = f"(s_step (resp_of {t.coll} {p['mps']}) (bk_lat {t.coll}))"
            s += f"""
Theorem C09_{t.name} : forall tr, Forall (fun i => In i ob_{t.name}.alpha) tr ->
  env_ok sstate {spec} (s_env (req_legal {t.coll})) SIdle tr = true ->
  run {t.modname}.step {t.modname}.init tr = run {spec} SIdle tr.
Proof.
  intros tr H HE. rewrite (ob_{t.name}_T.tie tr H (env_ok_true _ _ _ _)).
  apply block_refines; [vm_compute; reflexivity | vm_compute; split; discriminate | exact HE].
Qed.
"""
    return s


def tie_theorem_names(targets, tier):
    return [f"C09_{t.name}" for t in targets if not t.big]


LEVEL_TEXT = "TODO"
LEVEL_NOTE = "TODO"
TECHNIQUE = "TODO"
