"""C45 -- transaction packet generator (luna/gateware/usb/usb3/protocol/transaction.py:
TransactionPacketGenerator)."""
from harness.core import Target
from harness import tie

PID = "C45"
ASSUMPTIONS = [
    "input word per ss cycle = interface.endpoint_number(7) retry_required(1) next_sequence(5) send_ack send_stall "
    "send_nrdy send_erdy address(7) header_source.ready; the parametric theorems quantify over all 2^25 words and all histories",
    "simultaneous request strobes are resolved as the code's If-chain does (ERDY > NRDY > STALL > ACK); 'a request of "
    "that subtype' in the property is read for cycles with a single strobe (C45_single_strobe)",
    "the transaction packet has a 4-bit endpoint field: the low four bits of the 7-bit interface.endpoint_number are carried",
    "only the ACK packet has retry / sequence-number fields; STALL is emitted through the ACK layout with "
    "number_of_packets = 1 exactly as the code does (a reserved bit of the STALL packet; not part of the property)",
    "R tie alphabet (TpGen.tp_alpha, 768 words): all 16 strobe combinations x header_source.ready x 24 field patterns "
    "(all-0, all-1, 0xAAAAA, 0x55555, walking one through the 20 field bits); random full-width fields: correspondence only",
]
TIE_IMPORTS = "From LunaLib Require Import SsWords.\nFrom LunaModel Require Import TpGen TpGen_proofs.\n"


def mk():
    def build():
        from amaranth import Elaboratable, Module, Signal, Cat
        from luna.gateware.usb.usb3.protocol.transaction import TransactionPacketGenerator

        class Wrap(Elaboratable):
            """TransactionPacketGenerator; the link-layer fields of the header gathered into one 32-bit port."""
            def __init__(self):
                self.dut = TransactionPacketGenerator()
                self.dw3 = Signal(32)
            def elaborate(self, platform):
                m = Module()
                m.submodules.dut = self.dut
                h = self.dut.header_source.header
                m.d.comb += self.dw3.eq(Cat(h.crc16, h.sequence_number, h.dw3_reserved, h.hub_depth,
                                            h.delayed, h.deferred, h.crc5))
                return m
        w = Wrap(); d = w.dut; i = d.interface; h = d.header_source
        return (w,
                [("ep", i.endpoint_number), ("retry", i.retry_required), ("seq", i.next_sequence),
                 ("send_ack", i.send_ack), ("send_stall", i.send_stall), ("send_nrdy", i.send_nrdy),
                 ("send_erdy", i.send_erdy), ("address", d.address), ("hs_ready", h.ready)],
                [("ready", i.ready), ("done", i.done), ("valid", h.valid),
                 ("dw0", h.header.dw0), ("dw1", h.header.dw1), ("dw2", h.header.dw2), ("dw3", w.dw3)])
    return Target("tpgen", build)


def targets(tier):
    return [mk()]


STROBES = ["send_ack", "send_stall", "send_nrdy", "send_erdy"]


def cyc(rng, strobes=(), hs=0, fields=None):
    f = fields or dict(ep=rng.randrange(128), retry=rng.getrandbits(1), seq=rng.randrange(32), address=rng.randrange(128))
    c = dict(f); c.update({s: 0 for s in STROBES}); c["hs_ready"] = hs
    for s in strobes: c[s] = 1
    return c


def traces(target, rng, tier):
    n = 40 if tier == "quick" else 400
    out = []
    for k in range(n):
        style = k % 4
        tr = []
        if style in (0, 1):
            # protocol-shaped: idle gap, single-strobe request, queue takes the header after a random delay;
            # while waiting the endpoint keeps changing its fields / raising further strobes (must be ignored)
            for _ in range(rng.randint(1, 8)):
                for _ in range(rng.choice([0, 0, 1, 3])):
                    tr.append(cyc(rng, hs=rng.getrandbits(1)))
                tr.append(cyc(rng, strobes=[rng.choice(STROBES)], hs=rng.getrandbits(1)))
                delay = rng.choice([0, 0, 1, 2, 5])
                for _ in range(delay):
                    noise = [rng.choice(STROBES)] if (style == 1 and rng.random() < 0.5) else []
                    tr.append(cyc(rng, strobes=noise, hs=0))
                tr.append(cyc(rng, strobes=[rng.choice(STROBES)] if rng.random() < 0.2 else [], hs=1))
        elif style == 2:
            # adversarial: everything random, including simultaneous strobes
            for _ in range(rng.randint(1, 60)):
                tr.append(cyc(rng, strobes=[s for s in STROBES if rng.random() < 0.3], hs=rng.getrandbits(1)))
        else:
            # boundary field values, back-to-back requests
            for _ in range(rng.randint(1, 30)):
                f = dict(ep=rng.choice([0, 1, 15, 16, 127]), retry=rng.getrandbits(1), seq=rng.choice([0, 1, 16, 31]),
                         address=rng.choice([0, 1, 64, 127]))
                tr.append(cyc(rng, strobes=[rng.choice(STROBES)] if rng.random() < 0.6 else [],
                              hs=int(rng.random() < 0.6), fields=f))
        out.append(tr)
    return out


def obligations(targets, tier):
    t = targets[0]
    return [
        tie.rmon("ob_tpgen", t,
                 mon="rl_mon tp_state tp_step tp_enc tp_dec (fun _ _ => true)",
                 m0="tp_enc tp_init", alpha_bits=25, alphabet="tp_alpha", fuel=100000,
                 describe="TransactionPacketGenerator == FSM model in lock step (all outputs incl. the full 128-bit header), "
                          "every trace over the 768 representative input words"),
        tie.corr("corr_tpgen", t, mstep="tp_step", m0="tp_init",
                 describe="model vs simulator, random full-width fields, protocol-shaped and adversarial strobe/ready timings"),
    ]


def tie_theorems(targets, tier):
    G = targets[0].modname
    return f"""
Theorem C45_netlist_meets_spec : forall tr, Forall (fun i => In i tp_alpha) tr ->
  run {G}.step {G}.init tr = run sp_step None tr.
Proof.
  intros tr H.
  rewrite (R_lockstep {G}.step tp_state tp_step tp_enc tp_dec tp_wf (fun _ _ => true)
             tp_dec_enc tp_wf_step tp_alpha ob_tpgen_T.L {G}.init tp_init
             ob_tpgen_T.L_closed ob_tpgen_T.init_in tp_wf_init tr H (env_ok_true _ _ _ _)).
  apply tp_refines.
Qed.

Theorem C45_netlist_exactly_once : forall tr, Forall (fun i => In i tp_alpha) tr ->
  let ios := combine tr (run {G}.step {G}.init tr) in
  exists rest, (length rest <= 1)%nat /\\ map encode (requests_of ios) = packets_of ios ++ rest.
Proof.
  intros tr H. cbv zeta. rewrite (C45_netlist_meets_spec tr H). exact (sp_exactly_once tr None).
Qed.
"""


def tie_theorem_names(targets, tier):
    return ["C45_netlist_meets_spec", "C45_netlist_exactly_once"]


LEVEL_TEXT = ("Machine-checked proof about a model, tied to the code. (1) For every input history (all 2^25 input words per cycle, "
              "any length): the model of TransactionPacketGenerator equals a specification machine whose only state is the request "
              "being served (C45_tp_refines); the headers taken by the header queue are, in order, exactly the encodings of the "
              "requests made while ready, at most the last still pending (C45_exactly_once); the encoding is a transaction packet of "
              "the requested subtype carrying the address, endpoint (4 bits), retry flag and sequence number of the request cycle "
              "(C45_header_fields). (2) The netlist regenerated from /repo is proved equal to the specification machine, all outputs "
              "including the 128-bit header, on every trace over 768 representative input words (C45_netlist_meets_spec, "
              "C45_netlist_exactly_once; certified product reachability), and compared with the model on random full-width "
              "fields (correspondence, not a proof).")
LEVEL_NOTE = ("Defect found by this check in the tree as first examined: in DISPATCH_REQUESTS send_erdy selected state SEND_NRDY, so an ERDY "
              "request produced an NRDY packet and SEND_ERDY was unreachable (findings/C45-erdy.json, patch findings/C45-erdy.diff); fixed "
              "in /repo by commit 6d732d1 -- the check exits 1 before that commit and 0 on the current tree. The R tie quantifies over a finite representative "
              "alphabet (all strobe/ready combinations, 24 field patterns), not over all 2^25 words. "
              "Trusted: Coq kernel + vm_compute, Amaranth elaboration, nir2coq.py/Netlist.v (validated each run against pysim).")
TECHNIQUE = ("Rocq proof: simulation relation to a one-slot specification machine + trace theorem (requests accepted = headers "
             "delivered) + field round-trip of the header encoding; certified product-reachability over a representative alphabet "
             "against the regenerated netlist; simulator correspondence")
