"""C40 -- each received data packet is reported good or bad exactly once
(luna/gateware/usb/usb3/link/data.py: DataPacketReceiver)."""
from harness.core import Target
from harness.slice import SlicedTarget
from harness import tie
from harness import tie_dep

PID = "C40"

HP, SDP, ENDW = 0xF7FBFBFB, 0xF75C5C5C, 0xF7FDFDFD

ASSUMPTIONS = [
    "no environment hypothesis on the receive stream: any words, any ctrl bits, any sink.valid gaps, any surrounding traffic; "
    "traces of any length.  One list element = one `ss` clock cycle",
    "reading of 'data packet received': what the specification parser recognises -- HPSTART, dw0 of type DATA, a header whose CRC-16 "
    "and CRC-5 are right, DPPSTART, payload words, the word completing the CRC-32.  A header with a wrong CRC is followed by NO report "
    "(in particular never 'good'): the code deliberately drops such packets (C40_bad_header); 'good iff header CRCs and CRC32 valid' is "
    "read as: good is reported only for packets whose header CRCs and CRC-32 are right, and exactly one of good/bad for every packet "
    "whose header was accepted",
    "data_length is taken modulo 2^lw, lw = width of data_bytes_remaining (LUNA: 11 = Signal(range(1025))): every legal length 0..1024 "
    "is exact; a header announcing >= 2048 bytes is truncated by the code and by the model alike (not a legal USB3 packet)",
    "ctrl bits are only examined on payload byte positions (a ctrl symbol there = one 'bad' at once); ctrl bits of header words and of "
    "the CRC bytes are ignored by the code and by the specification",
    "new_header is not part of the property (the code never clears it after the first packet) and is not observed",
    "R tie (theorem): the DataPacketReceiver code elaborated from /repo with MAX_PACKET_SIZE = 7 and its two CRC sub-units replaced by "
    "2-bit xor-checksum stand-ins (classes injected from props/C40.py; the receiver's own code is untouched), sliced to the non-header "
    "outputs, equals the model instantiated with the same stand-ins on all traces whose input word of each cycle is in the explicit "
    "list of the FSM state of that cycle (lists in obligation_list: valid and invalid words, ctrl errors, good and bad checksums, "
    "several lengths).  The real CRC kernels are proved equal to the references in C30",
    "the complete module with the real CRC units (lw = 11, header output included) is compared with the model and with the "
    "specification monitor on simulator traces with full-width random payloads (correspondence, not proof)",
]
TIE_IMPORTS = "From LunaLib Require Import ReachDep.\nFrom LunaModel Require Import Crc DataRx DataRx_proofs.\n"


# ---------------------------------------------------------------------------------------------
# reference CRCs (same conventions as coq/Model/Crc.v) and packet builders
def _crc_bits(poly, w, bits):
    reg = (1 << w) - 1
    for b in bits:
        msb = (reg >> (w - 1)) & 1
        reg = (reg << 1) & ((1 << w) - 1)
        if msb ^ b:
            reg ^= poly
    reg ^= (1 << w) - 1
    return int(format(reg, f"0{w}b")[::-1], 2)


def _lsb(v, n): return [(v >> i) & 1 for i in range(n)]
def crc5(v11): return _crc_bits(0x05, 5, _lsb(v11, 11))
def crc16h(words): return _crc_bits(0x100B, 16, [b for w in words for b in _lsb(w, 32)])
def crc32(bs): return _crc_bits(0x04C11DB7, 32, [b for x in bs for b in _lsb(x, 8)])


def header_words(dw0, dw1, dw2, lc11=0, crc16=None, c5=None):
    c16 = crc16h([dw0, dw1, dw2]) if crc16 is None else crc16
    c5 = crc5(lc11) if c5 is None else c5
    return [(HP, 15), (dw0, 0), (dw1, 0), (dw2, 0), (c16 | (lc11 << 16) | (c5 << 27), 0)]


def dpp_words(payload, crc=None, end=True):
    c = crc32(payload) if crc is None else crc
    bs = list(payload) + [(c >> (8 * i)) & 0xFF for i in range(4)]
    ctrl = [0] * len(bs)
    if end:
        bs += [0xFD, 0xFD, 0xFD, 0xF7]; ctrl += [1, 1, 1, 1]
    while len(bs) % 4:
        bs.append(0); ctrl.append(0)
    ws = [(sum(bs[i + j] << (8 * j) for j in range(4)), sum(ctrl[i + j] << j for j in range(4)))
          for i in range(0, len(bs), 4)]
    return [(SDP, 15)] + ws


# ---------------------------------------------------------------------------------------------
# targets
def _stub_classes():
    from amaranth import Elaboratable, Module, Signal

    def x2(data, nbytes):
        v = 0
        for k in range(nbytes):
            v = v ^ data[8 * k: 8 * k + 2]
        return v

    class Stub16(Elaboratable):
        """stand-in for HeaderPacketCRC: 2-bit xor checksum of the words, reset/clear value 3"""
        def __init__(self):
            self.clear = Signal(); self.data_input = Signal(32); self.advance_crc = Signal(); self.crc = Signal(16)
        def elaborate(self, platform):
            m = Module(); reg = Signal(2, init=3)
            with m.If(self.clear):
                m.d.ss += reg.eq(3)
            with m.Elif(self.advance_crc):
                m.d.ss += reg.eq(reg ^ x2(self.data_input, 4))
            m.d.comb += self.crc.eq(reg)
            return m

    class Stub32(Elaboratable):
        """stand-in for DataPacketPayloadCRC: 2-bit xor checksum of the accepted bytes, reset/clear value 3"""
        def __init__(self):
            self.clear = Signal(); self.data_input = Signal(32); self.crc = Signal(32)
            self.advance_word = Signal(); self.advance_3B = Signal(); self.advance_2B = Signal(); self.advance_1B = Signal()
        def elaborate(self, platform):
            m = Module(); reg = Signal(2, init=3)
            with m.If(self.clear):
                m.d.ss += reg.eq(3)
            with m.Elif(self.advance_word):
                m.d.ss += reg.eq(reg ^ x2(self.data_input, 4))
            with m.Elif(self.advance_3B):
                m.d.ss += reg.eq(reg ^ x2(self.data_input, 3))
            with m.Elif(self.advance_2B):
                m.d.ss += reg.eq(reg ^ x2(self.data_input, 2))
            with m.Elif(self.advance_1B):
                m.d.ss += reg.eq(reg ^ x2(self.data_input, 1))
            m.d.comb += self.crc.eq(reg)
            return m
    return Stub16, Stub32


def _build(max_size, stub, with_hdr):
    def build():
        from amaranth import Elaboratable, Module, Signal
        from luna.gateware.usb.usb3.link import data as D

        class Rx(D.DataPacketReceiver):
            MAX_PACKET_SIZE = max_size

        class Wrap(Elaboratable):
            def __init__(self):
                self.dut = Rx()
                self.hdr = Signal(128)
            def elaborate(self, platform):
                m = Module()
                if stub:
                    old = (D.HeaderPacketCRC, D.DataPacketPayloadCRC)
                    D.HeaderPacketCRC, D.DataPacketPayloadCRC = _stub_classes()
                    try:
                        m.submodules.dut = self.dut.elaborate(platform)
                    finally:
                        D.HeaderPacketCRC, D.DataPacketPayloadCRC = old
                else:
                    m.submodules.dut = self.dut
                m.d.comb += self.hdr.eq(self.dut.header)
                return m
        w = Wrap(); d = w.dut
        outs = [("s_data", d.source.data), ("s_valid", d.source.valid), ("s_first", d.source.first),
                ("s_last", d.source.last), ("good", d.packet_good), ("bad", d.packet_bad)]
        if with_hdr:
            outs.append(("hdr", w.hdr))
        return w, [("data", d.sink.data), ("ctrl", d.sink.ctrl), ("valid", d.sink.valid)], outs
    return build


def targets(tier):
    ts = []
    t = SlicedTarget("drx_stub7", _build(7, True, False)); t.params = dict(kind="stub", lw=3, hd=False, max=7); ts.append(t)
    # MAX_PACKET_SIZE a power of two: Signal(range(MAX + 1)) needs one bit more than range(MAX); length = MAX exactly is in the lists
    t = SlicedTarget("drx_stub8", _build(8, True, False)); t.params = dict(kind="stub", lw=4, hd=False, max=8); ts.append(t)
    t = Target("drx_full", _build(1024, False, True)); t.params = dict(kind="full", lw=11, hd=True, max=1024); ts.append(t)
    if tier != "quick":
        t = Target("drx_stub7h", _build(7, True, True)); t.params = dict(kind="stubh", lw=3, hd=True, max=7); ts.append(t)
        t = Target("drx_full12", _build(12, False, True)); t.params = dict(kind="full", lw=4, hd=True, max=12); ts.append(t)
    return ts


# ---------------------------------------------------------------------------------------------
# the R alphabets of the stand-in configuration: words (data, ctrl, valid) by name, and one word list per FSM state of
# the model (WAIT_FOR_HPSTART, RECEIVE_DW0..3, CHECK_HEADER, RECEIVE_PAYLOAD, CHECK_CRC32).
# Checksums of the stand-in units: 3 xor the low two bits of every accepted byte.
def _stub_words():
    c0 = crc5(0)
    A = 0x00050008
    return dict(
        HP=(HP, 15, 1), HPc=(HP, 14, 1),            # HPSTART; same data with a data byte in place of a symbol
        SD=(SDP, 15, 1), SDc=(SDP, 7, 1),           # DPPSTART (as dw1: length 4); broken framing
        A=(A, 0, 1),                                # dw0 (type DATA) / dw1 length 5 / dw2 / full payload word (checksum 1)
        Z=(0x00000008, 0, 1),                       # dw0 / dw1 length 0 / dw2
        B1=(0x00010008, 0, 1), B2=(0x00020008, 0, 1), B6=(0x00060008, 0, 1), B7=(0x00070008, 0, 1),   # dw1: lengths 1,2,6,7
        B4=(0x00040008, 0, 1), B8=(0x00080008, 0, 1),   # dw1: lengths 4 and 8 (8 = MAX_PACKET_SIZE of the drx_stub8 target)
        T=(2 | (c0 << 27), 0, 1),                   # dw3 for headers with word checksum 2 (e.g. A x A, A Z Z): CRC-5 of link word 0
        Tb=(1 | (c0 << 27), 0, 1),                  # wrong CRC-16 field
        T5=(2 | ((c0 ^ 1) << 27), 0, 1),            # wrong CRC-5
        P=(0x00000137, 0, 1),                       # after A: byte 5 of a 5-byte payload + low 3 checksum bytes (good)
        Q1=(0x00000037, 0, 1),                      # 1-byte payload + checksum 0
        Q2=(0x00000201, 0, 1),                      # 2- or 3-byte payload (01 02 [00]) + checksum 0
        Q6=(0x00010201, 0, 1), Q7=(0x01000201, 0, 1),   # after A: bytes 5..6 / 5..7 + checksum 1
        G=(3, 0, 1), G2=(2, 0, 1),                  # checksum word of an empty payload / of the 4-byte payload A
        F=(0xFDFDFD00, 14, 1), F2=(0xFDFD0000, 12, 1), F3=(0xFD000000, 8, 1),   # checksum top bytes 0, then END symbols
        Ac=(A, 1, 1), Pc=(0x00000137, 2, 1),        # ctrl symbol on payload byte 0 / on a checksum byte
        iHP=(HP, 15, 0), iG=(3, 0, 0), iSD=(SDP, 15, 0))    # invalid words


_STUB_ALPHA = [
    ("WAIT_FOR_HPSTART", ["HP", "HPc", "SD", "A", "Z", "T", "P", "F", "G", "iHP"]),
    ("RECEIVE_DW0",      ["A", "Z", "HP", "iHP"]),
    ("RECEIVE_DW1",      ["A", "Z", "B1", "B2", "B6", "B7", "SD", "HP", "iHP"]),
    ("RECEIVE_DW2",      ["A", "Z", "iHP"]),
    ("RECEIVE_DW3",      ["T", "Tb", "T5", "iG"]),
    ("CHECK_HEADER",     ["SD", "SDc", "A", "HP", "iHP", "iSD"]),
    ("RECEIVE_PAYLOAD",  ["A", "P", "Q1", "Q2", "Q6", "Q7", "G", "G2", "F", "Ac", "Pc", "HP", "iHP", "iG"]),
    ("CHECK_CRC32",      ["F", "F2", "F3", "G", "G2", "P", "iG", "iHP"]),
]
_STUB_ALPHA_QUICK = [
    ("WAIT_FOR_HPSTART", ["HP", "HPc", "SD", "A", "T", "G", "iHP"]),
    ("RECEIVE_DW0",      ["A", "Z", "HP", "iHP"]),
    ("RECEIVE_DW1",      ["A", "Z", "B1", "B2", "SD", "HP", "iHP"]),
    ("RECEIVE_DW2",      ["A", "Z", "iHP"]),
    ("RECEIVE_DW3",      ["T", "Tb", "T5", "iG"]),
    ("CHECK_HEADER",     ["SD", "A", "iHP", "iSD"]),
    ("RECEIVE_PAYLOAD",  ["A", "P", "Q1", "Q2", "G", "G2", "Ac", "iHP"]),
    ("CHECK_CRC32",      ["F", "F2", "F3", "G2", "iG"]),
]
_STUB_ALPHA_HDR = [      # smaller: the header registers multiply the reachable states
    ("WAIT_FOR_HPSTART", ["HP", "A", "iHP"]),
    ("RECEIVE_DW0",      ["A", "Z", "iHP"]),
    ("RECEIVE_DW1",      ["A", "Z", "B2", "iHP"]),
    ("RECEIVE_DW2",      ["A", "Z", "iHP"]),
    ("RECEIVE_DW3",      ["T", "Tb", "iG"]),
    ("CHECK_HEADER",     ["SD", "A", "iSD"]),
    ("RECEIVE_PAYLOAD",  ["A", "P", "Q2", "G", "Ac", "iHP"]),
    ("CHECK_CRC32",      ["F", "F2", "G", "iG"]),
]


_STUB_ALPHA_8 = [        # for MAX_PACKET_SIZE = 8 (4-bit counter): lengths 8 (= MAX), 5, 4, 0
    ("WAIT_FOR_HPSTART", ["HP", "A", "iHP"]),
    ("RECEIVE_DW0",      ["A", "Z", "iHP"]),
    ("RECEIVE_DW1",      ["B8", "A", "B4", "Z", "iHP"]),
    ("RECEIVE_DW2",      ["A", "Z", "iHP"]),
    ("RECEIVE_DW3",      ["T", "Tb", "iG"]),
    ("CHECK_HEADER",     ["SD", "A", "iSD"]),
    ("RECEIVE_PAYLOAD",  ["A", "P", "G", "G2", "Ac", "iHP"]),
    ("CHECK_CRC32",      ["G", "G2", "F", "iG"]),
]


def _table(kind, tier, mx=7):
    if kind == "stubh":
        return _STUB_ALPHA_HDR
    if mx == 8:
        return _STUB_ALPHA_8
    return _STUB_ALPHA_QUICK if tier == "quick" else _STUB_ALPHA


def _alpha_coq(table):
    w = _stub_words()
    return "drx_alpha " + " ".join("[" + "; ".join(str(_pack(*w[n])) for n in ns) + "]" for _, ns in table)


def _alpha_text(table):
    w = _stub_words()
    return "; ".join(f"{st}: " + " ".join(f"{w[n][0]:08x}/{w[n][1]:x}/{'v' if w[n][2] else '-'}" for n in ns) for st, ns in table)


def _pack(d, c, v): return d | (c << 32) | (v << 36)


def _w(d, c, v=1): return dict(data=d, ctrl=c, valid=v)


# ---------------------------------------------------------------------------------------------
# traces
def _idle(rng):
    return _w(rng.choice([rng.getrandbits(32), HP, SDP, 0]), rng.choice([0, 15, rng.getrandbits(4)]), 0)


def _stream_full(rng, lw):
    """valid words of a mostly well-formed stream: data packets with boundary lengths, corruptions, other traffic"""
    maxlen = min(1024, (1 << lw) - 1)
    ws = []
    for _ in range(rng.randint(1, 4)):
        k = rng.random()
        L = rng.choice([0, 1, 2, 3, 4, 5, 6, 7, 8, 9, 11, 12, 13, 16, 17, rng.randint(0, min(maxlen, 40))])
        L = min(L, maxlen)
        payload = [rng.getrandbits(8) for _ in range(L)]
        dw0 = 8 | (rng.getrandbits(27) << 5)
        dw1 = rng.getrandbits(16) | (L << 16)
        dw2 = rng.getrandbits(32)
        lc = rng.getrandbits(11)
        hdr = header_words(dw0, dw1, dw2, lc)
        body = dpp_words(payload)
        if k < 0.45:
            pass                                                    # good packet
        elif k < 0.55:
            body = dpp_words(payload, crc=crc32(payload) ^ (1 << rng.randrange(32)))      # CRC-32 corrupted
        elif k < 0.62:
            hdr = header_words(dw0, dw1, dw2, lc, crc16=crc16h([dw0, dw1, dw2]) ^ (1 << rng.randrange(16)))
        elif k < 0.68:
            hdr = header_words(dw0, dw1, dw2, lc, c5=crc5(lc) ^ (1 << rng.randrange(5)))
        elif k < 0.76 and len(body) > 1:                             # ctrl symbol somewhere in the body
            j = rng.randrange(1, len(body)); d, c = body[j]; body[j] = (d, c | (1 << rng.randrange(4)))
        elif k < 0.82:
            hdr = header_words((dw0 & ~0x1F) | rng.choice([0, 4, 12, 24]), dw1, dw2, lc)   # not a data header
        elif k < 0.88:
            body = body[:rng.randrange(len(body))]                  # truncated, next packet follows at once
        elif k < 0.94:
            hdr = hdr[:rng.randrange(1, 5)]; body = []              # truncated header
        else:
            body = [(rng.getrandbits(32), rng.getrandbits(4))] + body[1:]   # no DPPSTART after the header
        ws += hdr + body
        for _ in range(rng.choice([0, 0, 1, 3])):
            ws.append((rng.choice([rng.getrandbits(32), 0, ENDW, HP]), rng.choice([0, 0, 15, rng.getrandbits(4)])))
    return ws


def _stream_stub(rng):
    w = _stub_words()
    g = lambda *ns: [w[n][:2] for n in ns]
    al = [v[:2] for v in w.values() if v[2]]
    ws = []
    for _ in range(rng.randint(1, 5)):
        k = rng.random()
        if k < 0.15:   ws += g("HP", "A", "A", "A", "T", "SD", "A", "P", "F")            # good, 5 bytes
        elif k < 0.25: ws += g("HP", "A", "Z", "Z", "T", "SD", "G", "F")                 # good, empty
        elif k < 0.32: ws += g("HP", "A", "B1", "Z", "T", "SD", "Q1", "F")               # good, 1 byte
        elif k < 0.39: ws += g("HP", "A", "B2", "Z", "T", "SD", "Q2", "F2")              # good, 2 bytes
        elif k < 0.46: ws += g("HP", "A", "B7", "Z", "T", "SD", "A", "Q7", "F3")         # good, 7 bytes
        elif k < 0.50: ws += g("HP", "A", "SD", "Z", "T", "SD", "A", "G2")               # good, 4 bytes
        elif k < 0.53: ws += g("HP", "A", "B8", "Z", "T", "SD", "A", "A", "G")           # good, 8 bytes
        elif k < 0.60: ws += g("HP", "A", "A", "A", "T", "SD", "Ac", "P", "F")           # ctrl symbol in the payload
        elif k < 0.67: ws += g("HP", "A", "A", "A", "Tb", "SD", "A", "P", "F")           # header CRC-16 wrong
        else:
            ws += [rng.choice(al) for _ in range(rng.randint(1, 12))]
        if rng.random() < 0.3:
            ws += [(rng.getrandbits(32), rng.getrandbits(4))]
    return ws


def traces(target, rng, tier):
    kind, lw = target.params["kind"], target.params["lw"]
    n = (16 if kind == "full" else 12) if tier == "quick" else 70
    out = []
    for k in range(n):
        ws = _stream_full(rng, lw) if (kind == "full" or rng.random() < 0.3) else _stream_stub(rng)
        p_idle = rng.choice([0.0, 0.0, 0.15, 0.5])
        tr = []
        for d, c in ws:
            while rng.random() < p_idle:
                tr.append(_idle(rng))
            tr.append(_w(d, c, 1))
        tr += [_idle(rng), _idle(rng)]
        out.append(tr)
    if kind == "full":
        out += _boundary_traces(rng, target.params["max"], tier)
    return out


def _boundary_traces(rng, mx, tier):
    """Packets whose length is at / just below MAX_PACKET_SIZE (the largest value data_bytes_remaining must hold):
    good and CRC-corrupted, with and without idle words."""
    plan = [(mx, False, 0.0), (mx, True, 0.1), (mx - 1, False, 0.05)] if tier == "quick" else \
           [(L, bad, p) for L in range(mx - 4, mx + 1) for bad, p in ((False, 0.0), (True, 0.1))] + [(mx, False, 0.3), (mx, False, 0.0)]
    out = []
    for L, bad, p_idle in plan:
        payload = [rng.getrandbits(8) for _ in range(L)]
        dw0, dw1, dw2, lc = 8 | (rng.getrandbits(27) << 5), rng.getrandbits(16) | (L << 16), rng.getrandbits(32), rng.getrandbits(11)
        ws = header_words(dw0, dw1, dw2, lc) + dpp_words(payload, crc=(crc32(payload) ^ (1 << rng.randrange(32))) if bad else None)
        ws += header_words(8, 3 << 16, 0, 0) + dpp_words([1, 2, 3])          # a short packet right behind it
        tr = []
        for d, c in ws:
            while rng.random() < p_idle:
                tr.append(_idle(rng))
            tr.append(_w(d, c, 1))
        tr += [_idle(rng), _idle(rng)]
        out.append(tr)
    return out


# ---------------------------------------------------------------------------------------------
def _units(kind): return "drx_real_units" if kind == "full" else "drx_stub_units"
def _spec(kind): return "crc16_hdr crc32_usb" if kind == "full" else "drx_stub_h16 drx_stub_c32"
def _bounded(kind): return "drx_real_bounded" if kind == "full" else "drx_stub_bounded"
def _b(x): return "true" if x else "false"


def obligations(targets, tier):
    obs = []
    for t in targets:
        kind, lw, hd = t.params["kind"], t.params["lw"], t.params["hd"]
        U = _units(kind)
        mstep = f"drx_step {U} {lw} {_b(hd)}"
        if kind in ("stub", "stubh"):
            table = _table(kind, tier, t.params["max"])
            obs.append(tie_dep.rlock_dep(
                f"ob_{t.name}", t, St="drx_state", mstep=mstep, enc="drx_enc", dec="drx_dec", wf="drx_wf",
                dec_enc="drx_dec_enc", wf_step=f"drx_wf_step {U} {lw} {_b(hd)} {_bounded(kind)} drx_lw_{lw}",
                m0=f"drx_init {U}", wf_m0=f"apply drx_wf_init; exact {_bounded(kind)}.",
                alpha=_alpha_coq(table), fuel=5000,
                describe=f"DataPacketReceiver(MAX_PACKET_SIZE={t.params['max']}, stand-in CRC units"
                         f"{'' if hd else ', sliced to the non-header outputs'}) == model on all traces whose word of each cycle is "
                         f"in the list of the FSM state of that cycle (data/ctrl/valid) -- " + _alpha_text(table)))
        else:
            obs.append(tie.corr(f"corr_{t.name}", t, mstep=mstep, m0=f"drx_init {U}",
                                describe=f"complete DataPacketReceiver (real CRC units, lw={lw}, header output) vs model: random "
                                         f"data packets (lengths 0..40 incl. every tail, and MAX_PACKET_SIZE-4..MAX_PACKET_SIZE), CRC/ctrl corruption, idle words, other traffic"))
        obs.append(tie.cmon(f"spec_{t.name}", t, mon=f"(drx_spec_mon {_spec(kind)} {lw} {_b(hd)})", m0="1",
                            describe="specification parser over the valid input words (reference CRCs) as runtime oracle on simulator "
                                     "traces of the real code: the events of every cycle must be the specification's"))
    return obs


def tie_theorems(targets, tier):
    s = ""
    for t in targets:
        kind, lw, hd = t.params["kind"], t.params["lw"], t.params["hd"]
        if kind == "full":
            continue
        G = t.modname; ob = f"ob_{t.name}"
        if hd:
            s += f"""
Theorem C40_{t.name}_spec : forall tr,
  alpha_ok drx_state (drx_step drx_stub_units {lw} true) ({_alpha_coq(_table(kind, tier, t.params['max']))}) (drx_init drx_stub_units) tr = true ->
  flat_map drx_events_w (run {G}.step {G}.init tr) = sp_run drx_stub_h16 drx_stub_c32 {lw} SIdle (drx_vwords tr).
Proof.
  intros tr H. rewrite ({ob}_T.tie tr H).
  apply drx_machine_events. exact (drx_stub_events {lw}).
Qed.
"""
        else:
            s += f"""
Theorem C40_{t.name}_spec : forall tr,
  alpha_ok drx_state (drx_step drx_stub_units {lw} false) ({_alpha_coq(_table(kind, tier, t.params['max']))}) (drx_init drx_stub_units) tr = true ->
  flat_map drx_events_w (run {G}.step {G}.init tr)
  = map drx_ev_nohdr (sp_run drx_stub_h16 drx_stub_c32 {lw} SIdle (drx_vwords tr)).
Proof.
  intros tr H. rewrite ({ob}_T.tie tr H).
  apply drx_machine_events_nohdr. exact (drx_stub_events {lw}).
Qed.
"""
    return s


def tie_theorem_names(targets, tier):
    return [f"C40_{t.name}_spec" for t in targets if t.params["kind"] != "full"]


LEVEL_TEXT = ("Machine-checked proof about a code-shaped model of DataPacketReceiver, parametric in the CRC units and the width of "
              "data_bytes_remaining: for EVERY input history the observable events (payload beats with valid bytes/first/last/header, "
              "good/bad reports) equal the events of a specification parser that looks only at the valid words and decides with the "
              "reference CRCs (C40_events_are_spec; simulation relation, induction over the trace) -- so idle words never matter "
              "(C40_idle_words_do_not_matter); every data packet, after/before arbitrary traffic, yields its beats then exactly one report, "
              "good iff crc32(payload) = the 4 bytes after it, with header CRCs valid (C40_packet_reported_once); the beats carry exactly "
              "data-length bytes and no report (C40_payload_is_data_length_bytes, C40_beats_carry_no_report); a ctrl symbol on a payload "
              "byte gives one bad (C40_ctrl_symbol_in_payload); a header with a wrong CRC gives no report (C40_bad_header).  The receiver's "
              "netlist regenerated from /repo (small MAX_PACKET_SIZE, stand-in CRC units) is proved equal to the model on all traces over "
              "per-state word alphabets (certified product reachability), hence satisfies the same specification (C40_drx_stub7_spec).  "
              "Five defects of the original code were found by this check (findings/C40-*.json, confirmed on the simulator) and are "
              "fixed in /repo (findings/C40-report-once.diff).")
LEVEL_NOTE = ("Trusted: Coq kernel + vm_compute, Amaranth elaboration, nir2coq.py/Netlist.v (validated each run against pysim). The netlist "
              "theorem is for the receiver's own code with MAX_PACKET_SIZE = 7 and MAX_PACKET_SIZE = 8 (a power of two, length = MAX in the lists), stand-in (2-bit xor) CRC units, the header output sliced away, "
              "and traces whose word of each cycle is in the explicit list of that cycle's FSM state (valid/invalid words, every length "
              "0..7 in the thorough tier (0,1,2,3,4,5 quick), good and wrong checksums/CRC-5, ctrl symbols on payload and CRC bytes, broken "
              "framing); the thorough tier adds a target with the header output (smaller lists).  The real CRC kernels are C30's theorems; "
              "the complete module with real CRCs, lw = 11 (thorough: also MAX_PACKET_SIZE = 12) and full-width data is covered by "
              "correspondence with the model and by the specification monitor on simulator traces, not by proof.  Packets whose header CRC "
              "is wrong get no report at all (the code's design): the property's 'every data packet' is read as 'every packet whose "
              "header was accepted'.  new_header (never cleared by the code) is outside the property and not observed.")
TECHNIQUE = ("Rocq proof: simulation relation between the FSM model and a list-accumulating specification parser (unbounded traces, "
             "parametric CRC units), CRC unit correctness from the bit-serial references, certified product-reachability lock-step "
             "against the regenerated netlist over state-dependent word alphabets, simulator correspondence + specification monitor")
