"""C19 -- USB2 reset / high-speed handshake / suspend sequencer (luna/gateware/usb/usb2/reset.py: USBResetSequencer)."""
import os, time
from harness.core import Target
from harness import core, tie

PID = "C19"

CONST_NAMES = ["_CYCLES_2P5_MICROSECONDS", "_CYCLES_5_MICROSECONDS", "_CYCLES_200_MICROSECONDS",
               "_CYCLES_2_MILLISECONDS", "_CYCLES_2P5_MILLISECONDS", "_CYCLES_3_MILLISECONDS"]
# the specification table: cycles of the 60 MHz UTMI clock (2.5 us, 5 us, 200 us, 2 ms, 2.5 ms, 3 ms)
SPEC_60MHZ = (150, 300, 12000, 120000, 150000, 180000)

ASSUMPTIONS = [
    "the six cycle constants are class attributes read through `self`; the scaled-down targets are subclasses that override "
    "them (no edit of /repo); the unscaled class is checked against the 60 MHz table (150, 300, 12000, 120000, 150000, 180000) "
    "and against the model at those constants on long simulator traces (run-length encoded, props/C19.py: correspondence)",
    "'high-speed operation' is read off the three transceiver controls: current_speed = HIGH, operating_mode = NORMAL, "
    "termination_select = HS_NORMAL; 'the handshake' is chirp mode (operating_mode = CHIRP); 'restricted' = low_speed_only or "
    "full_speed_only in that cycle",
    "bus reset from high speed: the code (like USB 2.0 7.1.7.6) samples the line ONCE, c_200us+1 cycles after reverting to "
    "full speed; the rule says 'c_3ms cycles of SE0 in HS operation, then a line state other than J at that sample', not '200 us of "
    "continuous non-idle'",
    "the device chirp is required to have been driven (>= 1 cycle of tx.valid in chirp mode); its length depends on bus_busy "
    "(c_2ms - 1 cycles when bus_busy stays low) and is not part of the property text",
    "K-J pairs: six line states K,J,K,J,K,J each lasting >= c_2p5us cycles, in this order, possibly separated by other line "
    "states (the code re-arms after a short state without clearing the count); resuming from an HS suspend re-enters HS even "
    "while restricted and is then left again two cycles later (as the property text allows)",
    "R ties: rs_a = constants (1,2,1,2,3,3), all 7 input bits; rs_c = (1,2,1,2,7,3): the 2-bit timers can never equal "
    "c_2p5ms = 7, so the handshake never times out and HS, HS-suspend, resume are reachable with a 4x4 timer space (rule_timeout "
    "is not claimed there); thorough adds rs_b = (1,2,2,2,20,21) (HS and the time-out both reachable) over the 16 input "
    "words with low_speed_only = bus_busy = disconnect = 0",
]
TIE_IMPORTS = "From LunaModel Require Import ResetSeq ResetSeq_proofs.\n"

IN_PORTS = ["low_speed_only", "full_speed_only", "bus_busy", "vbus_connected", "line_state", "disconnect"]
IN_SHIFT = dict(low_speed_only=0, full_speed_only=1, bus_busy=2, vbus_connected=3, line_state=4, disconnect=6)
SE0, J, K, SE1 = 0, 1, 2, 3

try:        # long list literals in generated Coq files
    import resource
    _soft, _hard = resource.getrlimit(resource.RLIMIT_STACK)
    resource.setrlimit(resource.RLIMIT_STACK, (_hard, _hard))
except Exception:      # pragma: no cover
    pass


def coqK(k):
    return ("{| c_2p5us := %d; c_5us := %d; c_200us := %d; c_2ms := %d; c_2p5ms := %d; c_3ms := %d |}" % tuple(k))


def make_dut(consts):
    from luna.gateware.usb.usb2.reset import USBResetSequencer
    if consts is None:
        return USBResetSequencer()
    # the class reads its constants through `self`, so a subclass overriding the class attributes scales every
    # timer (and the width of the two timer registers) without touching /repo
    cls = type("ScaledResetSequencer", (USBResetSequencer,), dict(zip(CONST_NAMES, consts)))
    return cls()


def ports(d):
    ins = [(n, getattr(d, n)) for n in IN_PORTS]
    outs = [("bus_reset", d.bus_reset), ("suspended", d.suspended), ("current_speed", d.current_speed),
            ("operating_mode", d.operating_mode), ("termination_select", d.termination_select),
            ("tx_valid", d.tx.valid), ("tx_data", d.tx.data)]
    return ins, outs


def mk(name, consts, kind, alphabet=None, all_rules=True):
    def build():
        d = make_dut(consts)
        ins, outs = ports(d)
        return d, ins, outs
    t = Target(name, build)
    t.consts = consts; t.kind = kind; t.alphabet = alphabet; t.all_rules = all_rules
    return t


# input words with low_speed_only = bus_busy = disconnect = 0: full_speed_only (2), vbus_connected (8), line_state (16, 32) free
ALPHA_B = [fs | vb | ln for ln in (0, 16, 32, 48) for vb in (0, 8) for fs in (0, 2)]

# development only: "noR" skips the R obligations (to exercise the oracles alone), "only:<target>" keeps one target,
# "noreal" skips the 60 MHz run
DEV = os.environ.get("C19_DEV", "")


def targets(tier):
    ts = [mk("rs_a", (1, 2, 1, 2, 3, 3), "R"),
          mk("rs_c", (1, 2, 1, 2, 7, 3), "R", all_rules=False),
          mk("rs_m1", (2, 3, 2, 3, 30, 40), "mid")]
    if tier != "quick":
        ts += [mk("rs_b", (1, 2, 2, 2, 20, 21), "R", alphabet=ALPHA_B),
               mk("rs_big", (15, 30, 120, 200, 400, 500), "big"),
               mk("rs_m2", (3, 6, 5, 8, 60, 63), "mid"),
               mk("rs_m3", (4, 8, 7, 9, 100, 128), "mid"),
               mk("rs_big2", (150, 300, 1200, 1500, 2500, 3000), "big")]
    if "only:" in DEV:                    # development only: a single target
        ts = [t for t in ts if t.name == DEV.split("only:")[1].split(",")[0]]
    return ts


# ---------------------------------------------------------------------------------------------
# Scenario generator: run-length segments [(inputs, cycles)] built around the thresholds of the given constants
def scenario(rng, k, rounds=None, allow_ls=True):
    T25, T5, T200, T2m, T25m, T3m = k
    base = dict(low_speed_only=0, full_speed_only=0, bus_busy=0, vbus_connected=1, line_state=J, disconnect=0)
    segs = []

    def seg(line, n, **kw):
        if n > 0:
            c = dict(base); c["line_state"] = line; c.update(kw); segs.append((c, n))

    def near(t):
        return max(0, t + rng.choice([-2, -1, 0, 0, 1, 1, 2, 3]))

    seg(J, rng.randint(1, 4), vbus_connected=rng.choice([0, 1, 1]))
    for _ in range(rounds or rng.randint(1, 3)):
        restr = {}
        r = rng.random()
        if r < 0.15: restr = dict(full_speed_only=1)
        elif r < 0.2 and allow_ls: restr = dict(low_speed_only=1)
        # bus reset from FS (or from suspend / HS, depending on where the previous round ended)
        seg(SE0, near(T5) + rng.randint(0, 2), **restr)
        seg(SE0, 2 + rng.choice([0, 0, 0, 1, T2m + 1]), bus_busy=rng.choice([0, 0, 1]))
        seg(SE0, near(T2m) + 2)
        mode = rng.choice(["good", "good", "good", "short", "glitch", "late", "none", "oneK", "restrict"])
        if mode == "late":
            seg(SE0, max(0, T25m - 1 - rng.choice([0, 0, 1, 2, 6 * (T25 + 3)])))     # first K around the time-out cycle
        if mode == "oneK":
            seg(K, T25 + 2 + rng.randint(0, 2))
            for _ in range(2):
                seg(J, T25 + 1); seg(rng.choice([SE0, SE1, K]), 1)
            seg(J, T25 + 2 + rng.randint(0, 2))
        elif mode != "none":
            for p in range(rng.choice([3, 3, 3, 4, 2])):
                for sym in (K, J):
                    n = T25 + 2 + rng.choice([0, 0, 0, 1, 3])
                    if mode == "short" and rng.random() < 0.3:
                        n = T25 + rng.choice([0, 1])
                    kw = dict(full_speed_only=1) if mode == "restrict" and rng.random() < 0.2 else {}
                    seg(sym, n, **kw)
                    if mode == "glitch" and rng.random() < 0.4:
                        seg(rng.choice([SE0, SE1, K if sym == J else J]), rng.choice([1, 1, 2]))
                        seg(sym, T25 + rng.choice([0, 1, 2, 3]))
        else:
            seg(SE0, near(T25m) + 3)
        # high speed (or FS after a failed handshake): idle / reset / suspend discrimination
        if rng.random() < 0.25:
            seg(rng.choice([J, K, SE1]), rng.randint(1, 3), disconnect=rng.choice([0, 1]))
        if rng.random() < 0.2:
            seg(SE0, rng.randint(1, 3), **rng.choice([dict(full_speed_only=1), dict(vbus_connected=0),
                                                       dict(low_speed_only=1) if allow_ls else dict(full_speed_only=1)]))
        seg(SE0, near(T3m) + 1)
        w = near(T200) + 1
        kw = rng.choice([{}, {}, {}, dict(full_speed_only=1)])
        cut = rng.randint(0, w)
        seg(rng.choice([SE0, J, K]), cut)
        seg(rng.choice([SE0, SE0, J, J, K]), w - cut + rng.randint(0, 2), **kw)
        # suspended (or not): resume / reset
        seg(rng.choice([J, J, SE0]), rng.randint(0, 3))
        seg(rng.choice([K, K, SE0, J]), near(T25) + rng.randint(0, 3), **rng.choice([{}, {}, dict(full_speed_only=1)]))
        if rng.random() < 0.5:
            seg(J, near(T3m) + 2)                                   # full-speed suspend
            seg(rng.choice([K, SE0, SE0]), near(T25) + 2)
        if rng.random() < 0.2:
            seg(J, rng.randint(1, 3), disconnect=1); seg(rng.choice([J, SE0]), near(T25) + 3, disconnect=1)
            seg(J, rng.randint(1, 4))
    return segs


def expand(segs):
    out = []
    for c, n in segs:
        out.extend([c] * n)
    return out


def random_trace(rng, n, alphabet=None):
    tr = []
    p_line = rng.choice([[0, 0, 0, 1, 1, 2, 3], [0, 1, 2], [0, 0, 0, 0, 1, 2]])
    hold = None
    for _ in range(n):
        if hold is None or rng.random() < 0.4:
            hold = rng.choice(p_line)
        c = dict(low_speed_only=int(rng.random() < 0.04), full_speed_only=int(rng.random() < 0.06),
                 bus_busy=int(rng.random() < 0.1), vbus_connected=int(rng.random() < 0.95),
                 line_state=hold, disconnect=int(rng.random() < 0.03))
        if alphabet is not None:
            c.update(low_speed_only=0, bus_busy=0, disconnect=0)
        tr.append(c)
    return tr


def traces(target, rng, tier):
    k = target.consts
    n = 1 if tier == "quick" else 3
    out = []
    if target.kind == "R":
        for _ in range(12 * n):
            out.append(random_trace(rng, rng.randint(1, 120), target.alphabet))
        for _ in range(10 * n):
            tr = expand(scenario(rng, k, allow_ls=target.alphabet is None))[:300]
            if target.alphabet is not None:
                tr = [dict(c, bus_busy=0, disconnect=0, low_speed_only=0) for c in tr]
            out.append(tr)
    elif target.kind == "mid":
        for _ in range(14 * n):
            out.append(expand(scenario(rng, k))[:700])
        for _ in range(4 * n):
            out.append(random_trace(rng, rng.randint(50, 300)))
    else:
        for _ in range(3 * n):
            out.append(expand(scenario(rng, k, rounds=2)))
    return out


# ---------------------------------------------------------------------------------------------
def rlock_alpha(name, target, *, alphabet, St, mstep, enc, dec, wf, dec_enc, wf_step, m0, wf_m0, fuel=5000, describe=""):
    """tie.rlock over an explicit input alphabet (Machine.R_lockstep is stated for any alphabet list): the search visits
    only those words instead of all 2^k words with an environment filter.  alphabet = None: all 7-bit words.
    The closure check is evaluated once, by the kernel at Qed (vm_cast_no_check), instead of twice."""
    G = target.modname
    alpha = "range_bits 7" if alphabet is None else "[" + "; ".join(str(int(a)) for a in alphabet) + "]"
    env = "(fun _ _ => true)"
    defs = f"""
Module {name}.
  Definition step := {G}.step.
  Definition mon := rl_mon ({St}) ({mstep}) ({enc}) ({dec}) ({env}).
  Definition alpha : list N := {alpha}.
  Definition m0 := ({enc}) ({m0}).
  Definition bfs := Eval vm_compute in explore step mon alpha {fuel} {G}.init m0.
  Definition ob_cex := Eval vm_compute in cex bfs.
  Definition ob_left := Eval vm_compute in length (front bfs).
  Definition ob_states := Eval vm_compute in length (allst bfs).
End {name}.
"""
    thms = f"""
Module {name}_T.
  Import {name}.
  Definition L := Eval vm_compute in allst bfs.
  Lemma L_closed : closed step mon alpha L = true.
  Proof. vm_cast_no_check (eq_refl true). Qed.
  Lemma init_in : pmem {G}.init m0 (of_list L) = true.
  Proof. vm_cast_no_check (eq_refl true). Qed.
  Theorem tie : forall tr, Forall (fun i => In i alpha) tr ->
    run {G}.step {G}.init tr = run ({mstep}) ({m0}) tr.
  Proof.
    intros tr H.
    apply (R_lockstep step ({St}) ({mstep}) ({enc}) ({dec}) ({wf}) ({env}) ({dec_enc}) ({wf_step}) alpha L).
    - exact L_closed.
    - exact init_in.
    - {wf_m0}
    - exact H.
    - apply env_ok_true.
  Qed.
End {name}_T.
"""
    return tie.Obligation(name, "R-lockstep", target, defs, thms, [f"{name}_T.tie"], describe,
                          mon_expr=f"{name}.mon", m0_expr=f"{name}.m0")


def obligations(targets, tier):
    obs = []
    for t in targets:
        Kc = coqK(t.consts)
        allr = "true" if t.all_rules else "false"
        if t.kind == "R" and "noR" not in DEV:
            desc = (f"USBResetSequencer with cycle constants {t.consts} == property-satisfying FSM model, all input traces "
                    "(a counterexample is an input trace on which the code departs from the model; the three departures known "
                    "in /repo and the rules they break are in findings/C19-D*.json/.diff)")
            kw = dict(St="rs_state", mstep=f"rs_step {Kc}", enc=f"rs_enc {Kc}", dec=f"rs_dec {Kc}",
                      wf=f"rs_wf {Kc}", dec_enc=f"rs_dec_enc {Kc}", wf_step=f"rs_wf_step {Kc}", m0="rs_init",
                      wf_m0="apply rs_wf_init.", fuel=100000)
            obs.append(rlock_alpha(f"ob_{t.name}", t, alphabet=t.alphabet, describe=desc + (
                " over the input words with low_speed_only = bus_busy = disconnect = 0" if t.alphabet else ""), **kw))
        if t.kind == "mid" or (t.kind == "R" and (tier != "quick" or "noR" in DEV)):
            obs.append(tie.cmon(f"spec_{t.name}", t, mon=f"(rs_mon {Kc} {allr})", m0="rs_mon0",
                                describe=f"C19 rules ({'all' if t.all_rules else 'all but the time-out bound'}) evaluated over "
                                         f"simulator traces, constants {t.consts}"))
        if t.kind in ("mid", "big"):
            obs.append(tie.corr(f"corr_{t.name}", t, mstep=f"rs_step {Kc}", m0="rs_init",
                                describe=f"FSM model vs simulator at cycle constants {t.consts}"))
    return obs


def tie_theorems(targets, tier):
    s = ""
    for t in targets:
        if t.kind != "R" or "noR" in DEV:
            continue
        Kc = coqK(t.consts); G = t.modname
        rule = "rule_all" if t.all_rules else "rule_safe"
        thm = "rs_all" if t.all_rules else "rs_safe"
        if t.alphabet is None:
            hyp = "Forall (fun i => i < 2 ^ N.of_nat 7) tr"
            use = f"(ob_{t.name}_T.tie tr (Forall_range_bits 7 tr H))"
        else:
            hyp = f"Forall (fun i => In i ob_{t.name}.alpha) tr"
            use = f"(ob_{t.name}_T.tie tr H)"
        s += f"""
Theorem C19_{t.name} : forall tr, {hyp} ->
  run {G}.step {G}.init tr = map (fun c => pack_out (c_out c)) (rs_trace {Kc} rs_init (map decode_in tr))
  /\\ always ({rule} {Kc}) [] (rs_trace {Kc} rs_init (map decode_in tr)).
Proof.
  intros tr H. split.
  - rewrite {use}. apply rs_run_trace.
  - apply {thm}; vm_compute; discriminate.
Qed.
"""
    return s


def tie_theorem_names(targets, tier):
    return [f"C19_{t.name}" for t in targets if t.kind == "R" and "noR" not in DEV]


# ---------------------------------------------------------------------------------------------
# The class as it is (60 MHz constants): table check + model correspondence on long run-length encoded traces
def pack_in(c):
    return sum((c[n] & (3 if n == "line_state" else 1)) << sh for n, sh in IN_SHIFT.items())


def simulate_rle(dut, segs):
    """Run Amaranth's simulator over run-length segments; returns the outputs run-length encoded [(word, n)]."""
    from amaranth.sim import Simulator
    ins, outs = ports(dut)
    insig = dict(ins)
    widths = [len(s) for _, s in outs]
    sim = Simulator(dut)
    sim.add_clock(1e-6, domain="usb")
    res = []
    total = sum(n for _, n in segs)

    async def tb(ctx):
        # cycle k: inputs of cycle k are set, outputs sampled just before the edge that ends cycle k
        bounds = []
        pos = 0
        for c, n in segs:
            bounds.append((pos, c)); pos += n
        bounds.append((pos, None))
        for nme, v in bounds[0][1].items():
            ctx.set(insig[nme], v)
        nxt = 1
        k = 0
        async for vals in ctx.tick("usb").sample(*[s for _, s in outs]):
            w = 0; sh = 0
            for v, wd in zip(vals[2:], widths):
                w |= int(v) << sh; sh += wd
            if res and res[-1][0] == w:
                res[-1][1] += 1
            else:
                res.append([w, 1])
            k += 1
            if k >= total:
                break
            if k == bounds[nxt][0]:
                for nme, v in bounds[nxt][1].items():
                    ctx.set(insig[nme], v)
                nxt += 1
    sim.add_testbench(tb)
    sim.run()
    return [(w, n) for w, n in res]


def correspondence(tier, rng, bdir, cov):
    from luna.gateware.usb.usb2.reset import USBResetSequencer
    real = tuple(getattr(USBResetSequencer, n) for n in CONST_NAMES)
    if real != SPEC_60MHZ:
        return dict(property=PID, obligation="table_60MHz", reason="the cycle constants the class computes differ from the "
                    "60 MHz specification table", class_constants=dict(zip(CONST_NAMES, real)),
                    specification=dict(zip(CONST_NAMES, SPEC_60MHZ)), confirmed_on_pysim=True, nofail=False)
    ntr = 0 if "noreal" in DEV else 1 if tier == "quick" else 3
    t0 = time.time()
    cycles = 0
    for idx in range(ntr):
        segs = scenario(rng, real, rounds=1 if tier == "quick" else 2)
        out_rle = simulate_rle(make_dut(None), segs)
        n = sum(c for _, c in segs); cycles += n
        defs = ("Definition expand (r : list (N * N)) : list N := flat_map (fun p => repeat (fst p) (N.to_nat (snd p))) r.\n"
                "Definition rin : list (N * N) := [" + "; ".join(f"({pack_in(c)}, {k})" for c, k in segs) + "].\n"
                "Definition rout : list (N * N) := [" + "; ".join(f"({w}, {k})" for w, k in out_rle) + "].\n")
        res = core.coq_eval(bdir, f"Real_{idx}", tie.HEADER + TIE_IMPORTS, defs,
                            [("code", "diff_at (rs_step K_60MHz) (fun o => o) 0 rs_init (expand rin) (expand rout)")],
                            timeout=1500)
        code = core.parse_nums(res["code"])[0]
        if code != 0:
            return dict(property=PID, obligation="corr_60MHz", target="USBResetSequencer()",
                        reason="the class with its real (60 MHz) constants differs from the model at K_60MHz",
                        differing_cycle=code - 1, inputs_rle=[(c, k) for c, k in segs], outputs_rle=out_rle, nofail=True)
    cov["correspondence"].append(dict(obligation="corr_60MHz", target="USBResetSequencer() (unscaled, constants == 60 MHz table)",
                                      traces=ntr, cycles=cycles, seconds=round(time.time() - t0, 1),
                                      describe="FSM model at K_60MHz vs simulator, run-length encoded scenario traces"))
    return None


LEVEL_TEXT = ("Machine-checked proof. For every choice of the six cycle constants with c_200us <= c_3ms and c_2p5ms <= c_3ms (in "
              "particular the 60 MHz values) and every input history, the model of USBResetSequencer satisfies in every cycle: "
              "bus_reset only without VBUS or after >= c_2p5us (suspended) / c_5us (active) cycles of continuous SE0 or, from high "
              "speed, c_3ms cycles of SE0 and a non-J line 200 us after reverting to FS; suspended only after c_3ms cycles of "
              "continuous idle; HS operation begins only after a bus reset reported while unrestricted, followed in one chirp-mode "
              "episode by the device chirp and six line states K,J,K,J,K,J of >= c_2p5us cycles each, or on resume from an HS "
              "suspend; chirp mode begins only two cycles after such an unrestricted bus reset; HS operation ends within two cycles "
              "of a restriction; chirp mode ends at most c_2p5ms+2 cycles after the device chirp, into HS or FS/LS operation "
              "(C19_rules, C19_safety_rules, C19_rules_60MHz). At the tie configurations the netlist regenerated from /repo is "
              "proved output-equal to the model on all input traces (certified product reachability), which transfers the rules to "
              "the netlist (C19_rs_a: all rules; C19_rs_c: all but the time-out bound; thorough tier also C19_rs_b: all rules, over "
              "the input words with low_speed_only = bus_busy = disconnect = 0). The boolean oracle run over simulator traces is "
              "proved sound for the rules (C19_oracle_sound).")
LEVEL_NOTE = ("The model is the property-satisfying behaviour. The code in /repo as found violates three of the rules (confirmed on "
              "Amaranth's simulator): D1 the HS handshake is started from DETECT_HS_SUSPEND while full_speed_only/low_speed_only is "
              "set; D2 the 2.5 ms chirp time-out is lost when the awaited K/J arrives in the time-out cycle, so a late host chirp "
              "still yields HS; D3 a J that is rejected in the cycle it becomes valid is nevertheless counted, so one K and three J "
              "reach HS. ./check C19 reports VIOLATION on the unchanged tree and passes with findings/C19-*.diff applied. "
              "Not covered by a theorem about the netlist: constants other than the tie configurations (parametric model theorem + "
              "correspondence on simulator traces, including the unscaled 60 MHz class); the length of the device chirp; liveness "
              "of the handshake (a compliant host chirp is accepted) is only exercised by examples/correspondence.")
TECHNIQUE = ("Rocq proof: history invariant of a parametric FSM model against declarative line-state rules (induction over the "
             "trace) + certified product-reachability lock-step against the regenerated netlist at scaled-down constants + "
             "specification oracle and model correspondence on simulator traces up to the real 60 MHz constants")
