"""Shared by props/C37.py and props/C38.py: targets and trace generators for
luna/gateware/usb/usb3/link/receiver.py (RawHeaderPacketReceiver, HeaderPacketReceiver).

Three kinds of target:

  raw    the real RawHeaderPacketReceiver (32-bit sink, 128-bit packet output)
  full   the real HeaderPacketReceiver(buffer_count=n): real raw receiver, real link command generator,
         128-bit header buffers, 3-bit sequence numbers
  stub   HeaderPacketReceiver's own elaborate() from /repo with a SHRUNK configuration, for exhaustive (R) ties:
           * buffer_count = n (1, 2, 4),
           * SEQUENCE_NUMBER_WIDTH = sw (class attribute, overridden in a subclass),
           * header records hw bits wide instead of 128 (the names HeaderPacket / HeaderQueue in the module's
             namespace are pointed at a narrow Record while the module elaborates),
           * the RawHeaderPacketReceiver submodule replaced by a stub whose new_packet / bad_packet /
             bad_sequence / packet are free inputs (the bookkeeping only ever reads those four signals and
             drives the stub's sink and expected_sequence).
         Everything else -- counters, buffers, dispatcher FSM, LinkCommandGenerator -- is the code under test.
"""
import os, sys, threading

from harness.core import Target
from harness.nir_split import SplitTarget

# the harness builds targets from several threads; the stub builder redirects names in LUNA's receiver module while
# it elaborates, so every builder of this file runs under one lock
_BUILD_LOCK = threading.RLock()


def _locked(build):
    def wrapped():
        with _BUILD_LOCK:
            return build()
    return wrapped


MASK32 = 0xFFFFFFFF
HP_START = 0xF7FBFBFB
LC_START = 0xF7FEFEFE


# ---------------------------------------------------------------------------------------------
# reference CRCs (bit-serial, MSB-first register, init all ones, message LSB first, complement + reverse)
def _crc(poly, width, bits):
    reg = (1 << width) - 1
    for b in bits:
        top = (reg >> (width - 1)) & 1
        reg = (reg << 1) & ((1 << width) - 1)
        if top ^ b:
            reg ^= poly
    reg ^= (1 << width) - 1
    return int("{:0{w}b}".format(reg, w=width)[::-1], 2)


def crc5(v11):
    return _crc(0x05, 5, [(v11 >> k) & 1 for k in range(11)])


def crc16_hdr(words):
    return _crc(0x100B, 16, [(w >> k) & 1 for w in words for k in range(32)])


def header_words(dw0, dw1, dw2, seq, *, rsvd=0, hub=0, delayed=0, deferred=0, bad5=False, bad16=False):
    lcw = seq | (rsvd << 3) | (hub << 6) | (delayed << 9) | (deferred << 10)
    c5 = crc5(lcw) ^ (1 if bad5 else 0)
    c16 = crc16_hdr([dw0, dw1, dw2]) ^ (0x8000 if bad16 else 0)
    return [dw0, dw1, dw2, c16 | (lcw << 16) | (c5 << 27)]


assert header_words(0x280, 0x10004, 0, 0)[3] == 0x10001845, "reference CRCs disagree with LUNA's test vector"


def lc_data(cmd, sub):
    w = sub | (cmd << 7)
    w |= crc5(w) << 11
    return w | (w << 16)


# ---------------------------------------------------------------------------------------------
CTRL = ["enable", "usb_reset", "queue_ready", "retry_received", "retry_required", "keepalive_required",
        "reject_power_state", "source_ready"]


def _ctrl_signals(d):
    return [("enable", d.enable), ("usb_reset", d.usb_reset), ("queue_ready", d.queue.ready),
            ("retry_received", d.retry_received), ("retry_required", d.retry_required),
            ("keepalive_required", d.keepalive_required), ("reject_power_state", d.reject_power_state),
            ("source_ready", d.source.ready)]


def mk_stub(n, sw, hw, downstream=False):
    def build():
        from amaranth import Elaboratable, Module, Signal
        from amaranth.hdl import Fragment
        from amaranth.hdl.rec import Record
        import luna.gateware.usb.usb3.link.receiver as R
        import luna.gateware.usb.usb3.link.header as H
        from luna.gateware.usb.stream import USBRawSuperSpeedStream

        class NarrowHeader(Record):
            @classmethod
            def get_layout(cls): return [('dw0', hw)]
            def __init__(self): super().__init__(self.get_layout(), name="NarrowHeader")

        class NarrowQueue(H.HeaderQueue):
            def __init__(self): super().__init__(header_type=NarrowHeader)

        class StubRx(Elaboratable):
            def __init__(self):
                self.sink = USBRawSuperSpeedStream()
                self.packet = NarrowHeader()
                self.new_packet = Signal(); self.bad_packet = Signal(); self.bad_sequence = Signal()
                self.expected_sequence = Signal(3)
            def elaborate(self, platform): return Module()

        stub = StubRx()
        saved = (R.RawHeaderPacketReceiver, R.HeaderPacket, R.HeaderQueue)
        R.RawHeaderPacketReceiver = lambda: stub
        R.HeaderPacket = NarrowHeader
        R.HeaderQueue = NarrowQueue
        try:
            cls = type("HeaderPacketReceiverShrunk", (R.HeaderPacketReceiver,), dict(SEQUENCE_NUMBER_WIDTH=sw))
            d = cls(buffer_count=n, downstream_facing=downstream)
            frag = Fragment.get(d, None)          # elaborate while the names are redirected
        finally:
            R.RawHeaderPacketReceiver, R.HeaderPacket, R.HeaderQueue = saved
        ins = _ctrl_signals(d) + [("new_packet", stub.new_packet), ("bad_packet", stub.bad_packet),
                                  ("bad_sequence", stub.bad_sequence), ("packet", stub.packet.dw0)]
        outs = [("queue_valid", d.queue.valid), ("queue_header", d.queue.header.dw0),
                ("source_valid", d.source.valid), ("source_data", d.source.data), ("source_ctrl", d.source.ctrl),
                ("recovery_required", d.recovery_required), ("link_command_sent", d.link_command_sent),
                ("lrty_pending", d.lrty_pending), ("expected", stub.expected_sequence)]
        return frag, ins, outs
    t = SplitTarget(f"hprx_stub_n{n}_s{sw}_h{hw}" + ("_dn" if downstream else ""), _locked(build))
    t.kind = "stub"; t.params = dict(n=n, sw=sw, hw=hw, downstream=downstream)
    return t


def mk_full(n, downstream=False):
    """The unmodified HeaderPacketReceiver.  The expected sequence number is not a port of the module; it is
    observed through the raw receiver's `expected_sequence` input (a Python attribute of the submodule object)."""
    def build():
        from amaranth.hdl import Fragment
        import luna.gateware.usb.usb3.link.receiver as R
        made = []
        orig = R.RawHeaderPacketReceiver
        def spy():
            rx = orig(); made.append(rx); return rx
        R.RawHeaderPacketReceiver = spy
        try:
            d = R.HeaderPacketReceiver(buffer_count=n, downstream_facing=downstream)
            frag = Fragment.get(d, None)
        finally:
            R.RawHeaderPacketReceiver = orig
        rx = made[0]
        h = d.queue.header
        ins = _ctrl_signals(d) + [("sink_valid", d.sink.valid), ("sink_data", d.sink.data), ("sink_ctrl", d.sink.ctrl)]
        outs = [("queue_valid", d.queue.valid),
                ("h_dw0", h.dw0), ("h_dw1", h.dw1), ("h_dw2", h.dw2), ("h_crc16", h.crc16),
                ("h_seq", h.sequence_number), ("h_rsvd", h.dw3_reserved), ("h_hub", h.hub_depth),
                ("h_delayed", h.delayed), ("h_deferred", h.deferred), ("h_crc5", h.crc5),
                ("source_valid", d.source.valid), ("source_data", d.source.data), ("source_ctrl", d.source.ctrl),
                ("recovery_required", d.recovery_required), ("link_command_sent", d.link_command_sent),
                ("lrty_pending", d.lrty_pending), ("expected", rx.expected_sequence),
                ("packet_received", d.packet_received), ("bad_packet_received", d.bad_packet_received)]
        return frag, ins, outs
    t = SplitTarget(f"hprx_full_n{n}" + ("_dn" if downstream else ""), _locked(build))
    t.kind = "full"; t.params = dict(n=n, sw=3, hw=128, downstream=downstream)
    return t


def mk_raw():
    def build():
        from luna.gateware.usb.usb3.link.receiver import RawHeaderPacketReceiver
        d = RawHeaderPacketReceiver()
        p = d.packet
        ins = [("sink_valid", d.sink.valid), ("sink_data", d.sink.data), ("sink_ctrl", d.sink.ctrl),
               ("expected_sequence", d.expected_sequence)]
        outs = [("new_packet", d.new_packet), ("bad_packet", d.bad_packet), ("bad_sequence", d.bad_sequence),
                ("p_dw0", p.dw0), ("p_dw1", p.dw1), ("p_dw2", p.dw2), ("p_crc16", p.crc16),
                ("p_seq", p.sequence_number), ("p_rsvd", p.dw3_reserved), ("p_hub", p.hub_depth),
                ("p_delayed", p.delayed), ("p_deferred", p.deferred), ("p_crc5", p.crc5)]
        from amaranth.hdl import Fragment
        return Fragment.get(d, None), ins, outs
    t = Target("rawrx", _locked(build))
    t.kind = "raw"; t.params = {}
    return t


def range_width(n):           # width of Signal(range(n))
    return max(n - 1, 0).bit_length()


def widths(n):
    """(pw, cw): widths of the buffer pointers Signal(range(n)) and of the counters Signal(range(n + 1))."""
    return range_width(n), range_width(n + 1)


def core_args(t):
    n = t.params["n"]; pw, cw = widths(n)
    return f"{n} {pw} {cw} {t.params['sw']} {'true' if t.params['downstream'] else 'false'}"


# ---------------------------------------------------------------------------------------------
# trace generators
def _rand_word(rng):
    return rng.choice([0, MASK32, HP_START, LC_START, rng.getrandbits(32), rng.getrandbits(32)])


def sink_stream(rng, length, *, p_hdr=0.12, p_bad=0.12, p_seq=0.06, p_gap=0.15, p_junk=0.05, seq0=0, track=None):
    """A stream of sink words (valid, data, ctrl): logical idle, header packets (mostly good and in sequence;
    `track` is a callable giving the sequence number the next good header should carry), corrupted headers,
    out-of-sequence headers, invalid gaps inside packets, and junk."""
    out = []
    seq = [seq0]
    while len(out) < length:
        r = rng.random()
        if r < p_hdr:
            s = track() if track else seq[0]
            kind = rng.random()
            bad5 = bad16 = False
            if kind < p_bad:
                bad5 = rng.random() < 0.5; bad16 = not bad5 or rng.random() < 0.3
            elif kind < p_bad + p_seq:
                s = (s + rng.randint(1, 7)) % 8
            else:
                seq[0] = (seq[0] + 1) % 8
            ws = header_words(rng.getrandbits(32), rng.getrandbits(32), rng.getrandbits(32), s,
                              rsvd=rng.randrange(8) if rng.random() < 0.2 else 0, hub=rng.randrange(8) if rng.random() < 0.2 else 0,
                              delayed=int(rng.random() < 0.2), deferred=int(rng.random() < 0.2), bad5=bad5, bad16=bad16)
            out.append((1, HP_START, 15))
            for w in ws:
                while rng.random() < p_gap:
                    out.append((0, _rand_word(rng), rng.randrange(16)))
                out.append((1, w, rng.choice([0, 0, 0, 0, rng.randrange(16)])))
            out.append((rng.getrandbits(1), 0, 0))
        elif r < p_hdr + p_junk:
            out.append((rng.getrandbits(1), _rand_word(rng), rng.choice([0, 15, rng.randrange(16)])))
        else:
            out.append((rng.choice([0, 1, 1]), 0, 0))
    return out[:length]


def raw_traces(rng, tier):
    n = 20 if tier == "quick" else 150
    out = []
    for k in range(n):
        L = rng.randint(20, 160)
        exp = [rng.randrange(8)]
        st = sink_stream(rng, L, p_hdr=rng.choice([0.1, 0.3]), seq0=exp[0])
        tr = []
        for (v, d, c) in st:
            if rng.random() < 0.03: exp[0] = rng.randrange(8)
            tr.append({"sink_valid": v, "sink_data": d, "sink_ctrl": c, "expected_sequence": exp[0]})
        out.append(tr)
    # LUNA's own test vectors
    vec = [(HP_START, 15), (0x280, 0), (0x10004, 0), (0, 0), (0x10001845, 0), (0, 0), (0, 0)]
    out.append([{"sink_valid": 1, "sink_data": d, "sink_ctrl": c, "expected_sequence": 0} for d, c in vec])
    out.append([{"sink_valid": 1, "sink_data": d, "sink_ctrl": c, "expected_sequence": 3} for d, c in vec])
    return out


def _ctrl_cycle(rng, st, *, restarts):
    """Control inputs of one cycle.  st: dict with persistent 'enable' and probabilities."""
    if restarts:
        if rng.random() < st["p_toggle"]:
            st["enable"] ^= 1
        rst = int(rng.random() < st["p_reset"])
    else:
        rst = 0
    return {"enable": st["enable"], "usb_reset": rst,
            "queue_ready": int(rng.random() < st["p_qrdy"]),
            "retry_received": int(rng.random() < st["p_retry"]),
            "retry_required": int(rng.random() < st["p_ev"]),
            "keepalive_required": int(rng.random() < st["p_ev"]),
            "reject_power_state": int(rng.random() < st["p_ev"] / 2),
            "source_ready": int(rng.random() < st["p_srdy"])}


def _ctrl_profile(rng, restarts):
    return dict(enable=1 if not restarts else rng.getrandbits(1),
                p_toggle=rng.choice([0.01, 0.03, 0.1]), p_reset=rng.choice([0.0, 0.01, 0.04]),
                p_qrdy=rng.choice([0.05, 0.3, 0.9, 1.0]), p_retry=rng.choice([0.02, 0.1]),
                p_ev=rng.choice([0.0, 0.02, 0.1]), p_srdy=rng.choice([0.3, 0.8, 1.0, 1.0]))


def stub_traces(target, rng, tier, *, restarts):
    """Stub targets: events new_packet / bad_packet / bad_sequence as the raw receiver would produce them.
    Half of the traces come from a polite partner (waits for the first credits, spaces its headers so that a credit
    has always come back, is served without stalls), the others stress the counters with arbitrary event timing
    (the partner's credit rules are then usually broken at some point; correspondence still applies)."""
    n = 18 if tier == "quick" else 120
    hw = target.params["hw"]; nbuf = target.params["n"]
    out = []
    for k in range(n):
        st = _ctrl_profile(rng, restarts)
        polite = (k % 2 == 0)
        wild = (k % 6 == 5)
        p_new = rng.choice([0.05, 0.15, 0.3]); p_bad = rng.choice([0.0, 0.03, 0.1])
        if polite:
            st["p_qrdy"] = 1.0; st["p_srdy"] = 1.0; st["p_ev"] = rng.choice([0.0, 0.01]); p_new = rng.choice([0.1, 0.5])
        tr = []
        cool = 3 * (nbuf + 1) + 4 if polite else 0
        for _ in range(rng.randint(10, 120)):
            c = _ctrl_cycle(rng, st, restarts=restarts)
            if polite and (not c["enable"] or c["usb_reset"]):
                cool = 3 * (nbuf + 1) + 6
            new = bad = bseq = 0
            if wild:
                new, bad, bseq = rng.getrandbits(1), int(rng.random() < 0.2), rng.getrandbits(1)
            elif cool == 0:
                r = rng.random()
                if r < p_new: new = 1; cool = 12 if polite else 5
                elif r < p_new + p_bad: bad = 1; cool = 12 if polite else 5
                elif r < p_new + p_bad + 0.03: bseq = 1; cool = 5
            else:
                cool -= 1
            c.update(new_packet=new, bad_packet=bad, bad_sequence=bseq, packet=rng.getrandbits(hw))
            tr.append(c)
        out.append(tr)
    return out


def full_traces(target, rng, tier, *, restarts):
    """The complete receiver: a link-partner script (header packets with good / corrupted CRCs and right / wrong
    sequence numbers, retries after corrupted headers) tracked against a prediction of the receiver's expected
    sequence number, so that most headers are acceptable when they arrive; plus junk words and invalid gaps."""
    n = 12 if tier == "quick" else 80
    out = []
    for k in range(n):
        st = _ctrl_profile(rng, restarts)
        polite = (k % 3 != 2)            # a partner that waits for the first credits and is served quickly
        if polite:
            st["p_qrdy"] = rng.choice([0.6, 1.0]); st["p_srdy"] = 1.0
        p_hdr = rng.choice([0.05, 0.15, 0.4]); p_bad = rng.choice([0.0, 0.1, 0.3]); p_seq = rng.choice([0.0, 0.05])
        p_gap = rng.choice([0.0, 0.15])
        L = rng.randint(40, 260)
        exp = 0; ignoring = False; retry_in = None
        pending = []                     # words of the header being sent
        verdict = None
        tr = []
        for t in range(L):
            cyc = _ctrl_cycle(rng, st, restarts=restarts)
            if retry_in is not None:
                retry_in -= 1
                cyc["retry_received"] = 0
                if retry_in <= 0:
                    cyc["retry_received"] = 1; retry_in = None; ignoring = False
            elif polite:
                cyc["retry_received"] = 0
            if not cyc["enable"] or cyc["usb_reset"]:
                ignoring = False
                if cyc["usb_reset"]: exp = 0
            v, d, c = rng.choice([0, 1, 1]), 0, 0
            if pending:
                if rng.random() < p_gap:
                    v, d, c = 0, _rand_word(rng), rng.randrange(16)
                else:
                    v, d, c = 1, pending.pop(0), rng.choice([0, 0, 0, 0, rng.randrange(16)])
                    if not pending:
                        good, inseq = verdict
                        up = cyc["enable"] and not cyc["usb_reset"]
                        if good and inseq and not ignoring and up:
                            exp = (exp + 1) % 8
                        elif not good and not ignoring and up:
                            ignoring = True; retry_in = rng.randint(4, 30)
            elif (not polite or t > 22) and rng.random() < p_hdr:
                r = rng.random()
                bad5 = bad16 = False; s_ = exp
                if r < p_bad:
                    bad5 = rng.random() < 0.5; bad16 = (not bad5) or rng.random() < 0.3
                elif r < p_bad + p_seq:
                    s_ = (exp + rng.randint(1, 7)) % 8
                verdict = (not (bad5 or bad16), s_ == exp)
                pending = header_words(rng.getrandbits(32), rng.getrandbits(32), rng.getrandbits(32), s_,
                                       rsvd=rng.randrange(8) if rng.random() < 0.2 else 0,
                                       hub=rng.randrange(8) if rng.random() < 0.2 else 0,
                                       delayed=int(rng.random() < 0.2), deferred=int(rng.random() < 0.2),
                                       bad5=bad5, bad16=bad16)
                v, d, c = 1, HP_START, 15
            elif rng.random() < 0.04:
                v, d, c = rng.getrandbits(1), _rand_word(rng), rng.choice([0, 15, rng.randrange(16)])
            cyc.update(sink_valid=v, sink_data=d, sink_ctrl=c)
            tr.append(cyc)
        out.append(tr)
    return out
