"""C15 -- isochronous IN endpoint (luna/gateware/usb/usb2/endpoints/isochronous_stream_in.py:
USBIsochronousStreamInEndpoint)."""
from harness.core import Target
from harness import tie
from harness import tie_explicit

PID = "C15"
EP = 1          # endpoint number the targets are built with (the model is parametric in it)
TIE_IMPORTS = "From LunaModel Require Import IsoIn IsoIn_proofs.\n"

IN_LAYOUT = [("new_frame", 1), ("is_in", 1), ("ready_for_response", 1), ("tx_ready", 1), ("stream_valid", 1),
             ("endpoint", 4), ("stream_payload", 8), ("bytes_in_frame", 12)]


def mk(mps, big):
    def build():
        from luna.gateware.usb.usb2.endpoints.isochronous_stream_in import USBIsochronousStreamInEndpoint
        d = USBIsochronousStreamInEndpoint(endpoint_number=EP, max_packet_size=mps)
        i = d.interface; tk = i.tokenizer
        return d, [("new_frame", tk.new_frame), ("is_in", tk.is_in), ("ready_for_response", tk.ready_for_response),
                   ("tx_ready", i.tx.ready), ("stream_valid", d.stream.valid), ("endpoint", tk.endpoint),
                   ("stream_payload", d.stream.payload), ("bytes_in_frame", d.bytes_in_frame)], \
                  [("tx_valid", i.tx.valid), ("tx_first", i.tx.first), ("tx_last", i.tx.last),
                   ("stream_ready", d.stream.ready), ("data_requested", d.data_requested),
                   ("frame_finished", d.frame_finished), ("tx_pid_toggle", i.tx_pid_toggle),
                   ("tx_payload", i.tx.payload)]
    t = Target(f"isoin_m{mps}", build)
    t.params = dict(mps=mps); t.big = big
    return t


def targets(tier):
    small = [2, 3, 4] if tier == "quick" else [1, 2, 3, 4, 5, 6, 7, 8]
    big = [200, 512, 1024] if tier == "quick" else [13, 64, 200, 512, 1000, 1024]
    return [mk(m, False) for m in small] + [mk(m, True) for m in big]


# ---------------------------------------------------------------------------------------------------
# trace generators
def pack_in(c):
    w = 0; lo = 0
    for n, wd in IN_LAYOUT:
        w |= (c[n] & ((1 << wd) - 1)) << lo; lo += wd
    return w


def _cyc(rng, nf=0, req=0, rdy=None, bif=None, data=None, noise=True):
    """one input cycle; when req = 0 the token fields are set to something that is NOT a request for EP"""
    if req:
        ep, is_in, rfr = EP, 1, 1
    elif noise and rng.random() < 0.3:
        ep, is_in, rfr = rng.choice([(EP, 1, 0), (EP, 0, 1), ((EP + 1 + rng.randrange(15)) % 16 or 2, 1, 1), (EP, 0, 0)])
        if ep == EP and is_in and rfr: rfr = 0
    else:
        ep, is_in, rfr = rng.choice([0, EP]), rng.choice([0, 1]), 0
    sv = int(rng.random() < 0.7)
    return {"new_frame": nf, "is_in": is_in, "ready_for_response": rfr,
            "tx_ready": int(rng.random() < 0.5) if rdy is None else rdy,
            "stream_valid": sv, "endpoint": ep,
            "stream_payload": (data() if data else rng.randrange(256)),
            "bytes_in_frame": rng.randrange(4096) if bif is None else bif}


def frame_trace(rng, mps, nframes, data=None, max_tokens=5):
    """Legal host behaviour: SOFs while the endpoint is idle, a few IN tokens per frame, each followed by
    the packet being drained with a random tx.ready pattern; other-endpoint / OUT tokens in between."""
    sizes = [0, 1, mps - 1, mps, mps + 1, 2 * mps - 1, 2 * mps, 2 * mps + 1, 3 * mps - 1, 3 * mps]
    sizes = [s for s in sizes if 0 <= s <= min(3 * mps, 3072)]
    tr = []
    rem = 0
    def idle(k):
        for _ in range(k): tr.append(_cyc(rng, data=data))
    idle(rng.randint(0, 3))
    if rng.random() < 0.3:          # a token before the first frame: ZLP
        tr.append(_cyc(rng, req=1, data=data)); tr.append(_cyc(rng, data=data)); idle(rng.randint(0, 2))
    for _ in range(nframes):
        n = rng.choice(sizes) if rng.random() < 0.8 else rng.randint(0, min(3 * mps, 3072))
        tr.append(_cyc(rng, nf=1, bif=n, data=data)); rem = n
        idle(rng.randint(0, 3))
        for _ in range(rng.randint(0, max_tokens)):
            tr.append(_cyc(rng, req=1, data=data))
            L = min(mps, rem)
            if L == 0:
                tr.append(_cyc(rng, data=data))
            else:
                p = rng.choice([0.3, 0.6, 1.0])
                got = 0
                while got < L:
                    r = int(rng.random() < p)
                    tr.append(_cyc(rng, rdy=r, data=data)); got += r
                rem -= L
            idle(rng.randint(0, 4))
    idle(2)
    return tr


class Mirror:
    """Just enough of the endpoint's sequencing (idle / sending data / sending ZLP) for the generator to know in
    which cycles a new_frame strobe keeps the environment assumption.  Not part of any oracle."""
    def __init__(self, mps):
        self.mps = mps; self.st = 0; self.blf = 0; self.blp = mps
    def nf_allowed(self, c):
        req = c["endpoint"] == EP and c["is_in"] and c["ready_for_response"]
        return self.st == 0 and not req
    def step(self, c):
        req = c["endpoint"] == EP and c["is_in"] and c["ready_for_response"]
        if self.st == 0:
            if req: self.st = 1 if self.blf else 2
            if c["new_frame"]: self.blf = c["bytes_in_frame"]; self.blp = self.mps
        elif self.st == 1:
            if c["tx_ready"]:
                term = self.blp <= 1 or self.blf <= 1
                self.blf -= 1
                self.blp = self.mps if term else self.blp - 1
                if term: self.st = 0
        else:
            self.st = 0


def noise_trace(rng, mps, n, data=None):
    """Unstructured inputs: tokens, tx.ready, stream and bytes_in_frame at random in every cycle; new_frame
    strobes at random, but only in cycles where they keep the environment assumption (endpoint idle, no
    request, byte count <= 3*mps) -- behaviour outside the assumption is not part of the property, and a
    refactoring that changes it must not raise an alarm."""
    tr = []; m = Mirror(mps)
    for _ in range(n):
        c = _cyc(rng, nf=int(rng.random() < 0.15), req=int(rng.random() < 0.25), data=data)
        if c["new_frame"]:
            c["bytes_in_frame"] = rng.randint(0, min(4095, 3 * mps))
            if not m.nf_allowed(c): c["new_frame"] = 0
        m.step(c)
        tr.append(c)
    return tr


def traces(target, rng, tier):
    mps = target.params["mps"]
    out = []
    if not target.big:
        n = 16 if tier == "quick" else 60
        for k in range(n):
            out.append(frame_trace(rng, mps, rng.randint(1, 4)))
        for k in range(n // 2):
            out.append(noise_trace(rng, mps, rng.randint(10, 120)))
    else:
        budget = (3000 if tier == "quick" else 40000)
        total = 0
        while total < budget:
            t = frame_trace(rng, mps, rng.randint(1, 3), max_tokens=4)
            out.append(t); total += len(t)
        for k in range(3 if tier == "quick" else 12):
            out.append(noise_trace(rng, mps, rng.randint(50, 400)))
    return out


# ---------------------------------------------------------------------------------------------------
OTHER_EP = (EP + 1) % 16


def alphabet(mps):
    """Input words of the lock-step obligation: every combination of
       token fields {request for EP, EP without ready_for_response, ready but not IN, ready IN for another endpoint}
       x tx.ready x stream (no data / two data bytes) x (no new_frame with bytes_in_frame in {0, 3*mps}
       | new_frame with every byte count 0 .. 3*mps)."""
    words = []
    for (ep, is_in, rfr) in [(EP, 1, 1), (EP, 1, 0), (EP, 0, 1), (OTHER_EP, 1, 1)]:
        for rdy in (0, 1):
            for (sv, sp) in [(0, 0xFF), (1, 0xA5), (1, 0x5A)]:
                for (nf, bif) in [(0, 0), (0, 3 * mps)] + [(1, n) for n in range(3 * mps + 1)]:
                    words.append(pack_in({"new_frame": nf, "is_in": is_in, "ready_for_response": rfr, "tx_ready": rdy,
                                          "stream_valid": sv, "endpoint": ep, "stream_payload": sp,
                                          "bytes_in_frame": bif}))
    return sorted(set(words))


def obligations(targets, tier):
    obs = []
    for t in targets:
        mps = t.params["mps"]
        if not t.big:
            al = alphabet(mps)
            obs.append(tie_explicit.rlock_alpha(
                f"ob_{t.name}", t,
                St="iso_state", mstep=f"iso_mstep {mps} {EP}", enc="iso_enc", dec="iso_dec", wf="iso_wf",
                dec_enc="iso_dec_enc", wf_step=f"iso_wf_step {mps} {EP}", m0=f"iso_init {mps}",
                wf_m0=f"apply iso_wf_init.", env=f"iso_menv {mps} {EP}",
                alphabet="[" + "; ".join(str(w) for w in al) + "]", fuel=100000,
                describe=f"USBIsochronousStreamInEndpoint(max_packet_size={mps}) == endpoint model in lock step on all traces "
                         f"over {len(al)} input words (all token-field/tx.ready/stream.valid combinations, 2 payload bytes, "
                         f"new_frame with every byte count 0..{3*mps}) that keep the environment assumption"))
        obs.append(tie.corr(f"corr_{t.name}", t, mstep=f"iso_mstep {mps} {EP}", m0=f"iso_init {mps}",
                            describe=f"endpoint model vs simulator at max_packet_size={mps}: legal frame/token schedules with "
                                     f"random tx.ready/stream.valid patterns and full-width payloads, plus unstructured noise "
                                     f"(no environment assumption needed: every cycle, every output)"))
    return obs


def tie_theorems(targets, tier):
    s = ""
    for t in targets:
        if t.big: continue
        mps = t.params["mps"]; ob = f"ob_{t.name}"
        s += f"""
Theorem C15_{t.name} : forall tr,
  Forall (fun w => In w {ob}.alpha) tr ->
  env_ok iso_state (iso_mstep {mps} {EP}) (iso_menv {mps} {EP}) (iso_init {mps}) tr = true ->
  let io := decode_trace tr (run {t.modname}.step {t.modname}.init tr) in
  iso_spec {mps} io = true /\\ all_sent io = taken_bytes io.
Proof.
  intros tr H HE. rewrite ({ob}_T.tie tr H HE). apply iso_packed; [lia | exact HE].
Qed.
"""
    return s


def tie_theorem_names(targets, tier):
    return [f"C15_{t.name}" for t in targets if not t.big]


ASSUMPTIONS = [
    "environment (theorem C15_frames and the tie corollaries), per cycle, on interface signals: tokenizer.new_frame is never "
    "high in a cycle in which the endpoint drives tx.valid or strobes data_requested (an SOF cannot arrive while the device is "
    "answering an IN token: half-duplex bus), and bytes_in_frame sampled at new_frame is <= 3 * max_packet_size. Without it the "
    "code loses the frame's byte count (FSM assignments override the new_frame latch; Example C15_env_needed).",
    "no assumption on IN-token timing within a frame, on tx.ready stalls, on stream.valid/payload, on tokens for other endpoints; "
    "tokens that arrive while the endpoint is transmitting are ignored by the code (data_requested is not strobed) and by the spec",
    "transmit stream read as USBDataPacketGenerator reads it: packet starts at tx.valid & tx.first (PID = tx_pid_toggle in that "
    "cycle), bytes = tx.payload at tx.valid & tx.ready, ends with tx.last; tx.valid & tx.last & ~tx.first outside a packet = ZLP",
    "the PID of zero-length packets sent after a frame's data is not constrained (property text is silent; the code sends MDATA=3); "
    "a zero-byte frame's first ZLP must be DATA0; before the first new_frame the endpoint behaves like a zero-byte frame",
    "bytes_in_frame > 3 * max_packet_size is outside the property's quantifier (0..3 x max packet size) and outside the theorem",
    "lock-step tie configurations: max_packet_size in {2,3,4} (quick) / {1..8} (thorough), endpoint_number = 1, explicit input "
    "alphabets (see obligation_list); correspondence additionally at max_packet_size in {200,512,1024} (quick) / {7,64,200,512,1000,1024}",
    "in the tie corollaries the environment assumption is evaluated on the model's outputs (env_ok/iso_menv), which the same "
    "theorem shows to be the netlist's outputs",
]
LEVEL_TEXT = ("Machine-checked proof. (1) For the model of USBIsochronousStreamInEndpoint (FSM + every observable register, with the "
              "code's bit widths and assignment priorities), every max_packet_size >= 1, every endpoint number and every input history "
              "of any length that keeps the environment assumption (no new_frame while transmitting/accepting a token; byte count <= "
              "3*mps): the observed sequence of frames, accepted tokens and transmitted packets passes the frame checker -- each packet "
              "answers exactly one accepted IN token, the j-th packet of a frame carries min(mps, bytes left) bytes (so exactly the "
              "requested bytes over 3/2/1 packets, then zero-length packets), needed packets are labelled DATA2/DATA1/DATA0, DATA1/DATA0 "
              "or DATA0, no stream protocol violation [C15_frames, invariant + induction]. With no assumption at all: the bytes of all "
              "packets are, in order, exactly the stream payloads (0 where stream.valid is low) of the cycles in which stream.ready is "
              "high [C15_bytes_from_stream]. (2) For max_packet_size in the tie configurations the netlist regenerated from /repo is "
              "proved equal to the model on all traces over an explicit input alphabet that keep the assumption (certified product "
              "reachability), giving C15_isoin_m<k>: both statements for the netlist's own I/O trace. (3) Simulator correspondence at "
              "realistic sizes (incl. 512, 1024 and non-powers of two) with full-width random data.")
LEVEL_NOTE = ("Trusted: Coq kernel + vm_compute, Amaranth elaboration to NIR, nir2coq.py/Netlist.v (validated each run against Amaranth's "
              "simulator). The netlist=model theorems are per configuration (small max_packet_size, endpoint 1) and over a finite input "
              "alphabet: 2 payload byte values, token fields {match, no ready, not IN, other endpoint}, all byte counts 0..3*mps; larger "
              "sizes and full-width data rest on the parametric model theorem plus correspondence. The unobservable tx_cnt register is "
              "not modelled. PID of surplus zero-length packets is unconstrained by the property (code: MDATA).")
TECHNIQUE = ("Rocq proof: invariant between model, interface-level observer and frame checker by induction over the history (all mps) + "
             "certified product-reachability (lock-step, explicit alphabet, environment-constrained) against the netlist regenerated "
             "from source + simulator correspondence at realistic sizes")
