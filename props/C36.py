"""C36 -- header and data packets are transmitted with correct framing and CRCs
(luna/gateware/usb/usb3/link/transmitter.py: RawPacketTransmitter; round-trip partners
 luna/gateware/usb/usb3/link/receiver.py: RawHeaderPacketReceiver and link/data.py: DataPacketReceiver (C40))."""
from harness.core import Target
from harness import tie
from harness import tie_dep
from harness.C36_split import SplitTarget
from props.C40 import _stub_classes, crc5, crc16h, crc32, HP, SDP

PID = "C36"

ASSUMPTIONS = [
    "transmitter environment (closed loop of theorem C36_framing): `generate` is pulsed with the header while the unit is idle; "
    "data_sink is a stream producer that holds its current beat (data, byte-valid mask, last) until data_sink.ready, presents "
    "full words (mask 1111) except for the last beat (mask 0001/0011/0111/1111, last = 1), and presents nothing (valid = 0) for a "
    "zero-length packet; source.ready is ARBITRARY (every stall pattern)",
    "a 'data header' is what the transmitter treats as one: dw0[0:4] = 8 (the code compares 4 bits; the receiver compares dw0[0:5] = 8; "
    "the two differ only for the reserved type value 24, which no LUNA module generates -- the round-trip theorems assume dw0[0:5] = 8)",
    "wire format (specification `wire`): SHP SHP SHP EPF, dw0, dw1, dw2, [crc16(dw0..dw2) | link control word bits 16..26 | crc5 of those 11 bits]; "
    "for a data header: SDP SDP SDP EPF, then the symbol stream payload bytes ++ the 4 CRC-32 bytes ++ END END END EPF cut into words "
    "and zero-padded (ctrl bits only on the framing symbols); delayed: SDP SDP SDP EPF, EDB EDB EDB EPF.  The property text's 'END symbols "
    "padding to the word boundary followed by END-END-END-EPF' is this same stream read word-wise",
    "round trip: the receivers are the MODELS of RawHeaderPacketReceiver (this property) and the specification parser of "
    "DataPacketReceiver (C40: the property-satisfying behaviour; the unchanged DataPacketReceiver code violates C40, see findings/C40-*)",
    "R tie (theorem): transmitter / header-receiver code elaborated from /repo with the CRC sub-units replaced by 2-bit xor-checksum "
    "stand-ins (injected from the props file; the module's own code is untouched) == model with the same stand-ins, on all traces whose "
    "input word of each cycle is in the list of that cycle's FSM state.  Real CRC kernels: C30.  Complete modules with real CRCs and "
    "full-width random data: simulator correspondence + specification monitor",
    "round trip on the real code (target rt_full): transmitter.source feeds DataPacketReceiver.sink with sink.valid = source.valid & "
    "source.ready (the receiver sees each word once, when the consumer accepts it); closed-loop transactions with payload lengths "
    "0..17 (thorough also 31..33, 63..65) and 1021..1024 = MAX_PACKET_SIZE; oracle = C40's specification over the accepted words",
]
TIE_IMPORTS = ("From LunaLib Require Import ReachDep.\n"
               "From LunaModel Require Import Crc DataRx DataRx_proofs RawTx RawTx_proofs.\n")

END3EPF, EDB3EPF = 0xF7FDFDFD, 0xF77C7C7C


# ---------------------------------------------------------------------------------------------
# targets
def _build_tx(stub):
    def build():
        from amaranth import Elaboratable, Module, Signal
        from luna.gateware.usb.usb3.link import transmitter as T

        class Wrap(Elaboratable):
            def __init__(self):
                self.dut = T.RawPacketTransmitter()
                self.hdr = Signal(128)
            def elaborate(self, platform):
                m = Module()
                if stub:
                    old = (T.HeaderPacketCRC, T.DataPacketPayloadCRC)
                    T.HeaderPacketCRC, T.DataPacketPayloadCRC = _stub_classes()
                    try:
                        m.submodules.dut = self.dut.elaborate(platform)
                    finally:
                        T.HeaderPacketCRC, T.DataPacketPayloadCRC = old
                else:
                    m.submodules.dut = self.dut
                m.d.comb += self.dut.header.eq(self.hdr)
                return m
        w = Wrap(); d = w.dut
        ins = [("hdr", w.hdr), ("generate", d.generate), ("d_data", d.data_sink.data), ("d_valid", d.data_sink.valid),
               ("d_last", d.data_sink.last), ("ready", d.source.ready)]
        outs = [("valid", d.source.valid), ("data", d.source.data), ("ctrl", d.source.ctrl), ("done", d.done),
                ("d_ready", d.data_sink.ready)]
        return w, ins, outs
    return build


def _build_rhr(stub):
    def build():
        from amaranth import Elaboratable, Module, Signal
        from luna.gateware.usb.usb3.link import receiver as R

        class Wrap(Elaboratable):
            def __init__(self):
                self.dut = R.RawHeaderPacketReceiver()
                self.packet = Signal(128)
            def elaborate(self, platform):
                m = Module()
                if stub:
                    old = R.HeaderPacketCRC
                    R.HeaderPacketCRC = _stub_classes()[0]
                    try:
                        m.submodules.dut = self.dut.elaborate(platform)
                    finally:
                        R.HeaderPacketCRC = old
                else:
                    m.submodules.dut = self.dut
                m.d.comb += self.packet.eq(self.dut.packet)
                return m
        w = Wrap(); d = w.dut
        ins = [("data", d.sink.data), ("ctrl", d.sink.ctrl), ("valid", d.sink.valid), ("eseq", d.expected_sequence)]
        outs = [("new_packet", d.new_packet), ("bad_packet", d.bad_packet), ("bad_sequence", d.bad_sequence),
                ("packet", w.packet)]
        return w, ins, outs
    return build


def _build_rt():
    """transmitter -> DataPacketReceiver: the receiver watches the words the transmitter's consumer accepts"""
    def build():
        from amaranth import Elaboratable, Module, Signal
        from luna.gateware.usb.usb3.link import transmitter as T
        from luna.gateware.usb.usb3.link import data as D

        class Wrap(Elaboratable):
            def __init__(self):
                self.tx = T.RawPacketTransmitter(); self.rx = D.DataPacketReceiver()
                self.hdr = Signal(128); self.rxhdr = Signal(128)
            def elaborate(self, platform):
                m = Module()
                m.submodules.tx = self.tx; m.submodules.rx = self.rx
                m.d.comb += [self.tx.header.eq(self.hdr), self.rxhdr.eq(self.rx.header),
                             self.rx.sink.data.eq(self.tx.source.data), self.rx.sink.ctrl.eq(self.tx.source.ctrl),
                             self.rx.sink.valid.eq(self.tx.source.valid & self.tx.source.ready)]
                return m
        w = Wrap(); d = w.tx; r = w.rx
        ins = [("hdr", w.hdr), ("generate", d.generate), ("d_data", d.data_sink.data), ("d_valid", d.data_sink.valid),
               ("d_last", d.data_sink.last), ("ready", d.source.ready)]
        outs = [("valid", d.source.valid), ("data", d.source.data), ("ctrl", d.source.ctrl), ("done", d.done),
                ("d_ready", d.data_sink.ready),
                ("s_data", r.source.data), ("s_valid", r.source.valid), ("s_first", r.source.first), ("s_last", r.source.last),
                ("good", r.packet_good), ("bad", r.packet_bad), ("rx_hdr", w.rxhdr)]
        return w, ins, outs
    return build


def targets(tier):
    ts = []
    for name, b, kind in [("tx_stub", _build_tx(True), "tx_stub"), ("tx_full", _build_tx(False), "tx_full"),
                          ("rhr_stub", _build_rhr(True), "rhr_stub"), ("rhr_full", _build_rhr(False), "rhr_full")]:
        t = (SplitTarget if kind.startswith("tx") else Target)(name, b); t.params = dict(kind=kind); ts.append(t)
    t = SplitTarget("rt_full", _build_rt()); t.params = dict(kind="rt_full"); ts.append(t)
    return ts


# ---------------------------------------------------------------------------------------------
# stimuli
def _hdr128(dw0, dw1, dw2, lf): return dw0 | (dw1 << 32) | (dw2 << 64) | (lf << 96)


def _tx_closed_loop(rng, hdrs_beats, p_ready, idle_gap):
    """Input history for a sequence of (header fields, beats) transactions against a mirror of the FSM's hand-shake
    (only used to know when data_sink.ready is high so that the producer advances)."""
    tr = []
    def cyc(hdr=0, gen=0, d=(0, 0, 0), ready=0): return dict(hdr=hdr, generate=gen, d_data=d[0], d_valid=d[1], d_last=d[2], ready=ready)
    for (dw0, dw1, dw2, lf), beats in hdrs_beats:
        for _ in range(rng.choice(idle_gap)):
            tr.append(cyc(hdr=rng.getrandbits(128), ready=rng.getrandbits(1)))
        bs = list(beats)
        def cur(): return (bs[0][0], bs[0][1], int(len(bs) == 1)) if bs else (0, 0, 0)
        tr.append(cyc(hdr=_hdr128(dw0, dw1, dw2, lf), gen=1, d=cur(), ready=rng.getrandbits(1)))
        isdata = (dw0 & 0xF) == 8; delayed = (lf >> 25) & 1
        st = "HP"; zlp = False
        guard = 0
        while st != "IDLE" and guard < 4000:
            guard += 1
            r = int(rng.random() < p_ready)
            tr.append(cyc(hdr=rng.getrandbits(128), d=cur(), ready=r))
            if not r:
                continue
            if st == "HP": st = "DW0"
            elif st in ("DW0", "DW1", "DW2"): st = "DW" + str(int(st[2]) + 1)
            elif st == "DW3":
                if isdata: zlp = not bs; st = "SDP"
                else: st = "IDLE"
            elif st == "SDP":
                if delayed: st = "ABORT"
                elif zlp: st = "CRC"
                else:
                    last = len(bs) == 1; bs.pop(0); st = "LAST" if last else "PAY"
            elif st == "PAY":
                last = len(bs) == 1
                if bs: bs.pop(0)
                st = "LAST" if last else "PAY"
            elif st == "LAST": st = "CRC"
            elif st == "CRC": st = "FIN"
            elif st in ("FIN", "ABORT"): st = "IDLE"
    tr.append(cyc()); tr.append(cyc())
    return tr


def _rand_beats(rng, nbytes, full=True):
    bs = []
    n = nbytes
    while n > 0:
        k = min(4, n); n -= k
        bs.append((rng.getrandbits(32) if full else rng.choice([0x00050008, 0x137, 0x0201]), (1 << k) - 1))
    return bs


def _rand_hdr(rng, data, L=0):
    dw0 = ((rng.getrandbits(27) << 5) | 8) if data else ((rng.getrandbits(27) << 5) | rng.choice([0, 4, 12]))
    dw1 = rng.getrandbits(16) | (L << 16)
    lf = rng.getrandbits(32) & ~(1 << 25)
    if rng.random() < 0.1:
        lf |= 1 << 25          # delayed
    return (dw0, dw1, rng.getrandbits(32), lf)


def _tx_traces(rng, n, full):
    out = []
    for k in range(n):
        txs = []
        for _ in range(rng.randint(1, 3)):
            if rng.random() < 0.25:
                txs.append((_rand_hdr(rng, False), _rand_beats(rng, rng.choice([0, 0, 5]), full)))
            else:
                L = rng.choice([0, 1, 2, 3, 4, 5, 6, 7, 8, 9, 12, 13, rng.randint(0, 40)])
                txs.append((_rand_hdr(rng, True, L), _rand_beats(rng, L, full)))
        out.append(_tx_closed_loop(rng, txs, rng.choice([1.0, 0.8, 0.5, 0.25]), [0, 1, 3]))
    # malformed: arbitrary inputs
    for _ in range(max(2, n // 6)):
        out.append([dict(hdr=rng.getrandbits(128), generate=int(rng.random() < 0.2), d_data=rng.getrandbits(32),
                         d_valid=rng.choice([0, 1, 3, 7, 15, rng.getrandbits(4)]), d_last=rng.getrandbits(1),
                         ready=rng.getrandbits(1)) for _ in range(rng.randint(5, 60))])
    return out


def _rhr_traces(rng, n):
    out = []
    for _ in range(n):
        tr = []
        for _ in range(rng.randint(1, 4)):
            dw0, dw1, dw2 = rng.getrandbits(32), rng.getrandbits(32), rng.getrandbits(32)
            lc = rng.getrandbits(11)
            c16 = crc16h([dw0, dw1, dw2]); c5 = crc5(lc)
            k = rng.random()
            if k < 0.15: c16 ^= 1 << rng.randrange(16)
            elif k < 0.3: c5 ^= 1 << rng.randrange(5)
            eseq = (lc & 7) if rng.random() < 0.8 else rng.getrandbits(3)
            ws = [(HP, 15), (dw0, 0), (dw1, 0), (dw2, 0), (c16 | (lc << 16) | (c5 << 27), 0)]
            if rng.random() < 0.1: ws = ws[:rng.randrange(1, 5)]
            ws += [(rng.choice([rng.getrandbits(32), HP, 0]), rng.choice([0, 15]))] * rng.choice([0, 1, 2])
            p_idle = rng.choice([0, 0, 0.2, 0.5])
            for d, c in ws:
                while rng.random() < p_idle:
                    tr.append(dict(data=rng.choice([rng.getrandbits(32), HP]), ctrl=rng.choice([0, 15]), valid=0, eseq=eseq))
                tr.append(dict(data=d, ctrl=c, valid=1, eseq=eseq))
        tr.append(dict(data=0, ctrl=0, valid=0, eseq=0))
        out.append(tr)
    return out


def traces(target, rng, tier):
    kind = target.params["kind"]
    n = 10 if tier == "quick" else 80
    if kind.startswith("tx"):
        return _tx_traces(rng, n, kind == "tx_full")
    if kind == "rt_full":
        return _rt_traces(rng, tier)
    return _rhr_traces(rng, n)


def _rt_traces(rng, tier):
    """Round trip: data packets through the transmitter into DataPacketReceiver; payload lengths over every tail and
    at / just below the maximum packet size 1024 (the largest value the receiver's byte counter must hold)."""
    small = [0, 1, 2, 3, 4, 5, 7, 8, 13] if tier == "quick" else list(range(0, 18)) + [31, 32, 33, 63, 64, 65]
    big = [1024, 1021] if tier == "quick" else [1021, 1022, 1023, 1024, 1024]
    out = []
    for k in range(0, len(small), 3):
        txs = []
        for L in small[k:k + 3]:
            h = _rand_hdr(rng, True, L)
            txs.append(((h[0], h[1], h[2], h[3] & ~(1 << 25)) if rng.random() < 0.85 else h, _rand_beats(rng, L, True)))
        if rng.random() < 0.5:
            txs.insert(rng.randrange(len(txs) + 1), (_rand_hdr(rng, False), []))
        out.append(_tx_closed_loop(rng, txs, rng.choice([1.0, 0.7, 0.4]), [0, 1, 2]))
    for L in big:
        h = _rand_hdr(rng, True, L)
        txs = [((h[0], h[1], h[2], h[3] & ~(1 << 25)), _rand_beats(rng, L, True)), (_rand_hdr(rng, True, 3), _rand_beats(rng, 3, True))]
        out.append(_tx_closed_loop(rng, txs, rng.choice([1.0, 0.9, 0.75]), [0, 1]))
    return out


# ---------------------------------------------------------------------------------------------
# R alphabets (stand-in configuration), one list of packed input words per group of FSM states
def _tx_word(hdr=0, gen=0, d=0, v=0, last=0, ready=0):
    return hdr | (gen << 128) | (d << 129) | (v << 161) | (last << 165) | (ready << 166)


def _tx_headers():
    return dict(
        data5=_hdr128(0x00000008, 0x00050000, 0x11223344, (3 << 16) | (1 << 26)),       # data header, seq 3, deferred
        zlp=_hdr128(0x00000008, 0x00000000, 0x00000003, 5 << 16),                       # data header (used for the ZLP)
        delayed=_hdr128(0x00000008, 0x00050000, 0x00000000, (1 << 16) | (1 << 25)),     # data header marked delayed
        tp=_hdr128(0x00000004, 0xA5A5A5A5, 0x00000001, 7 << 16),                        # transaction packet: no DPP
        rsvd24=_hdr128(0x00000018, 0x00010000, 0x00000000, 2 << 16),                    # type 24: dw0[0:4] = 8 -> DPP is sent
    )


def _tx_alpha(tier):
    H = _tx_headers()
    A, P, Q = 0x00050008, 0x00000137, 0xA1B2C3D4
    idle = [_tx_word()] + [_tx_word(hdr=h, gen=1, ready=r) for h in H.values() for r in (0, 1)] + \
           [_tx_word(hdr=H["data5"], gen=0, d=A, v=15, ready=1)]
    hdr = [_tx_word(ready=0), _tx_word(ready=1), _tx_word(hdr=H["tp"], gen=1, d=P, v=15, last=1, ready=1)]
    dw3 = [_tx_word(ready=r, d=A, v=v, last=l) for r in (0, 1) for v, l in ((0, 0), (15, 0), (1, 1))]
    masks = (15, 7, 3, 1) if tier != "quick" else (15, 3, 1)
    pay = [_tx_word(ready=0, d=A, v=15)] + \
          [_tx_word(ready=1, d=d, v=15, last=0) for d in (A, Q)] + \
          [_tx_word(ready=1, d=d, v=v, last=1) for d in (P, Q) for v in masks] + \
          [_tx_word(ready=1, d=A, v=0, last=0), _tx_word(ready=0, d=P, v=7, last=1)]
    tail = [_tx_word(ready=0), _tx_word(ready=1), _tx_word(ready=1, d=Q, v=15, last=1, gen=1, hdr=H["zlp"])]
    return [("IDLE", idle), ("SEND_HPSTART/DW0..2", hdr), ("SEND_DW3", dw3), ("START_DPP/SEND_PAYLOAD", pay),
            ("SEND_LAST_WORD/SEND_CRC/FINISH_DPP/ABORT_DPP", tail)]


def _rhr_word(d, c, v, e): return d | (c << 32) | (v << 36) | (e << 37)


def _rhr_alpha(tier):
    c0 = crc5(3)                       # link control word 3: sequence number 3
    A, Z = 0x00050008, 0x00000008      # byte checksums 1 and 0
    T = 2 | (3 << 16) | (c0 << 27)     # dw3 for headers with word checksum 2 (A A A, A Z Z ...), seq 3
    Tb = 1 | (3 << 16) | (c0 << 27)    # wrong CRC-16 field
    T5 = 2 | (3 << 16) | ((c0 ^ 1) << 27)   # wrong CRC-5
    es = (3, 4)
    wait = [_rhr_word(HP, 15, 1, e) for e in es] + [_rhr_word(HP, 15, 0, 3), _rhr_word(HP, 14, 1, 3), _rhr_word(A, 0, 1, 3)]
    dw = [_rhr_word(A, 0, 1, 3), _rhr_word(Z, 0, 1, 3), _rhr_word(HP, 15, 1, 4), _rhr_word(A, 0, 0, 3)]
    dw3 = [_rhr_word(T, 0, 1, 3), _rhr_word(Tb, 0, 1, 3), _rhr_word(T5, 0, 1, 3), _rhr_word(T, 0, 0, 3)]
    chk = [_rhr_word(HP, 15, 1, 3), _rhr_word(HP, 15, 1, 4), _rhr_word(A, 0, 0, 3), _rhr_word(A, 0, 0, 4)]
    return [("WAIT_FOR_HPSTART", wait), ("RECEIVE_DW0", dw), ("RECEIVE_DW1", dw), ("RECEIVE_DW2", dw[:2] + dw[3:]),
            ("RECEIVE_DW3", dw3), ("CHECK_PACKET", chk)]


def _coq_lists(table): return " ".join("[" + "; ".join(str(x) for x in ws) + "]" for _, ws in table)


def obligations(targets, tier):
    obs = []
    for t in targets:
        kind = t.params["kind"]
        U = "drx_real_units" if kind.endswith("full") else "drx_stub_units"
        if kind == "tx_stub":
            tab = _tx_alpha(tier)
            obs.append(tie_dep.rlock_dep(
                "ob_tx_stub", t, St="rtx_state", mstep=f"rtx_step {U}", enc="rtx_enc", dec="rtx_dec", wf="rtx_wf",
                dec_enc="rtx_dec_enc", wf_step=f"rtx_wf_step {U} drx_stub_bounded", m0=f"rtx_init {U}",
                wf_m0="apply rtx_wf_init; exact drx_stub_bounded.", alpha="rtx_alpha " + _coq_lists(tab), fuel=5000,
                describe="RawPacketTransmitter (stand-in CRC units) == model on all traces whose input word of each cycle is in the list "
                         "of that cycle's FSM state group (" + ", ".join(f"{n}: {len(ws)} words" for n, ws in tab) + "): 5 headers "
                         "(data, ZLP, delayed, transaction, reserved type 24), every ready value, payload words with every byte-valid "
                         "mask/last combination incl. contract-violating ones"))
        if kind == "rhr_stub":
            tab = _rhr_alpha(tier)
            obs.append(tie_dep.rlock_dep(
                "ob_rhr_stub", t, St="rhr_state", mstep=f"rhr_step {U}", enc="rhr_enc", dec="rhr_dec", wf="rhr_wf",
                dec_enc="rhr_dec_enc", wf_step=f"rhr_wf_step {U} drx_stub_bounded", m0=f"rhr_init {U}",
                wf_m0="apply rhr_wf_init; exact drx_stub_bounded.", alpha="rhr_alpha " + _coq_lists(tab), fuel=5000,
                describe="RawHeaderPacketReceiver (stand-in CRC unit) == model on all traces whose input word of each cycle is in the "
                         "list of that cycle's FSM state (" + ", ".join(f"{n}: {len(ws)}" for n, ws in tab) + "): valid/invalid words, "
                         "good / wrong CRC-16 / wrong CRC-5 fourth words, matching and non-matching expected sequence numbers"))
        if kind == "rt_full":
            if tier != "quick":      # (costly on 1024-byte transactions; the transmit side has spec_tx_full in every tier)
              obs.append(tie.cmon("spec_rt_tx", t, m0="0",
                                  mon="(fun m i o => rtx_spec_mon crc16_hdr crc32_usb m i (N.land o (N.ones 39)))",
                                  describe="round trip, transmit side: the wire specification (as for spec_tx_full) on the composed target"))
            obs.append(tie.cmon("spec_rt_rx", t, m0="1",
                                mon="(fun m i o => drx_spec_mon crc16_hdr crc32_usb 11 true m (bits o 1 32 + N.shiftl (bits o 33 4) 32 + "
                                    "N.shiftl (N.land (bits o 0 1) (bits i 166 1)) 36) (N.shiftr o 39))",
                                describe="round trip, receive side: DataPacketReceiver fed with the words the transmitter's consumer accepts must "
                                         "produce exactly the events of C40's specification over those words (payload beats with the transmitted "
                                         "header, then one good/bad) -- payload lengths over every tail and 1021..1024"))
            obs.append(tie.corr("corr_rt_full", t, mstep="rt_step drx_real_units 11",
                                m0="(rtx_init drx_real_units, drx_init drx_real_units)",
                                describe="RawPacketTransmitter -> DataPacketReceiver (real CRC units) vs the composed models"))
            continue
        if kind.startswith("tx"):
            spec = "crc16_hdr crc32_usb" if kind.endswith("full") else "drx_stub_h16 drx_stub_c32"
            obs.append(tie.cmon(f"spec_{t.name}", t, mon=f"(rtx_spec_mon {spec})", m0="0",
                                describe="the wire specification as runtime oracle on simulator traces of the real code: in every cycle of a "
                                         "transaction source.valid = 1, the presented word is word k of `wire` (for the header given at "
                                         "generate and the beats the unit accepted), and done accompanies exactly the last word"))
            obs.append(tie.corr(f"corr_{t.name}", t, mstep=f"rtx_step {U}", m0=f"rtx_init {U}",
                                describe=f"RawPacketTransmitter ({'real' if kind.endswith('full') else 'stand-in'} CRC units) vs model: "
                                         "closed-loop transactions (payload lengths 0..40 incl. every tail, ZLP, delayed, non-data headers, "
                                         "ready probabilities 1/0.8/0.5/0.25) and arbitrary input noise"))
        else:
            obs.append(tie.corr(f"corr_{t.name}", t, mstep=f"rhr_step {U}", m0=f"rhr_init {U}",
                                describe=f"RawHeaderPacketReceiver ({'real' if kind.endswith('full') else 'stand-in'} CRC unit) vs model: "
                                         "random headers, CRC corruption, sequence mismatches, invalid words, truncated headers"))
    return obs


def tie_theorems(targets, tier):
    return ""


def tie_theorem_names(targets, tier):
    return []


LEVEL_TEXT = ("Machine-checked proof about code-shaped models of RawPacketTransmitter and RawHeaderPacketReceiver (parametric in the CRC "
              "units).  (1) For every header, every payload presented under the data_sink stream contract (any length, every tail, the "
              "zero-length packet, delayed) and EVERY source.ready pattern, the transmitter's source outputs and `done` are, cycle by cycle, the "
              "wire specification played against the ready pattern (C36_framing; invariant over the closed loop, induction over the trace): "
              "each word is held until accepted, words are neither lost nor repeated, `done` is raised exactly once with the last word "
              "(C36_accepted_words, C36_done_once).  The wire specification is declarative -- SHP^3 EPF, dw0..dw2, crc16|link control|crc5, "
              "SDP^3 EPF, the symbol stream payload ++ crc32 ++ END^3 EPF cut into words (or EDB^3 EPF) -- and is proved equal to the "
              "word-by-word form the FSM produces (C36_wire_word_by_word).  (2) Round trip: RawHeaderPacketReceiver's model recovers exactly the "
              "transmitted header from the five header words with arbitrary invalid words interleaved (C36_header_roundtrip); the "
              "DataPacketReceiver specification of C40 run over the transmitted words yields beats carrying exactly the payload and then `good` "
              "(C36_data_roundtrip).  (3) The netlists of both modules regenerated from /repo (stand-in CRC units) are proved equal to the "
              "models on all traces over per-state input alphabets (certified product reachability).  (4) On the real code the round trip is "
              "exercised end to end: RawPacketTransmitter wired into DataPacketReceiver (target rt_full) with payload lengths over every tail "
              "and 1021..1024, checked by C40's specification monitor and by correspondence with the composed models.")
LEVEL_NOTE = ("Trusted: Coq kernel + vm_compute, Amaranth elaboration, nir2coq.py/Netlist.v and harness/C36_split.py (the netlist has a word-level "
              "combinational cycle source.data[27:32] <- crc5(source.data[16:27]) that is acyclic per bit; the offending AssignmentList cell is "
              "split at its assignment boundaries before printing) -- validated each run against pysim.  Netlist ties are for the modules' "
              "own code with stand-in CRC units and explicit per-state input alphabets (headers: data / ZLP / delayed / transaction / reserved "
              "type 24; all ready values; payload beats incl. contract-violating ones); real CRC kernels are C30's theorems; the complete "
              "modules with real CRCs and full-width random data are covered by correspondence and by the wire-specification monitor on "
              "simulator traces, not by proof.  Not proved: that every data_sink beat is consumed exactly once is only implied by the wire "
              "equality (the payload bytes appear on the wire in order, once); the composition 'netlist closed loop = wire' is the conjunction "
              "of the R tie (netlist = model) and C36_framing (model = wire), not a single theorem.  The data round trip goes through C40's "
              "specification, i.e. the property-satisfying receiver (the unchanged DataPacketReceiver code violates C40).  Observation: the "
              "transmitter decides 'data header' on dw0[0:4], the receiver on dw0[0:5]; they differ only for the reserved type 24.")
TECHNIQUE = ("Rocq proof: closed-loop invariant relating the FSM state to the remaining wire words (unbounded traces, all ready patterns), "
             "byte-level equality of the word-wise and symbol-stream wire formats, progress invariant for the header receiver, reuse of C40's "
             "parser specification for the data round trip; certified product-reachability lock-step against the regenerated netlists over "
             "state-dependent alphabets; simulator correspondence + wire-specification monitor")
