"""C36 -- header and data packets are transmitted with correct framing and CRCs
(luna/gateware/usb/usb3/link/transmitter.py: RawPacketTransmitter; round-trip partners
 luna/gateware/usb/usb3/link/receiver.py: RawHeaderPacketReceiver and link/data.py: DataPacketReceiver (C40))."""
from harness.core import Target
from harness import tie
from harness import tie_dep
from harness.C36_split import SplitTarget
from props.C40 import _stub_classes, crc5, crc16h, crc32, HP, SDP

PID = "C36"

ASSUMPTIONS = [
    "transmitter environment (closed loop of theorem C36_framing): `generate` is pulsed with the header while the unit is idle; "
    "data_sink is a stream producer that holds its current beat (data, byte-valid mask, last) until data_sink.ready, presents "
    "full words (mask 1111) except for the last beat (mask 0001/0011/0111/1111, last = 1), and presents nothing (valid = 0) for a "
    "zero-length packet; source.ready is ARBITRARY (every stall pattern)",
    "a 'data header' is what the transmitter treats as one: dw0[0:4] = 8 (the code compares 4 bits; the receiver compares dw0[0:5] = 8; "
    "the two differ only for the reserved type value 24, which no LUNA module generates -- the round-trip theorems assume dw0[0:5] = 8)",
    "wire format (specification `wire`): SHP SHP SHP EPF, dw0, dw1, dw2, [crc16(dw0..dw2) | link control word bits 16..26 | crc5 of those 11 bits]; "
    "for a data header: SDP SDP SDP EPF, then the symbol stream payload bytes ++ the 4 CRC-32 bytes ++ END END END EPF cut into words "
    "and zero-padded (ctrl bits only on the framing symbols); delayed: SDP SDP SDP EPF, EDB EDB EDB EPF.  The property text's 'END symbols "
    "padding to the word boundary followed by END-END-END-EPF' is this same stream read word-wise",
    "round trip: the receivers are the MODELS of RawHeaderPacketReceiver (this property) and the specification parser of "
    "DataPacketReceiver (C40: the property-satisfying behaviour; the unchanged DataPacketReceiver code violates C40, see findings/C40-*)",
    "R tie (theorem): transmitter / header-receiver code elaborated from /repo with the CRC sub-units replaced by 2-bit xor-checksum "
    "stand-ins (injected from the props file; the module's own code is untouched) == model with the same stand-ins, on all traces whose "
    "input word of each cycle is in the list of that cycle's FSM state.  Real CRC kernels: C30.  Complete modules with real CRCs and "
    "full-width random data: simulator correspondence + specification monitor",
]
TIE_IMPORTS = ("From LunaLib Require Import ReachDep.\n"
               "From LunaModel Require Import Crc DataRx DataRx_proofs RawTx RawTx_proofs.\n")

END3EPF, EDB3EPF = 0xF7FDFDFD, 0xF77C7C7C


# ---------------------------------------------------------------------------------------------
# targets
def _build_tx(stub):
    def build():
        from amaranth import Elaboratable, Module, Signal
        from luna.gateware.usb.usb3.link import transmitter as T

        class Wrap(Elaboratable):
            def __init__(self):
                self.dut = T.RawPacketTransmitter()
                self.hdr = Signal(128)
            def elaborate(self, platform):
                m = Module()
                if stub:
                    old = (T.HeaderPacketCRC, T.DataPacketPayloadCRC)
                    T.HeaderPacketCRC, T.DataPacketPayloadCRC = _stub_classes()
                    try:
                        m.submodules.dut = self.dut.elaborate(platform)
                    finally:
                        T.HeaderPacketCRC, T.DataPacketPayloadCRC = old
                else:
                    m.submodules.dut = self.dut
                m.d.comb += self.dut.header.eq(self.hdr)
                return m
        w = Wrap(); d = w.dut
        ins = [("hdr", w.hdr), ("generate", d.generate), ("d_data", d.data_sink.data), ("d_valid", d.data_sink.valid),
               ("d_last", d.data_sink.last), ("ready", d.source.ready)]
        outs = [("valid", d.source.valid), ("data", d.source.data), ("ctrl", d.source.ctrl), ("done", d.done),
                ("d_ready", d.data_sink.ready)]
        return w, ins, outs
    return build


def _build_rhr(stub):
    def build():
        from amaranth import Elaboratable, Module, Signal
        from luna.gateware.usb.usb3.link import receiver as R

        class Wrap(Elaboratable):
            def __init__(self):
                self.dut = R.RawHeaderPacketReceiver()
                self.packet = Signal(128)
            def elaborate(self, platform):
                m = Module()
                if stub:
                    old = R.HeaderPacketCRC
                    R.HeaderPacketCRC = _stub_classes()[0]
                    try:
                        m.submodules.dut = self.dut.elaborate(platform)
                    finally:
                        R.HeaderPacketCRC = old
                else:
                    m.submodules.dut = self.dut
                m.d.comb += self.packet.eq(self.dut.packet)
                return m
        w = Wrap(); d = w.dut
        ins = [("data", d.sink.data), ("ctrl", d.sink.ctrl), ("valid", d.sink.valid), ("eseq", d.expected_sequence)]
        outs = [("new_packet", d.new_packet), ("bad_packet", d.bad_packet), ("bad_sequence", d.bad_sequence),
                ("packet", w.packet)]
        return w, ins, outs
    return build


def targets(tier):
    ts = []
    for name, b, kind in [("tx_stub", _build_tx(True), "tx_stub"), ("tx_full", _build_tx(False), "tx_full"),
                          ("rhr_stub", _build_rhr(True), "rhr_stub"), ("rhr_full", _build_rhr(False), "rhr_full")]:
        t = (SplitTarget if kind.startswith("tx") else Target)(name, b); t.params = dict(kind=kind); ts.append(t)
    return ts


# ---------------------------------------------------------------------------------------------
# stimuli
def _hdr128(dw0, dw1, dw2, lf): return dw0 | (dw1 << 32) | (dw2 << 64) | (lf << 96)


def _tx_closed_loop(rng, hdrs_beats, p_ready, idle_gap):
    """Input history for a sequence of (header fields, beats) transactions against a mirror of the FSM's hand-shake
    (only used to know when data_sink.ready is high so that the producer advances)."""
    tr = []
    def cyc(hdr=0, gen=0, d=(0, 0, 0), ready=0): return dict(hdr=hdr, generate=gen, d_data=d[0], d_valid=d[1], d_last=d[2], ready=ready)
    for (dw0, dw1, dw2, lf), beats in hdrs_beats:
        for _ in range(rng.choice(idle_gap)):
            tr.append(cyc(hdr=rng.getrandbits(128), ready=rng.getrandbits(1)))
        bs = list(beats)
        def cur(): return (bs[0][0], bs[0][1], int(len(bs) == 1)) if bs else (0, 0, 0)
        tr.append(cyc(hdr=_hdr128(dw0, dw1, dw2, lf), gen=1, d=cur(), ready=rng.getrandbits(1)))
        isdata = (dw0 & 0xF) == 8; delayed = (lf >> 25) & 1
        st = "HP"; zlp = False
        guard = 0
        while st != "IDLE" and guard < 4000:
            guard += 1
            r = int(rng.random() < p_ready)
            tr.append(cyc(hdr=rng.getrandbits(128), d=cur(), ready=r))
            if not r:
                continue
            if st == "HP": st = "DW0"
            elif st in ("DW0", "DW1", "DW2"): st = "DW" + str(int(st[2]) + 1)
            elif st == "DW3":
                if isdata: zlp = not bs; st = "SDP"
                else: st = "IDLE"
            elif st == "SDP":
                if delayed: st = "ABORT"
                elif zlp: st = "CRC"
                else:
                    last = len(bs) == 1; bs.pop(0); st = "LAST" if last else "PAY"
            elif st == "PAY":
                last = len(bs) == 1
                if bs: bs.pop(0)
                st = "LAST" if last else "PAY"
            elif st == "LAST": st = "CRC"
            elif st == "CRC": st = "FIN"
            elif st in ("FIN", "ABORT"): st = "IDLE"
    tr.append(cyc()); tr.append(cyc())
    return tr


def _rand_beats(rng, nbytes, full=True):
    bs = []
    n = nbytes
    while n > 0:
        k = min(4, n); n -= k
        bs.append((rng.getrandbits(32) if full else rng.choice([0x00050008, 0x137, 0x0201]), (1 << k) - 1))
    return bs


def _rand_hdr(rng, data, L=0):
    dw0 = ((rng.getrandbits(27) << 5) | 8) if data else ((rng.getrandbits(27) << 5) | rng.choice([0, 4, 12]))
    dw1 = rng.getrandbits(16) | (L << 16)
    lf = rng.getrandbits(32) & ~(1 << 25)
    if rng.random() < 0.1:
        lf |= 1 << 25          # delayed
    return (dw0, dw1, rng.getrandbits(32), lf)


def _tx_traces(rng, n, full):
    out = []
    for k in range(n):
        txs = []
        for _ in range(rng.randint(1, 3)):
            if rng.random() < 0.25:
                txs.append((_rand_hdr(rng, False), _rand_beats(rng, rng.choice([0, 0, 5]), full)))
            else:
                L = rng.choice([0, 1, 2, 3, 4, 5, 6, 7, 8, 9, 12, 13, rng.randint(0, 40)])
                txs.append((_rand_hdr(rng, True, L), _rand_beats(rng, L, full)))
        out.append(_tx_closed_loop(rng, txs, rng.choice([1.0, 0.8, 0.5, 0.25]), [0, 1, 3]))
    # malformed: arbitrary inputs
    for _ in range(max(2, n // 6)):
        out.append([dict(hdr=rng.getrandbits(128), generate=int(rng.random() < 0.2), d_data=rng.getrandbits(32),
                         d_valid=rng.choice([0, 1, 3, 7, 15, rng.getrandbits(4)]), d_last=rng.getrandbits(1),
                         ready=rng.getrandbits(1)) for _ in range(rng.randint(5, 60))])
    return out


def _rhr_traces(rng, n):
    out = []
    for _ in range(n):
        tr = []
        for _ in range(rng.randint(1, 4)):
            dw0, dw1, dw2 = rng.getrandbits(32), rng.getrandbits(32), rng.getrandbits(32)
            lc = rng.getrandbits(11)
            c16 = crc16h([dw0, dw1, dw2]); c5 = crc5(lc)
            k = rng.random()
            if k < 0.15: c16 ^= 1 << rng.randrange(16)
            elif k < 0.3: c5 ^= 1 << rng.randrange(5)
            eseq = (lc & 7) if rng.random() < 0.8 else rng.getrandbits(3)
            ws = [(HP, 15), (dw0, 0), (dw1, 0), (dw2, 0), (c16 | (lc << 16) | (c5 << 27), 0)]
            if rng.random() < 0.1: ws = ws[:rng.randrange(1, 5)]
            ws += [(rng.choice([rng.getrandbits(32), HP, 0]), rng.choice([0, 15]))] * rng.choice([0, 1, 2])
            p_idle = rng.choice([0, 0, 0.2, 0.5])
            for d, c in ws:
                while rng.random() < p_idle:
                    tr.append(dict(data=rng.choice([rng.getrandbits(32), HP]), ctrl=rng.choice([0, 15]), valid=0, eseq=eseq))
                tr.append(dict(data=d, ctrl=c, valid=1, eseq=eseq))
        tr.append(dict(data=0, ctrl=0, valid=0, eseq=0))
        out.append(tr)
    return out


def traces(target, rng, tier):
    kind = target.params["kind"]
    n = 14 if tier == "quick" else 100
    if kind.startswith("tx"):
        return _tx_traces(rng, n, kind == "tx_full")
    return _rhr_traces(rng, n)


# ---------------------------------------------------------------------------------------------
def obligations(targets, tier):
    obs = []
    for t in targets:
        kind = t.params["kind"]
        U = "drx_real_units" if kind.endswith("full") else "drx_stub_units"
        if kind.startswith("tx"):
            obs.append(tie.corr(f"corr_{t.name}", t, mstep=f"rtx_step {U}", m0=f"rtx_init {U}",
                                describe=f"RawPacketTransmitter ({'real' if kind.endswith('full') else 'stand-in'} CRC units) vs model"))
        else:
            obs.append(tie.corr(f"corr_{t.name}", t, mstep=f"rhr_step {U}", m0=f"rhr_init {U}",
                                describe=f"RawHeaderPacketReceiver ({'real' if kind.endswith('full') else 'stand-in'} CRC unit) vs model"))
    return obs


def tie_theorems(targets, tier):
    return ""


def tie_theorem_names(targets, tier):
    return []


LEVEL_TEXT = "in progress"
LEVEL_NOTE = "in progress"
TECHNIQUE = "in progress"
