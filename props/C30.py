"""C30 -- every CRC implementation equals its standard (bit-serial) definition.

Kernels are re-extracted from /repo on every run as GF(2) terms (tools/xtgen.py):
  * CRC5s from the helper functions (USBTokenDetector._generate_crc_for_token, compute_usb_crc5),
  * CRC16 / header CRC16 / CRC32 (+1/2/3-byte tails) and the `crc` outputs from the *elaborated netlists* of
    USBDataPacketCRC, HeaderPacketCRC, DataPacketPayloadCRC with the control inputs fixed.
Each is proved equal to the bit-serial reference for all inputs by affine reflection (coq/Lib/Affine.v).
The register/mux wrappers are tied by correspondence of the module models (Model/Crc.v) with the simulator.
"""
import random
from harness.core import Target, HarnessFault
from harness import tie, core
from tools import xtgen, nir2coq

PID = "C30"
ASSUMPTIONS = [
    "bit order: message bits are the LSB-first bits of each byte/word in transmission order; register initialised to all ones; "
    "transmitted CRC = complemented, bit-reversed register (USB 2.0 8.3.5, USB 3.2 7.2.1.1.2 / 7.2.2.1.4); polynomials 0x05, 0x8005, 0x100B, 0x04C11DB7",
    "kernel theorems hold for all register values and all data words (2^11, 2^24, 2^48, 2^64 points) of the equations regenerated from /repo on this run",
    "module wrappers (clear/advance priority, output reversal) are modelled in Model/Crc.v; USBDataPacketCRC's model has the unbounded theorem "
    "crc16mod_standard; all three wrappers are tied by simulator correspondence, and their `crc` output cones by affine reflection",
    "the consequence clause 'a packet is accepted exactly when its check field is correct' depends on how a receiver drives the CRC units (clear/advance "
    "policy); for the SuperSpeed data packet receiver (header CRC5/CRC16 + payload CRC32 with every tail length) it is checked here too, with C40's "
    "complete DataPacketReceiver target and specification parser (reference CRCs) as oracle over simulator traces incl. aborted and back-to-back "
    "packets, and for the SuperSpeed header receiver (RawHeaderPacketReceiver, CRC-5 + header CRC-16; C37's target and declarative parser, "
    "incl. header packets 0..3 words apart); the kernel-checked lock-steps for those receivers are C40's / C37's, the USB2 receivers' and the "
    "link-command detector's acceptance is C01/C02/C35's",
]
TIE_IMPORTS = "From LunaLib Require Import Affine.\nFrom LunaModel Require Import Crc Crc_proofs DataRx HdrRx.\nRequire Import Run.Gen_kernels.\n"


# ---------------------------------------------------------------------------------------------
def _usb2_crc16():
    from luna.gateware.usb.usb2.packet import USBDataPacketCRC, DataCRCInterface
    d = USBDataPacketCRC(); ifc = DataCRCInterface(); d.add_interface(ifc)
    ins = [("start", ifc.start), ("rx_data", d.rx_data), ("rx_valid", d.rx_valid),
           ("tx_data", d.tx_data), ("tx_valid", d.tx_valid)]
    outs = [("crc", ifc.crc)]
    return d, ins, outs


def _usb3_crc16():
    from luna.gateware.usb.usb3.link.crc import HeaderPacketCRC
    d = HeaderPacketCRC()
    return d, [("clear", d.clear), ("data_input", d.data_input), ("advance_crc", d.advance_crc)], [("crc", d.crc)]


def _usb3_crc32():
    from luna.gateware.usb.usb3.link.crc import DataPacketPayloadCRC
    d = DataPacketPayloadCRC()
    ins = [("clear", d.clear), ("data_input", d.data_input), ("advance_word", d.advance_word),
           ("advance_3B", d.advance_3B), ("advance_2B", d.advance_2B), ("advance_1B", d.advance_1B)]
    outs = [("crc", d.crc), ("next_crc_3B", d.next_crc_3B), ("next_crc_2B", d.next_crc_2B), ("next_crc_1B", d.next_crc_1B)]
    return d, ins, outs


def _drx():
    from props import C40 as _c40                    # C40's own target object (keeps its params in step with C40's trace generator)
    return next(t for t in _c40.targets("quick") if t.name == "drx_full")


def targets(tier):
    from props import C37_hdrrx as _h37
    return [Target("crc16_usb2", _usb2_crc16), Target("crc16_usb3", _usb3_crc16), Target("crc32_usb3", _usb3_crc32), _drx(), _h37.mk_raw()]


def traces(target, rng, tier):
    if target.name == "drx_full":
        from props import C40 as _c40
        return _c40.traces(target, rng, tier)
    if target.name == "rawrx":
        from props import C37_hdrrx as _h37
        return _h37.raw_traces(rng, tier) + _back_to_back_headers(rng)
    n = 25 if tier == "quick" else 150
    out = []
    for _ in range(n):
        tr = []
        L = rng.randint(1, 40)
        if target.name == "crc16_usb2":
            for k in range(L):
                r = rng.random()
                tr.append(dict(start=int(k == 0 or r < 0.05), rx_data=rng.getrandbits(8), rx_valid=int(rng.random() < 0.6),
                               tx_data=rng.getrandbits(8), tx_valid=int(rng.random() < 0.3)))
        elif target.name == "crc16_usb3":
            for k in range(L):
                tr.append(dict(clear=int(k == 0 or rng.random() < 0.05), data_input=rng.getrandbits(32),
                               advance_crc=int(rng.random() < 0.7)))
        else:
            for k in range(L):
                tr.append(dict(clear=int(k == 0 or rng.random() < 0.05), data_input=rng.getrandbits(32),
                               advance_word=int(rng.random() < 0.5), advance_3B=int(rng.random() < 0.2),
                               advance_2B=int(rng.random() < 0.2), advance_1B=int(rng.random() < 0.2)))
        out.append(tr)
    return out


def _serial(bits, width, poly, reg):
    for b in bits:
        top = (reg >> (width - 1)) & 1
        reg = (reg << 1) & ((1 << width) - 1)
        if top ^ b: reg ^= poly
    return reg


def _rev(x, w):
    return int(format(x, f"0{w}b")[::-1], 2)


_POLY = {"poly5": 0x05, "poly16": 0x8005, "poly16h": 0x100B, "poly32": 0x04C11DB7}


def _impl_fn(g):
    """Python callable (reg, data) -> int evaluating LUNA's own expression through Amaranth's simulator, or None."""
    from amaranth import Elaboratable, Module, Signal
    from amaranth.sim import Simulator
    from luna.gateware.usb.usb2.packet import USBTokenDetector, USBDataPacketCRC
    from luna.gateware.usb.usb3.link.crc import compute_usb_crc5, HeaderPacketCRC, DataPacketPayloadCRC
    table = {
        "crc5_usb2": (0, 11, lambda c, d: USBTokenDetector._generate_crc_for_token(d)),
        "crc5_usb3": (0, 11, lambda c, d: compute_usb_crc5(d)),
        "crc16_usb2_rx": (16, 8, lambda c, d: USBDataPacketCRC()._generate_next_crc(c, d)),
        "crc16_usb2_tx": (16, 8, lambda c, d: USBDataPacketCRC()._generate_next_crc(c, d)),
        "crc16_usb3_next": (16, 32, lambda c, d: HeaderPacketCRC()._generate_next_crc(c, d)),
        "crc32_word": (32, 32, lambda c, d: DataPacketPayloadCRC()._generate_next_full_crc(c, d)),
        "crc32_3B": (32, 24, lambda c, d: DataPacketPayloadCRC()._generate_next_3B_crc(c, d)),
        "crc32_2B": (32, 16, lambda c, d: DataPacketPayloadCRC()._generate_next_2B_crc(c, d)),
        "crc32_1B": (32, 8, lambda c, d: DataPacketPayloadCRC()._generate_next_1B_crc(c, d)),
    }
    if g not in table:
        return None
    W, D, fn = table[g]

    def run(reg, data):
        class Wrap(Elaboratable):
            def __init__(s):
                s.c = Signal(max(W, 1)); s.d = Signal(D); s.o = Signal(max(W, 5) if W else 5)
            def elaborate(s, platform):
                m = Module(); m.d.comb += s.o.eq(fn(s.c, s.d)); return m
        w = Wrap(); sim = Simulator(w); res = []
        async def tb(ctx):
            ctx.set(w.c, reg); ctx.set(w.d, data); await ctx.delay(1e-6); res.append(ctx.get(w.o))
        sim.add_testbench(tb); sim.run()
        return res[0]
    return run


def _confirm(g, poly, W, D, kind):
    def cb(path, bdir, hdr):
        outbit, v = path[0], path[1]
        env = 0 if v == 0 else 1 << (v - 1)
        if kind == "full":
            reg, data = (1 << W) - 1, env
            bits = [(data >> i) & 1 for i in range(D)]
            expected = _rev(_serial(bits, W, _POLY[poly], reg) ^ ((1 << W) - 1), W)
            regv = 0
        else:
            regv = env & ((1 << W) - 1); data = env >> W
            bits = [(data >> i) & 1 for i in range(D)]
            expected = _serial(bits, W, _POLY[poly], regv) if kind in ("step",) else None
        fn = _impl_fn(g)
        got = fn(regv, data) if fn else None
        confirmed = (got is not None and expected is not None and got != expected)
        return dict(property=PID, obligation=f"ob_{g}", kernel=g, describe="parallel XOR equations vs bit-serial reference",
                    differing_output_bit=outbit, distinguishing_input=dict(register=regv, data=data),
                    expected_reference=expected, implementation_value=got, confirmed_on_pysim=confirmed,
                    how="affine normal forms of the regenerated equations differ from the reference; the all-zero input or a unit "
                        "vector distinguishes two affine maps; LUNA's own expression was evaluated at that point with Amaranth's simulator")
    return cb


def _back_to_back_headers(rng):
    """Header packets separated by 0, 1, 2, 3 words (the receiver spends one cycle judging a packet): the second packet's
    verdict must depend on its own check fields only."""
    from props import C37_hdrrx as H
    out = []
    for gap in (0, 1, 2, 3):
        for bad2 in (False, True):
            tr = []
            for k, bad in enumerate((False, bad2)):
                ws = H.header_words(rng.getrandbits(32), rng.getrandbits(32), rng.getrandbits(32), k, bad16=bad)
                tr += [{"sink_valid": 1, "sink_data": H.HP_START, "sink_ctrl": 15, "expected_sequence": k}]
                tr += [{"sink_valid": 1, "sink_data": w, "sink_ctrl": 0, "expected_sequence": k} for w in ws]
                tr += [{"sink_valid": 1, "sink_data": 0, "sink_ctrl": 0, "expected_sequence": (k + 1) % 8} for _ in range(gap)]
            tr += [{"sink_valid": 1, "sink_data": 0, "sink_ctrl": 0, "expected_sequence": 2} for _ in range(4)]
            out.append(tr)
    return out


def obligations(targets, tier):
    t2, t3, t32, tdrx, traw = targets
    obs = [tie.cmon("accept_rawrx", traw, mon="(rsx_monN 130)", m0="(packb 130 (rs_nums RS_HUNT ++ [0; 0]))",
                    describe="RawHeaderPacketReceiver (real CRC-5 / header CRC-16 units): new_packet / bad_packet are the verdict of the declarative "
                             "parser with the reference CRCs, over simulator traces incl. header packets 0..3 words apart"),
           tie.cmon("accept_drx_full", tdrx, mon="(drx_spec_mon crc16_hdr crc32_usb 11 true)", m0="1",
                    describe="complete DataPacketReceiver (real CRC units): packet_good/packet_bad and the delivered payload are those of the "
                             "specification parser with the reference bit-serial CRCs, over simulator traces (every tail length, corrupted check "
                             "fields, aborted payloads followed by good packets, back-to-back packets)")]
    for g, poly, W, D in _STEP:
        n = W + D
        obs.append(tie.affine(f"ob_{g}", xt=g, nvars=n,
                   spec_aff=f"crc_shifts aff axor (aconst {n} false) {poly} (map (avar {n}) (seq 0 {W})) (map (avar {n}) (seq {W} {D}))",
                   describe=f"{g}: next-state equations = {D} bit-serial shifts, all {n}-bit inputs", confirm=_confirm(g, poly, W, D, "step")))
    for g, W in _OUT:
        obs.append(tie.affine(f"ob_{g}", xt=g, nvars=W, spec_aff=f"crc_finish aff anot (map (avar {W}) (seq 0 {W}))",
                   describe=f"{g}: output stage = complement + bit reversal", confirm=_confirm(g, "poly16", W, 0, "out")))
    for g, D in _OUTNEXT:
        W = 32; n = W + D
        obs.append(tie.affine(f"ob_{g}", xt=g, nvars=n,
                   spec_aff=f"crc_finish aff anot (crc_shifts aff axor (aconst {n} false) poly32 (map (avar {n}) (seq 0 {W})) (map (avar {n}) (seq {W} {D})))",
                   describe=f"{g}: look-ahead CRC32 output for a {D}-bit tail", confirm=_confirm(g, "poly32", W, D, "outnext")))
    for g, poly, W, D in _FULL:
        obs.append(tie.affine(f"ob_{g}", xt=g, nvars=D,
                   spec_aff=f"crc_finish aff anot (crc_shifts aff axor (aconst {D} false) {poly} (map (aconst {D}) (repeat true {W})) (map (avar {D}) (seq 0 {D})))",
                   describe=f"{g}: CRC5 of an 11-bit field", confirm=_confirm(g, poly, W, D, "full")))
    return obs + [
        tie.corr("corr_crc16_usb2", t2, mstep="crc16mod_step", m0="reg_init 16",
                 describe="USBDataPacketCRC register/mux model vs simulator (random start/rx/tx patterns)"),
        tie.corr("corr_crc16_usb3", t3, mstep="crc16hmod_step", m0="reg_init 16",
                 describe="HeaderPacketCRC model vs simulator"),
        tie.corr("corr_crc32_usb3", t32, mstep="crc32mod_step", m0="reg_init 32",
                 describe="DataPacketPayloadCRC model (word + 3/2/1-byte tails, four outputs) vs simulator"),
    ]


# ---------------------------------------------------------------------------------------------
# kernel extraction
KERNELS = []   # filled by extra_gen: dicts(name, nvars, nout, statement pieces)


def _cone(build, consts, reg_name, data_port, data_bits, what, reg_width=None):
    """Extract (a) next-state cone of register `reg_name`, or (b) the cone of output port `what`,
    from the elaborated netlist of build() with control inputs fixed to `consts`.
    Variables: register bits 0..w-1, then data bits."""
    elab, ins, outs = build()
    ports = {n: (s, 'i') for n, s in ins}; ports.update({n: (s, 'o') for n, s in outs})
    nl = nir2coq.elaborate(elab, ports)
    ci, cell = xtgen.ff_of_signal(nl, reg_name, reg_width)
    w = len(cell.data)
    top = nl.top
    consts = dict(consts)
    for nm in top.ports_i:
        if nm == "rst" or nm.endswith("_rst"):
            consts[nm] = 0
    dstart = None
    if data_port is not None:
        dstart, dwidth = top.ports_i[data_port]

    def var_of_net(n):
        if n.is_const: return None
        if n.cell == ci: return n.bit
        if n.cell == 0 and dstart is not None and dstart <= n.bit < dstart + data_bits:
            return w + (n.bit - dstart)
        return None
    # remaining data bits (above data_bits) and other inputs must be constants
    if data_port is not None and data_bits < dwidth:
        # tie the unused upper data bits to 0 by splitting: handled by declaring them const below
        pass
    from amaranth.hdl import _nir
    if what == "next":
        value = cell.data
    else:
        value = dict(top.ports_o)[what]
    # mark all other top inputs as constant zero unless listed
    for nm, (start, width) in top.ports_i.items():
        if nm not in consts and nm != data_port and not nm.endswith("clk"):
            consts[nm] = 0
    if data_port is not None and data_bits < dwidth:
        # upper bits of the data port are ignored by tail kernels; they must not appear in the cone:
        # leave them non-constant and non-variable so that any use raises Unsupported.
        pass
    return xtgen.nir_cone(nl, consts, value, var_of_net), w


def extra_gen(bdir, tier):
    from amaranth import Signal
    from luna.gateware.usb.usb2.packet import USBTokenDetector
    from luna.gateware.usb.usb3.link.crc import compute_usb_crc5
    L = ["(* GENERATED from /repo by props/C30.py + tools/xtgen.py -- do not edit *)",
         "From Coq Require Import List Bool. Import ListNotations.", "From LunaLib Require Import Affine.", ""]
    KERNELS.clear()

    def emit(name, terms):
        L.append(f"Definition {name}_xt : list xt := [\n  " + ";\n  ".join(terms) + "\n].")

    # CRC5s: helper functions
    t = Signal(11, name="t")
    emit("crc5_usb2", xtgen.ast_to_xt(USBTokenDetector._generate_crc_for_token(t), {id(t): 0}))
    t = Signal(11, name="t")
    emit("crc5_usb3", xtgen.ast_to_xt(compute_usb_crc5(t), {id(t): 0}))
    # USB2 CRC16: netlist cones
    x, w = _cone(_usb2_crc16, dict(start=0, rx_valid=1, tx_valid=0), "crc", "rx_data", 8, "next", 16); emit("crc16_usb2_rx", x)
    x, w = _cone(_usb2_crc16, dict(start=0, rx_valid=0, tx_valid=1), "crc", "tx_data", 8, "next", 16); emit("crc16_usb2_tx", x)
    x, w = _cone(_usb2_crc16, dict(start=0, rx_valid=0, tx_valid=0), "crc", None, 0, "crc", 16); emit("crc16_usb2_out", x)
    # USB3 header CRC16
    x, w = _cone(_usb3_crc16, dict(clear=0, advance_crc=1), "crc", "data_input", 32, "next", 16); emit("crc16_usb3_next", x)
    x, w = _cone(_usb3_crc16, dict(clear=0, advance_crc=0), "crc", None, 0, "crc", 16); emit("crc16_usb3_out", x)
    # USB3 CRC32
    z = dict(clear=0, advance_word=0, advance_3B=0, advance_2B=0, advance_1B=0)
    for nm, port, nb in (("word", "advance_word", 32), ("3B", "advance_3B", 24), ("2B", "advance_2B", 16), ("1B", "advance_1B", 8)):
        c = dict(z); c[port] = 1
        x, w = _cone(_usb3_crc32, c, "crc", "data_input", nb, "next", 32); emit(f"crc32_{nm}", x)
    x, w = _cone(_usb3_crc32, z, "crc", None, 0, "crc", 32); emit("crc32_out", x)
    for nm, nb in (("3B", 24), ("2B", 16), ("1B", 8)):
        x, w = _cone(_usb3_crc32, z, "crc", "data_input", nb, f"next_crc_{nm}", 32); emit(f"crc32_out_{nm}", x)
    p = bdir / "Gen_kernels.v"
    p.write_text("\n".join(L) + "\n")
    return [p]


# name, poly, register width W, data bits D, kind
_STEP = [("crc16_usb2_rx", "poly16", 16, 8), ("crc16_usb2_tx", "poly16", 16, 8), ("crc16_usb3_next", "poly16h", 16, 32),
         ("crc32_word", "poly32", 32, 32), ("crc32_3B", "poly32", 32, 24), ("crc32_2B", "poly32", 32, 16), ("crc32_1B", "poly32", 32, 8)]
_OUT = [("crc16_usb2_out", 16), ("crc16_usb3_out", 16), ("crc32_out", 32)]
_OUTNEXT = [("crc32_out_3B", 24), ("crc32_out_2B", 16), ("crc32_out_1B", 8)]
_FULL = [("crc5_usb2", "poly5", 5, 11), ("crc5_usb3", "poly5", 5, 11)]

_PROOF = """
Proof.
  intro env.
  rewrite (affine_reflect {n} {g}_xt {g}_aff {g}_wf {g}_forms env). unfold {g}_aff.
  {steps}
Qed.
"""


def tie_theorems(targets, tier):
    s = ""
    hom = "(eva env) (eva_axor env) (eva_aconst {n} env false)"
    for g, poly, W, D in _STEP:
        n = W + D
        s += f"""
Lemma {g}_wf : forallb (wf {n}) {g}_xt = true. Proof. vm_compute. reflexivity. Qed.
Lemma {g}_forms : map (nf {n}) {g}_xt = {g}_aff. Proof. vm_compute. reflexivity. Qed.
Theorem C30_{g} : forall env : nat -> bool,
  map (ev env) {g}_xt = crc_update {poly} (map env (seq 0 {W})) (map env (seq {W} {D})).
Proof.
  intro env.
  rewrite (affine_reflect {n} {g}_xt {g}_aff {g}_wf {g}_forms env). unfold {g}_aff, crc_update.
  rewrite (crc_shifts_hom aff bool axor (aconst {n} false) xorb false (eva env) (eva_axor env) (eva_aconst {n} env false)).
  rewrite !map_eva_avar by lia. reflexivity.
Qed.
"""
    for g, W in _OUT:
        n = W
        s += f"""
Lemma {g}_wf : forallb (wf {n}) {g}_xt = true. Proof. vm_compute. reflexivity. Qed.
Lemma {g}_forms : map (nf {n}) {g}_xt = {g}_aff. Proof. vm_compute. reflexivity. Qed.
Theorem C30_{g} : forall env : nat -> bool,
  map (ev env) {g}_xt = crc_finish bool negb (map env (seq 0 {W})).
Proof.
  intro env.
  rewrite (affine_reflect {n} {g}_xt {g}_aff {g}_wf {g}_forms env). unfold {g}_aff.
  rewrite (crc_finish_hom aff bool anot negb (eva env) (eva_anot env)).
  rewrite !map_eva_avar by lia. reflexivity.
Qed.
"""
    for g, D in _OUTNEXT:
        W = 32; n = W + D
        s += f"""
Lemma {g}_wf : forallb (wf {n}) {g}_xt = true. Proof. vm_compute. reflexivity. Qed.
Lemma {g}_forms : map (nf {n}) {g}_xt = {g}_aff. Proof. vm_compute. reflexivity. Qed.
Theorem C30_{g} : forall env : nat -> bool,
  map (ev env) {g}_xt = crc_finish bool negb (crc_update poly32 (map env (seq 0 {W})) (map env (seq {W} {D}))).
Proof.
  intro env.
  rewrite (affine_reflect {n} {g}_xt {g}_aff {g}_wf {g}_forms env). unfold {g}_aff, crc_update.
  rewrite (crc_finish_hom aff bool anot negb (eva env) (eva_anot env)).
  rewrite (crc_shifts_hom aff bool axor (aconst {n} false) xorb false (eva env) (eva_axor env) (eva_aconst {n} env false)).
  rewrite !map_eva_avar by lia. reflexivity.
Qed.
"""
    for g, poly, W, D in _FULL:
        n = D
        s += f"""
Lemma {g}_wf : forallb (wf {n}) {g}_xt = true. Proof. vm_compute. reflexivity. Qed.
Lemma {g}_forms : map (nf {n}) {g}_xt = {g}_aff. Proof. vm_compute. reflexivity. Qed.
Theorem C30_{g} : forall env : nat -> bool,
  map (ev env) {g}_xt = crc_bits {poly} (map env (seq 0 {D})).
Proof.
  intro env.
  rewrite (affine_reflect {n} {g}_xt {g}_aff {g}_wf {g}_forms env). unfold {g}_aff, crc_bits.
  rewrite (crc_finish_hom aff bool anot negb (eva env) (eva_anot env)).
  rewrite (crc_shifts_hom aff bool axor (aconst {n} false) xorb false (eva env) (eva_axor env) (eva_aconst {n} env false)).
  rewrite map_eva_aconst. rewrite !map_eva_avar by lia. reflexivity.
Qed.
"""
    return s


def tie_theorem_names(targets, tier):
    return [f"C30_{g[0]}" for g in _STEP + _OUT + _OUTNEXT + _FULL]


LEVEL_TEXT = ("Machine-checked proof, all inputs. The parallel XOR equations of every CRC in LUNA (USB2 CRC5/CRC16, USB3 link CRC5, header CRC16, "
              "payload CRC32 incl. its 1/2/3-byte tails, and the complement+reverse output stages) are re-extracted from /repo on every run "
              "(from the elaborated netlists, control inputs fixed; CRC5s from their helper functions), normalised to GF(2) affine forms by a "
              "verified normaliser and proved equal, for every register value and every data word, to the bit-serial reference definition. "
              "The register/priority wrapper of USBDataPacketCRC has an unbounded theorem (crc output after any event sequence = standard CRC16 of the bytes).")
LEVEL_NOTE = ("Trusted: Coq kernel + vm_compute; Amaranth elaboration; tools/xtgen.py (fail-closed constant-folding cone extraction; it contains no "
              "algebra, the normalisation is done and proved in Coq); the module wrappers are tied by simulator correspondence, not proof.")
TECHNIQUE = "Rocq proof by affine reflection over GF(2) of kernels regenerated from source; induction for the module wrapper; simulator correspondence"
