"""C25 -- gateware full-speed PHY (luna/gateware/interface/gateware_phy: phy.py, transmitter.py, receiver.py)."""
from harness.core import Target
from harness.slice import SlicedTarget
from harness import tie, tie_explicit, tie_dep

PID = "C25"
TIE_IMPORTS = ("From LunaModel Require Import GwPhyCodec GwPhyCodec_proofs GwPhy GwPhyTxU_proofs GwPhyTxIo_proofs GwPhyTie GwPhyTie_proofs GwPhyMon.\n"
               "From LunaLib Require Import ReachDep.\nFrom Coq Require Import Lia.\n")

CLOCKS = {"usb_io": 1, "usb": 4}

# ------------------------------------------------------------------------------------------------
# reference line code (python twin of coq/Model/GwPhyCodec.v, used only to generate stimuli)
# ------------------------------------------------------------------------------------------------
J, K, SE0, SE1 = "J", "K", "0", "1"
LINE = {J: (1, 0), K: (0, 1), SE0: (0, 0), SE1: (1, 1)}          # (d_p, d_n)
SYNC = [0, 0, 0, 0, 0, 0, 0, 1]


def bits_of(bs):
    return [(b >> k) & 1 for b in bs for k in range(8)]


def stuff(bits, n=0):
    out = []
    for b in bits:
        out.append(b)
        if b:
            n += 1
            if n == 6:
                out.append(0); n = 0
        else:
            n = 0
    return out


def nrzi(bits, prev=J):
    out = []
    for b in bits:
        if b == 0:
            prev = K if prev == J else J
        out.append(prev)
    return out


def frame(bs, n=1):
    """n=1: USB 2.0 (SYNC's last 1 counts as the first one); n=0: LUNA's transmitter."""
    return nrzi(SYNC + stuff(bits_of(bs), n)) + [SE0, SE0, J]


# ------------------------------------------------------------------------------------------------
# targets
# ------------------------------------------------------------------------------------------------
def mkio(pulls=False):
    from amaranth.hdl.rec import Record
    lay = [('d_p', [('i', 1), ('o', 1), ('oe', 1)]), ('d_n', [('i', 1), ('o', 1), ('oe', 1)])]
    if pulls:
        lay += [('pullup', [('o', 1)]), ('pulldown', [('o', 1)])]
    return Record(lay)


def build_tx():
    from luna.gateware.interface.gateware_phy.phy import GatewarePHY
    io = mkio(); d = GatewarePHY(io=io)
    ins = [("tx_data", d.tx_data), ("tx_valid", d.tx_valid), ("op_mode", d.op_mode)]
    outs = [("dp_o", io.d_p.o), ("dn_o", io.d_n.o), ("dp_oe", io.d_p.oe), ("dn_oe", io.d_n.oe), ("tx_ready", d.tx_ready)]
    return d, ins, outs


def _pre(elab):
    from amaranth import Elaboratable
    m = elab.elaborate(None)
    elab._MustUse__silence = True
    sub = {k: v[0] for k, v in m._named_submodules.items()}

    class Pre(Elaboratable):
        def elaborate(self, platform):
            return m
    return Pre(), sub


def build_rxf():
    from luna.gateware.interface.gateware_phy.receiver import RxPipeline
    rx = RxPipeline()
    top, sub = _pre(rx)
    pf, ff = sub["payload_fifo"], sub["flags_fifo"]
    ins = [("i_usbp", rx.i_usbp), ("i_usbn", rx.i_usbn)]
    outs = [("pw_en", pf.w_en), ("pw_data", pf.w_data), ("fw_en", ff.w_en), ("fw_data", ff.w_data),
            ("rx_err", rx.o_receive_error), ("strobe", rx.o_bit_strobe)]
    return top, ins, outs


def build_rx():
    from luna.gateware.interface.gateware_phy.phy import GatewarePHY
    io = mkio(); d = GatewarePHY(io=io)
    ins = [("dp_i", io.d_p.i), ("dn_i", io.d_n.i), ("tx_data", d.tx_data), ("tx_valid", d.tx_valid), ("op_mode", d.op_mode)]
    outs = [("rx_data", d.rx_data), ("rx_valid", d.rx_valid), ("rx_active", d.rx_active), ("rx_error", d.rx_error)]
    return d, ins, outs


def build_pulls():
    from luna.gateware.interface.gateware_phy.phy import GatewarePHY
    io = mkio(pulls=True); d = GatewarePHY(io=io)
    ins = [("term_select", d.term_select), ("dp_pulldown", d.dp_pulldown), ("dm_pulldown", d.dm_pulldown)]
    outs = [("pullup", io.pullup.o), ("pulldown", io.pulldown.o)]
    return d, ins, outs


def comp(name):
    """The individual LUNA classes, each instantiated on its own (ports in a fixed order)."""
    def build():
        from amaranth import Signal
        from luna.gateware.interface.gateware_phy import receiver as R, transmitter as T
        if name == "rxcdr":
            p, n = Signal(), Signal(); d = R.RxClockDataRecovery(p, n)
            return d, [("usbp", p), ("usbn", n)], [("valid", d.line_state_valid), ("dj", d.line_state_dj), ("dk", d.line_state_dk),
                                                   ("se0", d.line_state_se0), ("se1", d.line_state_se1)]
        if name == "rxnrzi":
            d = R.RxNRZIDecoder()
            return d, [("i_valid", d.i_valid), ("i_dj", d.i_dj), ("i_dk", d.i_dk)], \
                      [("o_valid", d.o_valid), ("o_data", d.o_data), ("o_se0", d.o_se0)]
        if name == "rxdet":
            d = R.RxPacketDetect()
            return d, [("i_valid", d.i_valid), ("i_data", d.i_data), ("i_se0", d.i_se0)], \
                      [("start", d.o_pkt_start), ("active", d.o_pkt_active), ("end", d.o_pkt_end)]
        if name == "rxbs":
            d = R.RxBitstuffRemover()
            return d, [("i_valid", d.i_valid), ("i_data", d.i_data)], [("o_data", d.o_data), ("o_error", d.o_error), ("o_stall", d.o_stall)]
        if name.startswith("rxsh"):
            d = R.RxShifter(width=int(name[4:]))
            return d, [("reset", d.reset), ("i_valid", d.i_valid), ("i_data", d.i_data)], [("o_data", d.o_data), ("o_put", d.o_put)]
        if name.startswith("txsh"):
            d = T.TxShifter(width=int(name[4:]))
            return d, [("i_data", d.i_data), ("i_enable", d.i_enable), ("i_clear", d.i_clear)], \
                      [("o_get", d.o_get), ("o_empty", d.o_empty), ("o_data", d.o_data)]
        if name == "txbs":
            d = T.TxBitstuffer()
            return d, [("i_data", d.i_data)], [("o_stall", d.o_stall), ("o_will_stall", d.o_will_stall), ("o_data", d.o_data)]
        if name == "txnrzi":
            d = T.TxNRZIEncoder()
            return d, [("i_valid", d.i_valid), ("i_oe", d.i_oe), ("i_data", d.i_data)], \
                      [("o_usbp", d.o_usbp), ("o_usbn", d.o_usbn), ("o_oe", d.o_oe)]
        raise KeyError(name)
    t = Target(name, build); t.kind = "comp"
    return t


TRUE_WF = dict(wf="(fun _ => True)", wf_step="(fun _ _ _ => I)", wf_m0="exact I.")
# name -> (input bits, rlock arguments, description)
COMPS = {
    "rxcdr": (2, dict(St="cdr", mstep="cdr_mstep", enc="cdr_enc", dec="cdr_dec", wf="cdr_wf", dec_enc="cdr_dec_enc",
                      wf_step="cdr_wf_step", m0="cdr_init", wf_m0="exact cdr_wf_init."),
              "RxClockDataRecovery == model, every D+/D- trace"),
    "rxnrzi": (3, dict(St="rxnz", mstep="rxnz_mstep", enc="rxnz_enc", dec="rxnz_dec", dec_enc="rxnz_dec_enc", m0="rxnz_init", **TRUE_WF),
               "RxNRZIDecoder == model, every input trace"),
    "rxdet": (3, dict(St="N", mstep="det_mstep", enc="(fun x => x)", dec="(fun x => x)", dec_enc="(fun s _ => eq_refl)", m0="0", **TRUE_WF),
              "RxPacketDetect == model, every input trace"),
    "rxbs": (2, dict(St="rxbs", mstep="rxbs_mstep", enc="rxbs_enc", dec="rxbs_dec", dec_enc="rxbs_dec_enc", m0="rxbs_init", **TRUE_WF),
             "RxBitstuffRemover == model, every input trace"),
    "rxsh8": (3, dict(St="rxsh", mstep="rxsh_mstep 8", enc="rxsh_enc", dec="rxsh_dec", dec_enc="rxsh_dec_enc", m0="rxsh_init", **TRUE_WF),
              "RxShifter(width=8) == model, every input trace"),
    "rxsh3": (3, dict(St="rxsh", mstep="rxsh_mstep 3", enc="rxsh_enc", dec="rxsh_dec", dec_enc="rxsh_dec_enc", m0="rxsh_init", **TRUE_WF),
              "RxShifter(width=3) == model, every input trace"),
    "txsh4": (6, dict(St="txsh", mstep="txsh_mstep 4", enc="txsh_enc 4", dec="txsh_dec 4", wf="txsh_wf 4", dec_enc="txsh_dec_enc 4",
                      wf_step="txsh_wf_step 4", m0="txsh_init", wf_m0="exact (txsh_wf_init 4)."),
              "TxShifter(width=4) == model, every input trace (all data words)"),
    "txbs": (1, dict(St="(N * bool)%type", mstep="txbs_mstep", enc="txbs_enc", dec="txbs_dec", dec_enc="txbs_dec_enc", m0="(0, false)", **TRUE_WF),
             "TxBitstuffer == model, every input trace"),
    "txnrzi": (3, dict(St="(nzst * (bool * bool * bool))%type", mstep="txnz_mstep", enc="txnz_enc", dec="txnz_dec", dec_enc="txnz_dec_enc",
                       m0="(NzIdle, (false, false, false))", **TRUE_WF),
               "TxNRZIEncoder == model, every input trace"),
}


def comps(tier):
    if tier == "quick":
        return ["rxcdr", "rxnrzi", "rxdet", "rxbs", "rxsh8"]       # the transmit classes are covered by ob_phytx
    return list(COMPS)


def targets(tier):
    ts = []
    t = SlicedTarget("phytx", build_tx, clocks=CLOCKS); t.kind = "tx"; ts.append(t)
    t = SlicedTarget("rxfront", build_rxf); t.kind = "rxf"; ts.append(t)
    t = SlicedTarget("phyrx", build_rx, clocks=CLOCKS); t.kind = "rx"; ts.append(t)
    t = SlicedTarget("phypulls", build_pulls); t.kind = "pulls"; ts.append(t)
    ts += [comp(n) for n in comps(tier)]
    return ts


# ------------------------------------------------------------------------------------------------
# stimuli
# ------------------------------------------------------------------------------------------------
def expand4(usb_cycles):
    """per-usb-cycle inputs -> per-usb_io-step inputs: step 0 carries cycle 0, steps 4j-3..4j carry cycle j
    (the usb edge at the end of step 4j samples cycle j; UTMI inputs change right after a usb edge)."""
    out = [dict(usb_cycles[0])]
    for c in usb_cycles[1:]:
        out += [dict(c) for _ in range(4)]
    return out


def utmi_tx_sessions(sessions):
    """UTMI-conformant transmit histories generated in closed loop with Amaranth's simulator of the CURRENT tree: the
    driver raises tx_valid with the first byte, samples tx_ready with the usb clock, presents the next byte (or drops
    tx_valid after the last one) in the cycle after a tx_ready, and shows idle() on tx_data while tx_valid = 0.
    sessions: list of (packets, gaps, idle, pre).  Returns one per-usb_io-step input trace per session (step 0 carries
    usb cycle 0, steps 4j-3..4j carry cycle j).  The harness then replays these traces open loop."""
    from amaranth.sim import Simulator
    elab, ins, outs = build_tx()
    sim = Simulator(elab)
    for d, ratio in CLOCKS.items():
        sim.add_clock(1e-6 * ratio, phase=0.5e-6, domain=d)
    insig = dict(ins); ready = dict(outs)["tx_ready"]
    box = {}

    async def tb(ctx):
        pkts, gaps, idle, pre = box["s"]
        plan = []                       # per usb cycle: None = idle cycle, else (packet index)
        trace = []
        state = dict(phase="pre", left=pre, pk=0, idx=0)

        def cycle_inputs():
            if state["phase"] in ("pre", "gap"):
                return dict(tx_data=idle(), tx_valid=0, op_mode=0)
            return dict(tx_data=pkts[state["pk"]][state["idx"]], tx_valid=1, op_mode=0)

        def advance(rdy):
            if state["phase"] in ("pre", "gap"):
                state["left"] -= 1
                if state["left"] <= 0:
                    if state["pk"] < len(pkts):
                        state["phase"] = "pkt"; state["idx"] = 0
                    else:
                        state["phase"] = "done"
            elif rdy:
                state["idx"] += 1
                if state["idx"] >= len(pkts[state["pk"]]):
                    state["phase"] = "gap"; state["left"] = gaps[state["pk"]]; state["pk"] += 1

        if state["left"] <= 0:
            state["phase"] = "pkt"
        cur = cycle_inputs()
        step = 0
        while state["phase"] != "done" and step < 20000:
            for n, v in cur.items():
                ctx.set(insig[n], v)
            trace.append(dict(cur))
            if step % 4 == 0:           # the usb edge at the end of this step samples tx_ready and the inputs
                rdy = ctx.get(ready)
                advance(rdy)
                if state["phase"] != "done":
                    cur = cycle_inputs()
            await ctx.tick("usb_io")
            step += 1
        box["trace"] = trace
    sim.add_testbench(tb)
    res = []
    for s_ in sessions:
        box["s"] = s_
        sim.reset(); sim.run()
        res.append(box["trace"])
    return res


def traces(target, rng, tier):
    n = 12 if tier == "quick" else 40
    out = []
    if target.kind == "tx":
        specials = [[0xC3, 0x00, 0xFF, 0xFF, 0x12], [0xD2], [0x4B] + [0xFF] * 7, [0xC3, 0x7E, 0xFC, 0x3F], [0x5A, 0xFF],
                    [0xC3, 0xFF, 0xFF, 0xFF, 0x80, 0x01, 0xFE]]
        sessions = []
        for k in range(n):
            idle_byte = rng.choice([0x00, 0xFF, 0x7F, 0xFE, None])
            idle = (lambda: rng.getrandbits(8)) if idle_byte is None else (lambda v=idle_byte: v)
            pk = []
            for _ in range(rng.randint(1, 3)):
                if rng.random() < 0.4:
                    pk.append(list(rng.choice(specials)))
                else:
                    p = [rng.getrandbits(8) for _ in range(rng.randint(1, 6))]
                    if rng.random() < 0.7:
                        p[0] = rng.choice([0xC3, 0x4B, 0xD2, 0x5A, 0x1E, 0x69, 0xE1, 0x2D, 0xA5])
                    pk.append(p)
            gaps = [rng.randint(16, 30) for _ in pk]
            sessions.append((pk, gaps, idle, rng.randint(1, 25)))
        out += utmi_tx_sessions(sessions)
        # other operating modes and mode changes, non-conformant drivers
        for k in range(max(3, n // 3)):
            tr = []
            mode = rng.choice([0, 1, 2, 3])
            for j in range(rng.randint(40, 120)):
                if rng.random() < 0.05:
                    mode = rng.choice([0, 1, 2, 3])
                tr.append(dict(tx_data=rng.getrandbits(8), tx_valid=int(rng.random() < 0.7), op_mode=mode))
            out.append(expand4(tr))
        for k in range(max(2, n // 4)):
            tr = [dict(tx_data=rng.getrandbits(8), tx_valid=int(rng.random() < 0.5), op_mode=rng.choice([0, 0, 0, 1, 2, 3]))
                  for _ in range(rng.randint(50, 300))]
            out.append(tr)          # inputs changing on every usb_io step
    if target.kind == "rx":
        for k in range(n):
            # ideal 4x sampling at an arbitrary phase relative to the usb clock; good packets and stuffing violations
            syms = [J] * rng.randint(3, 12)
            for _ in range(rng.randint(1, 3)):
                pkt = rand_packet(rng)
                if rng.random() < 0.25:
                    bits = stuff(bits_of(pkt), 1) + [1] * 7 + [0] + stuff(bits_of(rand_packet(rng)), 0)
                    f = nrzi(SYNC + bits) + [SE0, SE0, J]
                else:
                    f = frame(pkt)
                syms += f + [J] * rng.randint(2, 20)
            syms += [J] * 40
            line = [LINE[J]] * rng.randint(0, 7) + [LINE[s] for s in syms for _ in range(4)]
            out.append([dict(dp_i=p, dn_i=q, tx_data=0, tx_valid=0, op_mode=0) for (p, q) in line])
    if target.kind == "pulls":
        out.append([dict(term_select=a & 1, dp_pulldown=(a >> 1) & 1, dm_pulldown=(a >> 2) & 1) for a in range(8)])
    if target.kind == "comp":
        names = [nm for nm, _ in target.build()[1]]
        widths = {nm: len(sig) for nm, sig in target.build()[1]}
        for k in range(4 if tier == "quick" else 10):
            p = rng.choice([0.25, 0.5, 0.9])
            out.append([{nm: (rng.getrandbits(widths[nm]) if widths[nm] > 1 else int(rng.random() < p)) for nm in names}
                        for _ in range(rng.randint(20, 120))])
    if target.kind == "rxf":
        for k in range(n):
            out.append([dict(i_usbp=p, i_usbn=q) for (p, q) in line_trace(rng, rng.choice(["ideal", "ideal", "jitter", "bad", "noise"]))])
    return out


def rand_packet(rng):
    specials = [[0xC3, 0x00, 0xFF, 0xFF, 0x12], [0xD2], [0xFF] * 9, [0x3F, 0x80], [0x1F, 0xFF], [0xC3, 0x7E, 0xFC, 0x3F],
                [0x4B] + [0xFF] * 7, [0x80], [0xFE, 0xFD]]
    if rng.random() < 0.4:
        return list(rng.choice(specials))
    return [rng.getrandbits(8) for _ in range(rng.randint(1, 8))]


def line_trace(rng, style):
    """(d_p, d_n) per usb_io cycle: idle J, packets, gaps."""
    syms = [J] * rng.randint(3, 30)
    for _ in range(rng.randint(1, 3)):
        pkt = rand_packet(rng)
        if style == "bad":
            kind = rng.choice(["violation", "shortsync", "trunc", "se1", "noeop"])
            if kind == "violation":
                pre = bits_of(pkt); bits = stuff(pre, 1) + [1] * 7 + stuff(bits_of(rand_packet(rng)), 0)
                f = nrzi(SYNC + bits) + [SE0, SE0, J]
            elif kind == "shortsync":
                f = nrzi(SYNC[rng.randint(1, 5):] + stuff(bits_of(pkt), 1)) + [SE0, SE0, J]
            elif kind == "trunc":
                f = frame(pkt); f = f[:rng.randint(1, len(f) - 1)] + [SE0, SE0, J]
            elif kind == "se1":
                f = frame(pkt); f[rng.randrange(len(f))] = SE1
            else:
                f = frame(pkt)[:-3]
        else:
            f = frame(pkt)
        syms += f + [J] * rng.randint(2, 24)
    out = []
    for s in syms:
        if style == "jitter":
            rep = rng.choice([3, 4, 4, 4, 4, 5])
        else:
            rep = 4
        out += [LINE[s]] * rep
    if style == "noise":
        out = [(p, q) if rng.random() > 0.03 else (rng.getrandbits(1), rng.getrandbits(1)) for (p, q) in out]
    return [(1, 0)] * rng.randint(0, 5) + out


# ------------------------------------------------------------------------------------------------
# obligations
# ------------------------------------------------------------------------------------------------
def tx_ties(tier):
    if tier == "quick":
        return [("ob_phytx", "[0; 255]", "[0]")]
    return [("ob_phytx", "[0; 255]", "[0; 1; 2; 3]"), ("ob_phytx_d3", "[0; 255; 126]", "[0]")]


def obligations(targets, tier):
    obs = []
    for t in targets:
        if t.kind == "tx":
            obs.append(tie.corr("corr_phytx", t, mstep="tx_step 8", m0="txs_init",
                                describe="GatewarePHY transmit side (TxPipeline + strobe counter + op-mode mux, two clocks) "
                                         "vs code-shaped model, random bytes / gaps / idle tx_data / op modes"))
            for name, datas, modes in tx_ties(tier):
                obs.append(tie_dep.rlock_dep(
                    name, t, St="txg", mstep="txg_step 8", enc="txg_enc", dec="txg_dec", wf="txg_wf",
                    dec_enc="txg_dec_enc", wf_step="txg_wf_step", m0="txg_init", wf_m0="exact txg_wf_init.",
                    alpha=f"txg_alpha {datas} {modes}", fuel=100000,
                    describe=f"GatewarePHY transmit side (TxPipeline, strobe counter, op-mode mux; two clocks) == model on every trace "
                             f"of any length with tx_data in {datas}, any tx_valid, op_mode in {modes}, UTMI inputs changing only "
                             f"after usb edges, usb ticking in every 4th usb_io step"))
            obs.append(tie.cmon("cm_tx", t, mon="tx_mon", m0="txm_init",
                                describe="specification oracle on simulator traces: whenever the UTMI transmit contract is respected, the "
                                         "symbols driven on D+/D- (4 usb_io cycles each, from the rise to the fall of the output enable) "
                                         "are frame(bytes accepted with tx_ready), and at least one byte was accepted"))
            obs.append(tie.cmon("cm_opmode", t, mon="opmode_mon", m0="0",
                                describe="UTMI operating modes on simulator traces: modes 1 and 3 never drive, mode 2 drives tx_data[0] raw"))
        if t.kind == "rx":
            obs.append(tie.cmon("cm_rx", t, mon="rx_mon", m0="rxm_init",
                                describe="specification oracle on simulator traces of the complete PHY (incl. both clock-domain-crossing "
                                         "FIFOs): every packet on an ideally 4x-sampled line (any phase) that unframe decodes to bytes is "
                                         "delivered as exactly those bytes in one rx_active run without rx_error; a packet with a "
                                         "bit-stuffing violation is delivered with rx_error seen while rx_active; nothing else is delivered"))
        if t.kind == "pulls":
            obs.append(tie.rmon("ob_pulls", t, mon="pulls_mon", m0="0", alpha_bits=3, fuel=100,
                                describe="pullup.o = term_select and pulldown.o = dp_pulldown | dm_pulldown, all input combinations"))
        if t.kind == "comp":
            bits_, args, desc = COMPS[t.name]
            obs.append(tie.rlock(f"ob_{t.name}", t, alpha_bits=bits_, fuel=100000, describe=desc, **args))
        if t.kind == "rxf":
            obs.append(tie.corr("corr_rxfront", t, mstep="rxf_step", m0="rxf_init",
                                describe="RxPipeline from the raw D+/D- inputs to the write ports of its two FIFOs (signals of the "
                                         "FIFO sub-modules observed directly) vs code-shaped model; ideal, jittered, malformed and noisy lines"))
    return obs


def tie_theorems(targets, tier):
    g = [t for t in targets if t.kind == "tx"][0].modname
    out = ""
    for name, datas, modes in tx_ties(tier):
        alpha = f"alpha_ok txg (txg_step 8) (txg_alpha {datas} {modes}) txg_init"
        out += f"""
Theorem C25_{name}_model : forall tr, {alpha} tr = true ->
  run {g}.step {g}.init tr = run (tx_step 8) txs_init tr.
Proof. intros tr H. rewrite ({name}_T.tie tr H). apply run_txg. Qed.

(* UTMI operating modes on the netlist: modes 1 (non-driving) and 3 never drive D+/D-, mode 2 drives tx_data[0] raw *)
Theorem C25_{name}_opmode : forall tr, {alpha} tr = true ->
  Forall2 (fun i o => opmode_ok i o = true) tr (run {g}.step {g}.init tr).
Proof. intros tr H. rewrite (C25_{name}_model tr H). apply run_opmode. Qed.
"""
    name, datas, modes = tx_ties(tier)[0]
    out += f"""
(* the tie composed with the session theorem on one concrete session inside the tie's alphabet (3 idle cycles with
   tx_data = FF, the bytes FF 00 FF, 22 idle cycles, the byte 00): the NETLIST's D+/D-/oe equal the specification *)
Definition C25_ph : list (list N * list N) := [([], [255; 255; 255]); ([255; 0; 255], repeat 255 44); ([0], repeat 0 24)].
Lemma C25_ph_ok : Forall phase_ok C25_ph.
Proof.
  constructor; [split; [constructor | intro H; exfalso; apply H; reflexivity]|].
  constructor; [split; [repeat constructor | intros _; vm_compute; lia]|].
  constructor; [split; [repeat constructor | intros _; vm_compute; lia]|]. constructor.
Qed.
Theorem C25_{name}_session : let tr := tx_trace 0 (tx_session_in 8 txu_init C25_ph) in
  map tx_line_of (run {g}.step {g}.init tr) =
  firstn (length tr) ((false, false, false) :: line_idle :: rep4 (flat_map (fun p => phase_line (fst p) (length (snd p))) C25_ph)).
Proof.
  intro tr.
  assert (H : alpha_ok txg (txg_step 8) (txg_alpha {datas} {modes}) txg_init tr = true) by (vm_compute; reflexivity).
  rewrite (C25_{name}_model tr H). destruct (tx_session_line C25_ph C25_ph_ok) as [L _]. cbv zeta in L.
  fold tr in L. rewrite run_length in L. exact L.
Qed.
"""
    return out


def tie_theorem_names(targets, tier):
    names = []
    for name, _, _ in tx_ties(tier):
        names += [f"C25_{name}_model", f"C25_{name}_opmode"]
    names.append(f"C25_{tx_ties(tier)[0][0]}_session")
    return names


ASSUMPTIONS = [
    "UTMI transmit contract (theorems 2, 3; monitor cm_tx): tx_valid rises with the first byte, every byte is held until a usb "
    "cycle with tx_ready, tx_valid falls in the cycle after the last byte's tx_ready; tx_data is arbitrary while tx_valid = 0",
    "inter-packet gap on the transmit side: tx_valid stays low until the previous packet's EOP has left the line "
    "(phase_ok: a phase lasts at least 1 + length (frame0 bytes) usb cycles); shorter gaps are not covered",
    "first byte of a transmitted packet does not begin with five 1 bits (first_ok; every USB PID qualifies): for such packets "
    "LUNA's stuffer starts one bit late w.r.t. USB 2.0 7.1.9 (frame0 instead of frame; C25_frame0_differs); reported, not patched",
    "two-clock environment: usb (12 MHz) ticks in every 4th usb_io (48 MHz) step, phase-aligned with the strobe counter in "
    "phy.py (both come out of reset together); UTMI inputs change only after usb edges",
    "receive theorems: exact 4x sampling of the line at an arbitrary phase, at least 7 idle samples after reset (2 bit times), "
    "line idle again after the EOP; clock drift / jitter is NOT covered by any theorem (model-vs-simulator comparison only)",
    "receive theorems end at the write ports of the two AsyncFIFOBuffered instances; the UTMI-side delivery "
    "(rx_data/rx_valid/rx_active/rx_error) is checked by the specification monitor cm_rx on simulator traces, not proved",
    "R tie of the transmit side: tx_data drawn from a small alphabet (see obligation_list); all data values are covered by "
    "the parametric theorems about the model plus corr_phytx on random bytes",
    "the op-mode clause takes UTMI's encodings as the specification (00 normal, 01 non-driving, 10 no bit-stuff/NRZI); "
    "mode 11 (undefined) must not drive",
    "internal FIFO write ports of RxPipeline are observed by calling RxPipeline.elaborate() in the harness and looking up the "
    "named sub-modules of the returned Module (no change to /repo)",
]
LEVEL_TEXT = (
    "Machine-checked proof, PARTIAL. (1) Line code, all byte sequences: unframe (frame bytes) = bytes, unstuff (stuff l) = l, at most "
    "six consecutive ones after stuffing, a violation is reported iff seven ones arrive. (2) Transmit: for the code-shaped two-clock model "
    "of GatewarePHY's transmit side (TxShifter, TxBitstuffer, TxPipeline FSM, 3-stage synchronisers, strobe counter, TxNRZIEncoder, op-mode "
    "mux) and every UTMI session from reset (any packets, any bytes, any tx_data while idle), D+/D-/oe show exactly idle, SYNC, NRZI of the "
    "bit-stuffed bytes, SE0 SE0 J at 4 usb_io cycles per symbol, and tx_ready is high one usb cycle per byte (C25_tx_session_line; "
    "unbounded in packets and lengths). (3) Receive: for the code-shaped model of RxPipeline up to its FIFO write ports and an ideally "
    "4x-sampled line at ANY phase, exactly start flag, the bytes, end flag are written and the error flag stays down "
    "(C25_rx_frame_cycles, all byte sequences); with seven consecutive ones the end flag is written with the error flag up "
    "(C25_rx_violation_cycles). (4) Ties, re-proved on every run against the netlist regenerated from /repo: the whole two-clock transmit "
    "side of GatewarePHY == model on all traces over a small tx_data alphabet (certified product reachability), with corollaries "
    "netlist = model, the UTMI op-mode clause on the netlist, and netlist line = specification on a concrete session; each receive class "
    "(RxClockDataRecovery, RxNRZIDecoder, RxPacketDetect, RxBitstuffRemover, RxShifter) == its model on all input traces; pull-up / "
    "pull-down wiring on all inputs. The composition of the receive classes (RxPipeline's wiring) and all 8-bit data paths are covered by "
    "model-vs-simulator correspondence, and the complete PHY incl. the clock-domain-crossing FIFOs by specification monitors "
    "(frame / unframe evaluated on simulator traces).")
LEVEL_NOTE = (
    "PARTIAL: no theorem covers clock drift/jitter (+-0.25 %), the AsyncFIFOBuffered crossings to the UTMI receive outputs, or "
    "inter-packet gaps shorter than an EOP; the transmit theorem is about frame0 (= frame for every first byte that is a PID). "
    "The unchanged tree violates the property in four places (findings/C25-*.diff, each with a replay): op-mode constants swapped w.r.t. "
    "UTMI; pull-down request wired to pullup.o; transmit bit stuffer never reset (ResetInserter without a domain resets nothing), so ones "
    "counted while idle can insert a spurious 0 after SYNC; rx_error is a single 48 MHz pulse that the 12 MHz side sees in one of four "
    "phases. The models are the repaired behaviour; ./check passes with the four patches applied and reports VIOLATION on the unchanged tree. "
    "Trusted: Coq kernel + vm_compute, Amaranth elaboration, nir2coq/Netlist.v (validated each run against Amaranth's simulator), harness.")
TECHNIQUE = ("Rocq proof: induction over bit/byte lists and sessions on code-shaped two-clock models; macro-step simulation (4 cycles = 1 symbol) "
             "between cycle-level and symbol-level receive machines; certified product reachability (lock-step, state-dependent alphabet) "
             "against the netlist regenerated from source; specification monitors and model correspondence on simulator traces")
