"""C02 -- USB2 data packets are accepted iff their CRC16 is valid, payload intact
(luna/gateware/usb/usb2/packet.py: USBDataPacketReceiver(standalone=True) incl. its USBDataPacketCRC and
USBInterpacketTimer submodules)."""
from harness.core import Target
from harness import tie, tie_explicit

PID = "C02"
D_FS = 10            # rx-to-tx delay, full speed @ 60 MHz (the standalone receiver's default speed)
TIMER = "640 10 (tbl_60 false) FULL"     # cmax, counter width, delay table, speed code of the standalone build
D_SMALL = 2          # rx-to-tx delay, full speed @ 12 MHz (FS-only timer: counter_max = 16), used for the R tie
TIMER_SMALL = "16 5 tbl_12 FULL"

ASSUMPTIONS = [
    "UTMI receive convention: a packet is a maximal rx_active run; its bytes are rx_data in the rx_valid cycles of the run "
    "other than the run's first cycle (the module ignores that cycle; UTMI+ never asserts RxValid there)",
    "environment (rxs_env): rx_valid only together with rx_active; rx_active stays low during the D+1 cycles in which the "
    "receiver waits out the inter-packet delay after a GOOD data packet (from the packet_complete strobe up to and including "
    "ready_for_response; D = 10 cycles at full speed / 60 MHz -- on a real bus the next packet's SYNC alone is longer). "
    "Nothing else: any bytes, lengths (0, 1, shorter than a CRC), rx_valid gaps, packet sequences",
    "reading note: for packets whose first byte is not a DATA0/1/2/MDATA PID byte (valid check nibble) the property's "
    "'streams exactly the bytes between PID and CRC' is read as 'streams nothing, raises nothing'",
    "strobes are registered: the verdict on a packet is shown in the cycle after rx_active falls; ready_for_response exactly "
    "D cycles after packet_complete",
    "tie configurations: the module has no size parameters. (a) receiver FSM alone (standalone=False; data_crc.crc and timer.tx_allowed "
    "free inputs, data_crc.start / timer.start observed): R lock-step over a restricted byte / CRC-value alphabet, every control pattern, "
    "no environment assumption; (b) USBDataPacketReceiver(standalone=True) as tests/test_usb2_packet.py builds it (default speed FULL, "
    "60 MHz timer tables, D = 10) and (c) the same wiring with USBInterpacketTimer(12 MHz, FS only) (D = 2): simulator correspondence of "
    "the composite model and the specification monitor, full-range bytes. The parametric theorem covers every timer table / speed with "
    "D <= counter_max + 1. The CRC16 equations are tied for all 2^24 inputs by C30, the timer by C05",
    "the standalone receiver with speed = LOW is not exercised (its delay constant is the subject of C05)",
]
TIE_IMPORTS = "From LunaModel Require Import Crc IpTimer Usb2DataRx Usb2DataRx_proofs.\n"

DATA_PIDS = [0xC3, 0x4B, 0x87, 0x0F]


def crc16(data):
    crc = 0xFFFF
    for b in data:
        for i in range(8):
            fb = ((crc >> 15) & 1) ^ ((b >> i) & 1)
            crc = (crc << 1) & 0xFFFF
            if fb:
                crc ^= 0x8005
    crc ^= 0xFFFF
    return sum(((crc >> i) & 1) << (15 - i) for i in range(16))


def mk():
    def build():
        from luna.gateware.usb.usb2.packet import USBDataPacketReceiver
        from luna.gateware.interface.utmi import UTMIInterface
        u = UTMIInterface()
        d = USBDataPacketReceiver(utmi=u, standalone=True)
        return d, [("rx_active", u.rx_active), ("rx_valid", u.rx_valid), ("rx_data", u.rx_data)], \
            [("stream_valid", d.stream.valid), ("stream_next", d.stream.next), ("stream_payload", d.stream.payload),
             ("packet_complete", d.packet_complete), ("crc_mismatch", d.crc_mismatch),
             ("ready_for_response", d.ready_for_response), ("packet_id", d.packet_id)]
    t = Target("datarx", build); t.small = False
    return t


def mk_small():
    """The same receiver wired exactly as standalone=True wires it, but with the smallest interpacket timer LUNA offers
    (12 MHz, FS only: counter_max 16, delay 2) so that the free-running timer counter does not blow up the state space."""
    def build():
        from amaranth import Elaboratable, Module
        from luna.gateware.usb.usb2.packet import USBDataPacketReceiver, USBDataPacketCRC, USBInterpacketTimer
        from luna.gateware.usb.usb2 import USBSpeed
        from luna.gateware.interface.utmi import UTMIInterface

        class RxSmall(Elaboratable):
            def __init__(self):
                self.utmi = UTMIInterface()
                self.rx = USBDataPacketReceiver(utmi=self.utmi)
            def elaborate(self, platform):
                m = Module()
                m.submodules.rx = rx = self.rx
                m.submodules.crc = crc = USBDataPacketCRC()
                crc.add_interface(rx.data_crc)
                m.submodules.timer = timer = USBInterpacketTimer(domain_clock=12e6, fs_only=True)
                timer.add_interface(rx.timer)
                m.d.comb += [crc.rx_data.eq(self.utmi.rx_data), crc.rx_valid.eq(self.utmi.rx_valid), crc.tx_valid.eq(0),
                             timer.speed.eq(USBSpeed.FULL)]
                return m
        w = RxSmall(); u = w.utmi; d = w.rx
        return w, [("rx_active", u.rx_active), ("rx_valid", u.rx_valid), ("rx_data", u.rx_data)], \
            [("stream_valid", d.stream.valid), ("stream_next", d.stream.next), ("stream_payload", d.stream.payload),
             ("packet_complete", d.packet_complete), ("crc_mismatch", d.crc_mismatch),
             ("ready_for_response", d.ready_for_response), ("packet_id", d.packet_id)]
    t = Target("datarx_t12", build); t.small = True
    return t


def mk_core():
    """The receiver FSM on its own (standalone=False): data_crc.crc and timer.tx_allowed are free inputs,
    data_crc.start and timer.start are observed."""
    def build():
        from luna.gateware.usb.usb2.packet import USBDataPacketReceiver
        from luna.gateware.interface.utmi import UTMIInterface
        u = UTMIInterface()
        d = USBDataPacketReceiver(utmi=u)
        return d, [("rx_active", u.rx_active), ("rx_valid", u.rx_valid), ("rx_data", u.rx_data),
                   ("crc", d.data_crc.crc), ("tx_allowed", d.timer.tx_allowed)], \
            [("stream_valid", d.stream.valid), ("stream_next", d.stream.next), ("stream_payload", d.stream.payload),
             ("packet_complete", d.packet_complete), ("crc_mismatch", d.crc_mismatch),
             ("ready_for_response", d.ready_for_response), ("packet_id", d.packet_id),
             ("crc_start", d.data_crc.start), ("timer_start", d.timer.start)]
    t = Target("rxcore", build); t.small = False; t.core = True
    return t


def targets(tier):
    ts = [mk(), mk_small(), mk_core()]
    for t in ts[:2]: t.core = False
    return ts


# ---------------------------------------------------------------------------------------------------------
# byte alphabet of the R tie (receiver core): closed under the CRC for payloads [], [AF], [AF, AF]:
#   crc16([]) = 0000, crc16([AF]) = C300, crc16([AF AF]) = C3C3; DATA0 = C3, DATA1 = 4B; 00 and AF are not data PIDs
def alphabet(tier):
    return [0x00, 0xC3, 0xAF] if tier == "quick" else [0x00, 0xC3, 0xAF, 0x4B]


def crc_values(tier):
    return [0x0000, 0xC300] if tier == "quick" else [0x0000, 0xC300, 0xC3C3]


def alpha_words(tier):
    """packed input words of the core target: (idle | rx_active | rx_active+rx_valid+byte | rx_valid without rx_active)
    x every listed data_crc.crc value x tx_allowed"""
    utmi = [0, 1] + [3 + 4 * b for b in alphabet(tier)] + [2 + 4 * 0xAF]
    return [u + 1024 * c + (1 << 26) * a for u in utmi for c in crc_values(tier) for a in (0, 1)]


def idle(n, rng=None, junk=False):
    return [dict(rx_active=0, rx_valid=0, rx_data=(rng.randrange(256) if (rng and junk) else 0)) for _ in range(n)]


def rx_packet(rng, data, first_valid=False, gaps=0.0):
    cyc = [dict(rx_active=1, rx_valid=int(first_valid), rx_data=rng.randrange(256))]
    for b in data:
        while rng.random() < gaps:
            cyc.append(dict(rx_active=1, rx_valid=0, rx_data=rng.randrange(256)))
        cyc.append(dict(rx_active=1, rx_valid=1, rx_data=b))
    while rng.random() < gaps:
        cyc.append(dict(rx_active=1, rx_valid=0, rx_data=rng.randrange(256)))
    return cyc


def gen_packet(rng, small=None):
    """(bytes, is_good)"""
    byte = (lambda: rng.choice(small)) if small else (lambda: rng.randrange(256))
    r = rng.random()
    n = rng.choice([0, 0, 1, 2, 3, 7, 8, 9, 16, 31, 63, 64, 65]) if not small else rng.choice([0, 1, 2])
    payload = [byte() for _ in range(n)]
    if small:
        payload = [0xAF] * n
    c = crc16(payload)
    pid = rng.choice(DATA_PIDS if not small else [p for p in DATA_PIDS if p in small])
    good = [pid] + payload + [c & 0xFF, c >> 8]
    if r < 0.45:
        return good, True
    if r < 0.60:      # corrupted CRC or payload (single bit flip after the PID)
        k = rng.randrange(1, len(good)); bad = list(good); bad[k] ^= 1 << rng.randrange(8)
        if small: bad[k] = rng.choice([x for x in small if x != good[k]])
        return bad, False
    if r < 0.70:      # truncated: shorter than a CRC, or cut anywhere
        return good[:rng.randrange(0, len(good))], False
    if r < 0.78:      # one byte too many / CRC bytes swapped
        return (good + [byte()] if rng.random() < 0.5 else good[:-2] + [good[-1], good[-2]]), False
    if r < 0.90:      # not a data packet: token / handshake / broken check nibble
        pidb = rng.choice([0xD2, 0x5A, 0x1E, 0x2D, 0xE1, 0x69, 0xC2, 0x43, 0xCB, 0x33])
        if small: pidb = rng.choice([x for x in small if x not in DATA_PIDS])
        return [pidb] + [byte() for _ in range(rng.choice([0, 2, 2, 3, 10]))], False
    return [byte() for _ in range(rng.choice([0, 1, 2, 3, 4, 5]))], False      # arbitrary bytes


def is_good(data):
    return len(data) >= 3 and data[0] in DATA_PIDS and crc16(data[1:-2]) == (data[-2] | (data[-1] << 8))


def packet_trace(rng, npackets, mode, small=None, D=D_FS):
    tr = idle(rng.choice([0, 1, 2]))
    for _ in range(npackets):
        data, _g = gen_packet(rng, small)
        tr += rx_packet(rng, data, first_valid=(mode == 1 and rng.random() < 0.5), gaps=(0.3 if mode >= 2 else 0.0))
        if is_good(data):
            # environment: no packet during the inter-packet delay (D+1 cycles after the cycle rx_active fell in)
            tr += idle(D + 2 + rng.choice([0, 0, 1, 5]))
        else:
            tr += idle(rng.choice([1, 1, 2, 3, 12]))       # back to back
    return tr + idle(3)


def core_traces(rng, tier):
    """receiver core: UTMI histories as for the full module, with data_crc.crc supplied as the real CRC unit would
    (so that good packets occur), sometimes arbitrary, and tx_allowed pulsing at random"""
    n = 18 if tier == "quick" else 200
    out = []
    for k in range(n):
        base = packet_trace(rng, rng.randint(1, 5), k % 4, small=alphabet(tier) if k % 5 == 4 else None, D=0)
        crc = 0xFFFF; state = "idle"; tr = []
        for c in base:
            # model of the CRC unit as wired in USBDevice / standalone mode (start = READ_PID is approximated by
            # "reset at the PID byte": first rx_valid byte after the run's first cycle)
            outv = sum((((crc ^ 0xFFFF) >> i) & 1) << (15 - i) for i in range(16))
            c = dict(c); c["crc"] = outv if rng.random() < 0.9 else rng.getrandbits(16)
            c["tx_allowed"] = int(rng.random() < 0.2)
            tr.append(c)
            if not c["rx_active"]:
                state = "idle"
            elif state == "idle":
                state = "pid"
            elif c["rx_valid"]:
                if state == "pid":
                    crc = 0xFFFF; state = "data"
                else:
                    b = c["rx_data"]
                    for i in range(8):
                        fb = ((crc >> 15) & 1) ^ ((b >> i) & 1)
                        crc = (crc << 1) & 0xFFFF
                        if fb: crc ^= 0x8005
        out.append(tr)
    for k in range(n // 3):
        out.append([dict(rx_active=int(rng.random() < 0.8), rx_valid=int(rng.random() < 0.6),
                         rx_data=rng.choice(DATA_PIDS + [0, rng.randrange(256)]), crc=rng.choice([0, rng.getrandbits(16)]),
                         tx_allowed=rng.randrange(2)) for _ in range(rng.randint(5, 80))])
    return out


def traces(target, rng, tier):
    if target.core:
        return core_traces(rng, tier)
    n = 24 if tier == "quick" else 300
    small = alphabet(tier)
    D = D_SMALL if target.small else D_FS
    out = []
    for k in range(n):
        out.append(packet_trace(rng, rng.randint(1, 6), k % 4, small=small if k % 6 == 5 else None, D=D))
    # adversarial (mostly outside the environment assumption: exercised by the model correspondence only)
    for k in range(n // 4):
        pa = rng.choice([0.5, 0.8, 0.95])
        out.append([dict(rx_active=int(rng.random() < pa), rx_valid=int(rng.random() < 0.6),
                         rx_data=rng.choice(DATA_PIDS + [0, rng.randrange(256)])) for _ in range(rng.randint(5, 100))])
        # a new packet inside the inter-packet delay of a good one
        data, _g = gen_packet(rng)
        out.append(idle(1) + rx_packet(rng, [0xC3, 0, 0]) + idle(rng.randrange(0, D + 2)) + rx_packet(rng, data) + idle(15))
    return out


def coq_list(xs):
    return "[" + "; ".join(str(x) for x in xs) + "]"


def obligations(targets, tier):
    big, small, core = targets
    a = alphabet(tier); cv = crc_values(tier)
    obs = [
        tie_explicit.rlock_alpha(
            "ob_rxcore", core, St="rxo_state", mstep="rxo_step", enc="rxo_enc", dec="rxo_dec",
            wf="rxo_wf", dec_enc="rxo_dec_enc", wf_step="rxo_wf_step", m0="rxo_init",
            wf_m0="exact rxo_wf_init.", alphabet=coq_list(alpha_words(tier)), fuel=100000,
            describe=f"USBDataPacketReceiver (FSM, two-byte pipeline, CRC capture/compare, strobes; CRC unit and timer outside) netlist == "
                     f"core model rxo_step in lock step: all histories of any length (every rx_active/rx_valid pattern incl. rx_valid without "
                     f"rx_active, any packet lengths and sequences) with bytes from {[hex(x) for x in a]}, data_crc.crc from "
                     f"{[hex(x) for x in cv]} and any tx_allowed"),
        tie.corr("corr_rxcore", core, mstep="rxo_step", m0="rxo_init",
                 describe="core model vs simulator of the bare receiver: full-range bytes, CRC inputs as the real unit would supply them or random"),
    ]
    for t, timer, D in ((big, TIMER, D_FS), (small, TIMER_SMALL, D_SMALL)):
        obs.append(tie.corr(f"corr_{t.name}", t, mstep=f"rx_step {timer}", m0="rx_init",
                 describe="composite model (core + CRC16 unit + interpacket timer) vs simulator: full-range bytes, payloads 0..65 bytes, "
                          "good/corrupt/truncated/over-long/non-data packets, rx_valid gaps, back-to-back packets, and unstructured histories "
                          "outside the environment assumption"))
        obs.append(tie.cmon(f"spec_{t.name}", t, mon=f"(rxs_mon {D})", m0="(rxs_enc rxs_init)",
                 describe="the packet-level SPECIFICATION (rxs_step: byte accumulation + declarative verdict pkt_verdict with crc16_usb) "
                          "evaluated as a runtime oracle over simulator traces of the real module"))
    return obs


def tie_theorems(targets, tier):
    core = targets[2]
    G = core.modname
    return f"""
Theorem C02_rxcore_netlist_is_model : forall tr,
  Forall (fun i => In i ob_rxcore.alpha) tr ->
  run {G}.step {G}.init tr = run rxo_step rxo_init tr.
Proof. intros tr H. apply (ob_rxcore_T.tie tr H). apply env_ok_true. Qed.
"""


def tie_theorem_names(targets, tier):
    return ["C02_rxcore_netlist_is_model"]


LEVEL_TEXT = ("Machine-checked proof for the hand model + netlist tie of the receiver FSM on a restricted alphabet. (1) For every "
              "interpacket-timer configuration (table, speed, counter) whose delay D is reachable, and every UTMI receive history of any length "
              "satisfying the environment assumption, the code-shaped model of USBDataPacketReceiver(standalone) (7-state FSM, two-byte "
              "pipeline, last_byte/last_word CRC registers, the CRC16 register of Model/Crc.v, the timer counter of Model/IpTimer.v) produces in "
              "every cycle exactly the outputs of the packet-level specification rxs_step, which only accumulates the bytes of the current packet "
              "and decides at its end with the declarative pkt_verdict over the whole byte list (C02_receiver_refines; simulation relation, "
              "induction over the trace). (2) Reading theorems of the specification: strobe sequence = verdicts of the packet sequence "
              "(C02_verdict_events); GOOD iff DATAx PID byte + payload + crc16_usb(payload) low byte first, BAD iff DATAx PID, >= 2 bytes and "
              "CRC differs, nothing otherwise (C02_verdict_framed / _short / _good_iff); never both strobes (C02_never_both); streamed bytes = "
              "concatenated payloads of the data packets, nothing else (C02_streamed, C02_stream_framed); ready_for_response only D cycles "
              "after a packet_complete (C02_ready_follows_complete). (3) The model is the composition of a receiver-FSM core with the CRC16 "
              "unit and the timer (C02_model_is_composition); the netlist of the bare receiver regenerated from /repo is proved equal to that "
              "core on all histories, every rx_active/rx_valid/tx_allowed pattern, over a restricted byte and CRC-value alphabet (certified "
              "product reachability, C02_rxcore_netlist_is_model).")
LEVEL_NOTE = ("The netlist tie is NOT for all byte values and not for the composite: the 8-bit data path with stale 16-bit CRC registers "
              "multiplies the reachable state space beyond enumeration and the module has no size parameter. The R obligation covers the "
              "receiver FSM (pipeline, CRC capture and compare, PID check, strobes, start signals) with 3 (quick) / 4 (thorough) byte values and "
              "2 / 3 data_crc.crc values as free inputs; the composition with the CRC16 unit and the timer is definitional in the model and is "
              "tied to the real standalone wiring by simulator correspondence and by the specification monitor over simulator traces "
              "(full-range bytes, payloads up to 65 bytes, two timer configurations); the CRC16 XOR equations are tied for all 2^24 inputs by "
              "C30. Not proved as a separate theorem: 'every packet_complete is followed by ready_for_response' (it is part of the cycle-exact "
              "specification machine). Trusted: Coq kernel + vm_compute, Amaranth elaboration, nir2coq.py/Netlist.v (validated each run "
              "against pysim).")
TECHNIQUE = ("Rocq proof: simulation relation between the incremental FSM model and a byte-accumulating packet specification (unbounded traces, "
             "parametric timer) + certified product-reachability of the regenerated receiver netlist against the model core over an explicit "
             "alphabet + simulator correspondence and specification monitor on the standalone module")
