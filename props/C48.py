"""C48 -- SuperSpeed control requests are decoded and answered exactly
(luna/gateware/usb/usb3/application/request.py: SuperSpeedSetupDecoder;
 luna/gateware/usb/usb3/application/descriptor.py: GetDescriptorHandler)."""
from harness.core import Target
from harness import tie
from harness import tie_explicit

PID = "C48"
TIE_IMPORTS = ("From LunaModel Require Import ConstGen ConstGen_proofs SsSetupDec SsSetupDec_proofs SsDesc SsDesc_proofs.\n")


# ------------------------------------------------------------------------------------------------
# targets
# ------------------------------------------------------------------------------------------------
def mk_decoder(name):
    def build():
        from luna.gateware.usb.usb3.application.request import SuperSpeedSetupDecoder
        d = SuperSpeedSetupDecoder()
        ins = [("valid", d.sink.valid), ("first", d.sink.first), ("last", d.sink.last), ("data", d.sink.data),
               ("setup", d.header_in.setup), ("rx_good", d.rx_good), ("rx_bad", d.rx_bad)]
        p = d.packet
        outs = [("recipient", p.recipient), ("type", p.type), ("is_in_request", p.is_in_request), ("request", p.request),
                ("value", p.value), ("index", p.index), ("length", p.length), ("received", p.received)]
        return d, ins, outs
    t = Target(name, build)
    t.params = dict(kind="decoder")
    return t


def mk_composed(name):
    """the real link-layer DataPacketReceiver feeding the decoder, wired as in USB3ControlEndpoint / the protocol layer
    (sink tapped, header, packet_good / packet_bad); inputs are raw PHY words, the decoder's input interface is observed"""
    def build():
        from amaranth import Elaboratable, Module
        from luna.gateware.usb.usb3.link.data import DataPacketReceiver
        from luna.gateware.usb.usb3.application.request import SuperSpeedSetupDecoder

        class ReceiverAndDecoder(Elaboratable):
            def __init__(self):
                self.receiver = DataPacketReceiver(); self.decoder = SuperSpeedSetupDecoder()
            def elaborate(self, platform):
                m = Module()
                m.submodules.receiver = rx = self.receiver
                m.submodules.decoder = dec = self.decoder
                m.d.comb += [dec.sink.tap(rx.source), dec.header_in.eq(rx.header),
                             dec.rx_good.eq(rx.packet_good), dec.rx_bad.eq(rx.packet_bad)]
                return m
        d = ReceiverAndDecoder(); rx = d.receiver; p = d.decoder.packet
        ins = [("data", rx.sink.data), ("ctrl", rx.sink.ctrl), ("valid", rx.sink.valid)]
        outs = [("if_valid", rx.source.valid), ("if_first", rx.source.first), ("if_last", rx.source.last),
                ("if_data", rx.source.payload), ("if_setup", rx.header.setup), ("if_good", rx.packet_good),
                ("if_bad", rx.packet_bad),
                ("recipient", p.recipient), ("type", p.type), ("is_in_request", p.is_in_request), ("request", p.request),
                ("value", p.value), ("index", p.index), ("length", p.length), ("received", p.received)]
        return d, ins, outs
    t = Target(name, build)
    t.params = dict(kind="composed")
    return t


SMALL = [(1, 0, bytes([0x12, 0x34, 0x56, 0x78, 0x9A])),            # 5 bytes: one full word + 1 byte
         (2, 0, bytes([1, 2, 3, 4, 5, 6, 7, 8])),                   # 8 bytes: two full words
         (3, 1, bytes([0xEE, 0xFF, 0x11]))]                         # 3 bytes: a single partial word


def _example_collection():
    """the descriptors of examples/usb/superspeed/stream_in_device.py"""
    from usb_protocol.emitters import SuperSpeedDeviceDescriptorCollection
    descriptors = SuperSpeedDeviceDescriptorCollection()
    with descriptors.DeviceDescriptor() as d:
        d.idVendor = 0x1209; d.idProduct = 0x0001; d.bcdUSB = 3.2; d.bMaxPacketSize0 = 9
        d.iManufacturer = "LUNA"; d.iProduct = "SuperSpeed Bulk Test"; d.iSerialNumber = "1234"
        d.bNumConfigurations = 1
    with descriptors.ConfigurationDescriptor() as c:
        c.bMaxPower = 50
        with c.InterfaceDescriptor() as i:
            i.bInterfaceNumber = 0
            with i.EndpointDescriptor(add_default_superspeed=True) as e:
                e.bEndpointAddress = 0x81; e.wMaxPacketSize = 1024
    return [(t, i, bytes(raw)) for t, i, raw in descriptors]


def mk_handler(name, triples_fn):
    def build():
        from luna.gateware.usb.usb3.application.descriptor import GetDescriptorHandler
        d = GetDescriptorHandler(triples_fn())
        ins = [("value", d.value), ("length", d.length), ("start", d.start), ("tx_ready", d.tx.ready)]
        outs = [("tx_valid", d.tx.valid), ("tx_first", d.tx.first), ("tx_last", d.tx.last), ("tx_payload", d.tx.payload),
                ("tx_length", d.tx_length), ("stall", d.stall)]
        return d, ins, outs
    t = Target(name, build)
    t.params = dict(kind="handler", triples=triples_fn())
    return t


def _coq_descs(triples):
    return "[" + "; ".join(f"({(t << 8) | i}, cfg_of_bytes [{'; '.join(str(b) for b in raw)}] 4 false (Some 16))"
                           for t, i, raw in triples) + "]"


TWO = [SMALL[0], SMALL[2]]


def targets(tier):
    ts = [mk_decoder("setupdec"), mk_composed("rx_setupdec"), mk_handler("desc_two", lambda: list(TWO)), mk_handler("desc_example", _example_collection)]
    if tier != "quick":
        ts.append(mk_handler("desc_small", lambda: list(SMALL)))
    return ts


# ------------------------------------------------------------------------------------------------
# traces
# ------------------------------------------------------------------------------------------------
def _idle():
    return dict(valid=0, first=0, last=0, data=0, setup=0, rx_good=0, rx_bad=0)


def _packet(rng, nbytes, setup, verdict, payload=None, gap=None):
    """one data packet as the protocol layer delivers it: words (first/last, byte-valid mask), then the verdict strobe"""
    out = []
    nwords = (nbytes + 3) // 4
    for k in range(nwords):
        left = nbytes - 4 * k
        c = _idle()
        c.update(valid=0xF if left >= 4 else (1 << left) - 1, first=int(k == 0), last=int(k == nwords - 1),
                 data=(payload[k] if payload else rng.getrandbits(32)), setup=setup)
        out.append(c)
        if rng.random() < 0.2:
            out.append(dict(_idle(), setup=setup))
    for _ in range(gap if gap is not None else rng.choice([0, 1, 1, 3])):
        out.append(dict(_idle(), setup=setup))
    if isinstance(verdict, tuple):               # ("kword", k): K-symbol in word k -> rx_bad in the very cycle of that word
        words = [j for j, c in enumerate(out) if c["valid"]]
        if not words:
            out.append(dict(_idle(), rx_bad=1, setup=setup))
        else:
            j = words[min(verdict[1], len(words) - 1)]
            out = out[:j + 1]; out[j] = dict(out[j], rx_bad=1)
    elif verdict == "abort":                     # link error: rx_bad before the last word
        out = out[:max(1, len(out) // 2)]
        for c in out: c["last"] = 0
        out.append(dict(_idle(), rx_bad=1))
    else:
        out.append(dict(_idle(), rx_good=int(verdict == "good"), rx_bad=int(verdict == "bad"), setup=setup))
    for _ in range(rng.choice([0, 1, 2])):
        out.append(_idle())
    return out


def _hdr_crc16(dws):
    """CRC-16 of a header packet (poly 0x100B, bits LSB first per dword; checked against the recorded packet)"""
    reg = 0xFFFF
    for w in dws:
        for k in range(32):
            fb = ((reg >> 15) & 1) ^ ((w >> k) & 1)
            reg = (reg << 1) & 0xFFFF
            if fb: reg ^= 0x100B
    return int("{:016b}".format(reg ^ 0xFFFF)[::-1], 2)


def _dp(payload, setup, kpos=None, bad_crc=False):
    """a data packet on the PHY word stream: HPSTART, header (dw0..dw2, link control word with CRC-16; the link control
    bits and their CRC-5 are those of the recorded packet), DPPSTART, payload + CRC-32, END framing.
    kpos: replace payload byte kpos by the K-symbol 0xFE (what an 8b10b decode error delivers)."""
    import zlib
    dw = [0x00000008, (len(payload) << 16) | (setup << 15), 0x08000000]
    words = [(0xF7FBFBFB, 15)] + [(w, 0) for w in dw] + [(0xA8020000 | _hdr_crc16(dw), 0), (0xF75C5C5C, 15)]
    crc = zlib.crc32(payload) ^ (0x5A5A5A5A if bad_crc else 0)
    syms = [(b, 0) for b in payload + crc.to_bytes(4, "little")] + [(0xFD, 1)] * 3 + [(0xF7, 1)]
    if kpos is not None:
        syms[kpos] = (0xFE, 1)
    while len(syms) % 4:
        syms.append((0, 0))
    for j in range(0, len(syms), 4):
        words.append((sum(syms[j + b][0] << (8 * b) for b in range(4)), sum(syms[j + b][1] << b for b in range(4))))
    return [dict(data=d, ctrl=c, valid=1) for d, c in words]


def traces(target, rng, tier):
    q = tier == "quick"
    out = []
    if target.params["kind"] == "decoder":
        # tests/test_usb3_request.py: a good vendor request
        out.append(_packet(rng, 8, 1, "good", payload=[0x2211AAC1, 0x00043344], gap=1) + [_idle()] * 2)
        # a packet aborted by rx_bad in the cycle of its k-th word (first word, complete last word, short words),
        # followed by the retried SETUP / a non-setup packet of 4 or 8 bytes
        for nbytes in (8, 8, 4, 6, 12):
            for k in range((nbytes + 3) // 4):
                for nxt_bytes, nxt_setup in ((8, 1), (8, 0), (4, 0)):
                    out.append(_packet(rng, nbytes, 1, ("kword", k), gap=0) + _packet(rng, nxt_bytes, nxt_setup, "good") + [_idle()] * 2)
        for k in range(25 if q else 200):
            tr = [_idle()] * rng.choice([0, 1, 3])
            for _ in range(rng.choice([1, 2, 4, 8])):
                nbytes = rng.choice([8, 8, 8, 8, 0, 1, 3, 4, 5, 6, 7, 9, 12, 16, 40])
                tr += _packet(rng, nbytes, int(rng.random() < 0.7),
                              rng.choice(["good", "good", "good", "bad", "abort", ("kword", rng.randrange(3))]))
            out.append(tr)
        for k in range(5 if q else 40):           # outside the environment: arbitrary control bits
            out.append([dict(valid=rng.choice([0, 0, 15, 15, 3, 7]), first=rng.getrandbits(1), last=rng.getrandbits(1),
                             data=rng.getrandbits(32), setup=rng.getrandbits(1), rx_good=int(rng.random() < 0.2),
                             rx_bad=int(rng.random() < 0.1)) for _ in range(rng.choice([5, 40, 120]))])
    elif target.params["kind"] == "composed":
        idle = [dict(data=0, ctrl=0, valid=1)]
        def seq(*pkts):
            tr = idle * 3
            for p in pkts:
                tr = tr + p + idle * rng.choice([2, 4, 6])
            return tr
        retry = bytes([0x80, 0x06, 0x00, 0x02, 0x00, 0x00, 0x09, 0x00])
        # K-symbol at every payload position of a setup-flagged 8-byte packet, then the good retry / a non-setup packet
        for pos in range(8):
            bad = _dp(bytes([0x80, 0x06, 0x00, 0x01, 0x00, 0x00, 0x12, 0x00]), 1, kpos=pos)
            out.append(seq(bad, _dp(retry, 1)))
            out.append(seq(bad, _dp(bytes(rng.getrandbits(8) for _ in range(8)), 0)))
            out.append(seq(bad, _dp(bytes(rng.getrandbits(8) for _ in range(4)), 0), _dp(retry, 1)))
        # the recorded SET_ADDRESS packet of tests/test_usb3_data.py
        out.append(seq([dict(data=d, ctrl=c, valid=1) for d, c in
                        [(0xF7FBFBFB, 15), (0x00000008, 0), (0x00088000, 0), (0x08000000, 0), (0xA8023E0F, 0),
                         (0xF75C5C5C, 15), (0x001E0500, 0), (0x00000000, 0), (0x0EC69325, 0)]]))
        for k in range(10 if q else 80):
            pk = []
            for _ in range(rng.choice([1, 2, 3, 5])):
                n = rng.choice([8, 8, 8, 0, 1, 3, 4, 5, 6, 7, 9, 12, 16])
                payload = bytes(rng.getrandbits(8) for _ in range(n))
                kind = rng.choice(["good", "good", "good", "crc", "k"])
                pk.append(_dp(payload, int(rng.random() < 0.7), kpos=(rng.randrange(n) if kind == "k" and n else None),
                              bad_crc=(kind == "crc")))
            out.append(seq(*pk))
    else:
        triples = target.params["triples"]
        keys = [(t << 8) | i for t, i, _ in triples]
        lens = {(t << 8) | i: len(raw) for t, i, raw in triples}
        def request(value, wlen, p_ready, extra):
            tr = [dict(value=value, length=wlen, start=1, tx_ready=int(rng.random() < p_ready))]
            n = (min(wlen, lens.get(value, 0)) + 3) // 4
            for _ in range(int((n + 3) / max(p_ready, 0.2)) + extra):
                tr.append(dict(value=value, length=wlen, start=0, tx_ready=int(rng.random() < p_ready)))
            return tr
        for k in range(12 if q else 80):          # request sequences within the environment
            tr = [dict(value=0, length=0, start=0, tx_ready=1)] * rng.choice([0, 1, 2])
            for _ in range(rng.choice([1, 2, 3])):
                if rng.random() < 0.85:
                    v = rng.choice(keys); L = lens[v]
                    wlen = rng.choice([0, 1, 2, 3, 4, 5, 7, 8, 9, L - 1, L, L + 1, L + 3, 0xFFFF, rng.randrange(1, L + 2)])
                else:
                    v = rng.choice([0x0100 + 7, 0x0600, 0xFFFF, 0x0301 + 5]); wlen = rng.choice([0, 8, 64])
                    while v in keys: v += 1
                tr += request(v, max(0, wlen), rng.choice([1.0, 1.0, 0.7, 0.35]), rng.choice([4, 8]))
            out.append(tr)
        for k in range(3 if q else 20):            # outside the environment: value/length/start change at will
            out.append([dict(value=rng.choice(keys + [0x0600]), length=rng.choice([0, 1, 4, 6, 9, 18, 0xFFFF]),
                             start=int(rng.random() < 0.15), tx_ready=int(rng.random() < 0.7))
                        for _ in range(rng.choice([20, 80]))])
    return out


# ------------------------------------------------------------------------------------------------
# obligations
# ------------------------------------------------------------------------------------------------
HD_ALPHA = "hd_alphabet [256; 769; 1536] [0; 2; 5; 9]"


def defs_prelude(targets):
    """Coq definitions shared by the obligations: the descriptor collections as terms"""
    s = ""
    for t in targets:
        if t.params["kind"] == "handler":
            s += f"Definition c48_{t.name} : list (N * cg_cfg) := {_coq_descs(t.params['triples'])}.\n"
            s += f"Lemma c48_{t.name}_ok : hd_descs_ok c48_{t.name} = true. Proof. vm_compute. reflexivity. Qed.\n"
    return s


DEC_ALPHA = "sd_alphabet [2864434397; 305419896] [0; 3; 15]"      # data 0xAABBCCDD / 0x12345678; masks 0000 0011 1111


def obligations(targets, tier):
    obs = []
    for t in targets:
        if t.params["kind"] == "decoder":
            obs.append(tie_explicit.rlock_alpha(
                f"ob_{t.name}", t, St="sde_st", mstep="sde_step true", enc="sde_enc", dec="sde_dec", wf="sde_wf",
                dec_enc="sde_dec_enc", wf_step="sde_wf_step true", m0="(sd_init, E0)", wf_m0="apply sd_wf_init.",
                alphabet=DEC_ALPHA, env="sde_env", fuel=100000,
                describe="SuperSpeedSetupDecoder == property-satisfying decoder model on all packet-delivery histories (sd_env_ok) "
                         "over two data words x valid masks {0000,0011,1111} x first/last/setup/rx_good/rx_bad"))
            if tier != "quick": obs.append(tie_explicit.rlock_alpha(
                f"ob_{t.name}_any", t, St="sd_st", mstep="sd_step true", enc="sd_enc", dec="sd_dec", wf="sd_wf",
                dec_enc="sd_dec_enc", wf_step="sd_wf_step true", m0="sd_init", wf_m0="apply sd_wf_init.",
                alphabet=DEC_ALPHA, fuel=100000,
                describe="the same on ALL traces over the alphabet, no environment assumption (stronger than the property: "
                         "behaviour on malformed deliveries agrees with the candidate patch)"))
            obs.append(tie.cmon(f"spec_{t.name}", t, mon="sd_mon", m0="0",
                                describe="the word-accumulating specification evaluated over simulator traces (packets of 0..40 bytes, "
                                         "good / bad / aborted, with and without the setup flag; full-width data)"))
            obs.append(tie.corr(f"corr_{t.name}", t, mstep="sd_step true", m0="sd_init",
                                describe="property-satisfying decoder model vs simulator, full-width data, also outside the environment"))
        elif t.params["kind"] == "composed":
            obs.append(tie.cmon(f"spec_{t.name}", t, mon="sdc_mon", m0="0",
                                describe="DataPacketReceiver -> SuperSpeedSetupDecoder: a setup request is reported iff a good setup-flagged "
                                         "8-byte data packet was received, with exactly its bytes (K-symbols injected at every payload "
                                         "position, bad CRCs, lengths 0..16, followed by retries / non-setup packets); the receiver's "
                                         "deliveries are also checked to stay inside the decoder environment sd_env_ok"))
        elif t.params["kind"] == "handler":
            descs = _coq_descs(t.params["triples"])
            if t.name == "desc_two":
                n = len(t.params["triples"])
                ob = tie_explicit.rlock_alpha(
                    f"ob_{t.name}", t, St="hd_st", mstep=f"hd_step c48_{t.name}", enc="hd_enc", dec=f"hd_dec {n}",
                    wf=f"hd_wf c48_{t.name}", dec_enc=f"(hd_dec_enc c48_{t.name} c48_{t.name}_ok)",
                    wf_step=f"(hd_wf_step c48_{t.name} c48_{t.name}_ok)", m0=f"hd_init c48_{t.name}",
                    wf_m0="apply hd_wf_init.", alphabet=HD_ALPHA, fuel=100000,
                    describe="GetDescriptorHandler with a 5-byte and a 3-byte descriptor == handler model on ALL traces over "
                             "value in {both keys, an unknown key} x wLength in {0,2,5,9} x start x tx.ready "
                             "(no environment assumption: value/length/start may change mid-request)")
                ob.defs = defs_prelude([t]) + ob.defs
                obs.append(ob)
            obs.append(tie.cmon(f"spec_{t.name}", t, mon=f"(hd_mon {descs})", m0="0",
                                describe=f"{t.name}: request-level specification over simulator traces: the words handed over on tx are exactly "
                                         "the beats of ConstGen.answer(descriptor, 0, wLength) with tx_length = min(wLength, len); "
                                         "unknown (type,index): stall = start and nothing on tx"))
            if not (tier == "quick" and t.name == "desc_two"):
              obs.append(tie.corr(f"corr_{t.name}", t, mstep=f"hd_step {descs}", m0=f"hd_init {descs}",
                                describe=f"{t.name}: handler model (specification generators + selection + output register) vs simulator, "
                                         "also with value/length/start changing mid-request"))
    return obs


def tie_theorems(targets, tier):
    s = ""
    for t in targets:
        G = t.modname
        if t.params["kind"] == "decoder":
            s += f"""
(* the decoder netlist reports exactly the good 8-byte setup-flagged packets, with their bytes *)
Theorem C48_{t.name} : forall tr, Forall (fun i => In i ob_{t.name}.alpha) tr -> sd_env_ok E0 tr = true ->
  run {G}.step {G}.init tr = run ssd_step ssd_init tr.
Proof.
  intros tr H HE. rewrite (ob_{t.name}_T.tie tr H).
  - rewrite sde_run. apply sd_refines_from_reset. exact HE.
  - rewrite sde_env_ok. exact HE.
Qed.
"""
        elif t.params["kind"] == "handler":
            triples = t.params["triples"]
            checks = " && ".join(
                f"desc_bytes_ok [{'; '.join(str(b) for b in raw)}] (n_range 1 {len(raw) + 4} ++ [65535])" for _, _, raw in triples)
            s += f"""
(* {t.name}: for every descriptor and every wLength in 1..len+4 and 65535, the bytes of the expected answer (valid bytes of
   its words, little endian) are the first min(wLength, len) bytes of the descriptor; all configurations well-formed *)
Theorem C48_{t.name}_bytes : ({checks}) = true /\\ hd_descs_ok {_coq_descs(triples)} = true.
Proof. vm_compute. split; reflexivity. Qed.
"""
            if t.name == "desc_two":
                s += f"""
(* netlist of the handler: every GET_DESCRIPTOR request from reset over the alphabet is answered with exactly the expected words *)
Theorem C48_{t.name} : forall v ml c r0 readys, v < 2 ^ 16 -> 0 < ml -> ml < 2 ^ 16 ->
  sel_cfg c48_{t.name} v = Some c ->
  let tr := hd_request v ml r0 readys in Forall (fun i => In i ob_{t.name}.alpha) tr ->
  hd_xfers tr (run {G}.step {G}.init tr) ++ remaining c48_{t.name} v (run_state (hd_step c48_{t.name}) (hd_init c48_{t.name}) tr)
  = hd_expected c ml.
Proof.
  intros v ml c r0 readys Hv Hm0 Hm Hs tr H. rewrite (ob_{t.name}_T.tie tr H (env_ok_true _ _ _ _)).
  apply hd_request_from_reset; try assumption.
  pose proof (hd_descs_ok_facts _ c48_{t.name}_ok) as Hf. clear - Hs Hf.
  induction c48_{t.name} as [|[k c'] ds IH]; [discriminate|]. inversion Hf as [|? ? [Hc _] Hf']; subst.
  cbn [sel_cfg] in Hs. destruct (v =? k); [inversion Hs; subst; exact Hc | apply IH; assumption].
Qed.
"""
    return s


def tie_theorem_names(targets, tier):
    names = []
    for t in targets:
        if t.params["kind"] == "decoder":
            names.append(f"C48_{t.name}")
        elif t.params["kind"] == "handler":
            names.append(f"C48_{t.name}_bytes")
            if t.name == "desc_two":
                names.append(f"C48_{t.name}")
    return names


ASSUMPTIONS = [
    "decoder environment sd_env_ok (data packets as the protocol layer delivers them): a packet is a run of words from a word with "
    "`first` to a word with `last`; only the last word may have a partial byte-valid mask; after the last word exactly one of "
    "rx_good / rx_bad arrives before the next packet starts, or rx_bad aborts the packet before its last word; a verdict without "
    "payload words is allowed; rx_good never shares a cycle with a word, rx_bad MAY share a cycle with any word of the packet (the "
    "link layer's DataPacketReceiver aborts a packet on a K-symbol in the payload by strobing packet_bad in the very cycle it presents "
    "that word) and ends the packet there; the setup flag of the header is sampled with the first word. The environment itself is "
    "checked against the real DataPacketReceiver by the composed obligation spec_rx_setupdec (leaving it is a failure there)",
    "'exactly eight bytes' = exactly two words, both with all four byte-valid bits set, at the time rx_good arrives",
    "descriptor handler environment of the stream theorems: `value` and `length` are held and `start` stays low from the cycle after "
    "`start` until the answer has been handed over; the selected generator is idle and the tx register empty when `start` arrives "
    "(true from reset and after a completed request); tx.ready is arbitrary; (type<<8|index) keys are distinct (a Python dict in /repo)",
    "the expected answer is ConstGen.answer (C27's specification of ConstantStreamGenerator, closed form C27_answer_is_requested_slice: "
    "ROM words in order, min(wLength, len) bytes in total, all words full but the last, first/last flags on the first/last word); "
    "C48_descriptor_bytes proves, for every non-empty byte string and 0 < wLength, that the valid bytes of those words (little endian) "
    "are the first min(wLength, len) descriptor bytes, for generators configured by ConstGen.cfg_of_bytes (C27's model of the Python "
    "constructor: 4 bytes per ROM word); the same is re-evaluated for every descriptor of the tie collections (C48_<collection>_bytes)",
    "the handler model is built on C27's SPECIFICATION of the generators (not on their code-shaped model); it is tied to the handler "
    "netlist as a whole (lock-step at a two-descriptor collection, correspondence + request-level monitor at the collection of "
    "examples/usb/superspeed/stream_in_device.py)",
    "wLength = 0 sends nothing (C48_zero_length)",
]

LEVEL_TEXT = (
    "Machine-checked proof, and a defect. DECODER: (1) C48_decoder_exact -- on every packet-delivery history of any length the "
    "property-satisfying decoder model (the FSM of /repo with the candidate patch) has, cycle by cycle, the outputs of a specification that "
    "merely accumulates the words of the current packet and reports, on rx_good, iff the header's setup flag is set and the packet consists "
    "of exactly two full words, with those eight bytes as fields (simulation relation with a 'can this packet still be a setup packet' "
    "predicate). The UNCHANGED code violates the property (confirmed on Amaranth's simulator, and as a Coq example inside the environment): "
    "after a good setup-flagged packet of 4..7 bytes it stays in PARSE_SECOND across packet boundaries and then either reports a setup "
    "packet glued from two different packets or drops a genuine one; ./check C48 exits 1 on the unchanged tree with an environment-"
    "respecting replay and 0 with findings/C48-short-setup-packet.diff. A SECOND defect remains with that patch applied (HEAD 0102d72): a "
    "setup-flagged packet whose FIRST word is aborted by rx_bad in the same cycle still starts a parse, so the retried SETUP is dropped or "
    "a following 4-byte packet is reported as a setup request (findings/C48-abort-on-first-word.json/.diff; found by widening the "
    "environment to what DataPacketReceiver really does, confirmed on the composed receiver+decoder). Tie: the decoder netlist is proved equal to the model on all "
    "packet-delivery histories over a data/mask alphabet (certified product reachability), giving netlist = specification. "
    "DESCRIPTOR HANDLER: (2) C48_descriptor_stream(_any) -- for every descriptor collection, known (type,index), 0 < wLength < 2^16 and "
    "every tx.ready pattern, the words handed over on tx followed by those still queued are exactly the beats of C27's specified answer "
    "(first min(wLength,len) bytes, final valid mask = remaining bytes), each with tx_length = min(wLength, len) (C48_tx_length); "
    "(4) wLength = 0 sends nothing; (5) an unknown (type,index) raises stall exactly with start and nothing appears on tx. Tie: handler "
    "netlist == handler model on all traces at a two-descriptor collection (lock-step, no environment assumption), correspondence and a "
    "request-level specification monitor at the example SuperSpeed collection; (3b) C48_descriptor_bytes: the valid bytes of the answer are "
    "the first min(wLength,len) bytes of the descriptor, for all byte strings.")
LEVEL_NOTE = (
    "Trusted: Coq kernel + vm_compute, Amaranth elaboration, nir2coq.py/Netlist.v (validated each run against Amaranth's simulator). "
    "The decoder tie is a theorem over two data words x masks {0000,0011,1111} x all control-bit combinations; full-width data by "
    "correspondence and the specification monitor. The handler theorems are about a model whose generators are C27's specification "
    "machines; generator code = that specification is C27's theorem about C27's hand model, and for the handler netlist it is re-established "
    "only at the lock-step collection (5-byte and 3-byte descriptors, wLength in {0,2,5,9}) and sampled elsewhere. Delivery is stated as "
    "'handed over ++ still queued = answer' (safety); that the queue drains under a fair tx.ready is not stated as a theorem (the examples "
    "show it). That /repo's _get_initializer_value chunks the bytes as cfg_of_bytes does is validated by the ties, not proved. The defect needs a CRC-good setup-flagged data packet shorter than eight bytes, which a compliant host never sends.")
TECHNIQUE = ("Rocq proof: simulation relation FSM -> packet-accumulating specification with a doomed-prefix predicate; stream invariant "
             "'handed over ++ queued = answer' for the register stage over C27's generator specification; certified product-reachability "
             "(lock-step, environment-restricted for the decoder) against netlists regenerated from source; simulator correspondence and "
             "specification monitors; evaluated byte-level checks")
