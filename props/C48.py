"""C48 -- SuperSpeed control requests are decoded and answered exactly
(luna/gateware/usb/usb3/application/request.py: SuperSpeedSetupDecoder;
 luna/gateware/usb/usb3/application/descriptor.py: GetDescriptorHandler)."""
from harness.core import Target
from harness import tie
from harness import tie_explicit

PID = "C48"
TIE_IMPORTS = ("From LunaModel Require Import ConstGen ConstGen_proofs SsSetupDec SsSetupDec_proofs.\n")


# ------------------------------------------------------------------------------------------------
# targets
# ------------------------------------------------------------------------------------------------
def mk_decoder(name):
    def build():
        from luna.gateware.usb.usb3.application.request import SuperSpeedSetupDecoder
        d = SuperSpeedSetupDecoder()
        ins = [("valid", d.sink.valid), ("first", d.sink.first), ("last", d.sink.last), ("data", d.sink.data),
               ("setup", d.header_in.setup), ("rx_good", d.rx_good), ("rx_bad", d.rx_bad)]
        p = d.packet
        outs = [("recipient", p.recipient), ("type", p.type), ("is_in_request", p.is_in_request), ("request", p.request),
                ("value", p.value), ("index", p.index), ("length", p.length), ("received", p.received)]
        return d, ins, outs
    t = Target(name, build)
    t.params = dict(kind="decoder")
    return t


def targets(tier):
    return [mk_decoder("setupdec")]


# ------------------------------------------------------------------------------------------------
# traces
# ------------------------------------------------------------------------------------------------
def _idle():
    return dict(valid=0, first=0, last=0, data=0, setup=0, rx_good=0, rx_bad=0)


def _packet(rng, nbytes, setup, verdict, payload=None, gap=None):
    """one data packet as the protocol layer delivers it: words (first/last, byte-valid mask), then the verdict strobe"""
    out = []
    nwords = (nbytes + 3) // 4
    for k in range(nwords):
        left = nbytes - 4 * k
        c = _idle()
        c.update(valid=0xF if left >= 4 else (1 << left) - 1, first=int(k == 0), last=int(k == nwords - 1),
                 data=(payload[k] if payload else rng.getrandbits(32)), setup=setup)
        out.append(c)
        if rng.random() < 0.2:
            out.append(dict(_idle(), setup=setup))
    for _ in range(gap if gap is not None else rng.choice([0, 1, 1, 3])):
        out.append(dict(_idle(), setup=setup))
    if verdict == "abort":                       # link error: rx_bad before the last word
        out = out[:max(1, len(out) // 2)]
        for c in out: c["last"] = 0
        out.append(dict(_idle(), rx_bad=1))
    else:
        out.append(dict(_idle(), rx_good=int(verdict == "good"), rx_bad=int(verdict == "bad"), setup=setup))
    for _ in range(rng.choice([0, 1, 2])):
        out.append(_idle())
    return out


def traces(target, rng, tier):
    q = tier == "quick"
    out = []
    if target.params["kind"] == "decoder":
        # tests/test_usb3_request.py: a good vendor request
        out.append(_packet(rng, 8, 1, "good", payload=[0x2211AAC1, 0x00043344], gap=1) + [_idle()] * 2)
        for k in range(25 if q else 200):
            tr = [_idle()] * rng.choice([0, 1, 3])
            for _ in range(rng.choice([1, 2, 4, 8])):
                nbytes = rng.choice([8, 8, 8, 8, 0, 1, 3, 4, 5, 6, 7, 9, 12, 16, 40])
                tr += _packet(rng, nbytes, int(rng.random() < 0.7), rng.choice(["good", "good", "good", "bad", "abort"]))
            out.append(tr)
        for k in range(5 if q else 40):           # outside the environment: arbitrary control bits
            out.append([dict(valid=rng.choice([0, 0, 15, 15, 3, 7]), first=rng.getrandbits(1), last=rng.getrandbits(1),
                             data=rng.getrandbits(32), setup=rng.getrandbits(1), rx_good=int(rng.random() < 0.2),
                             rx_bad=int(rng.random() < 0.1)) for _ in range(rng.choice([5, 40, 120]))])
    return out


# ------------------------------------------------------------------------------------------------
# obligations
# ------------------------------------------------------------------------------------------------
DEC_ALPHA = "sd_alphabet [2864434397; 305419896] [0; 3; 15]"      # data 0xAABBCCDD / 0x12345678; masks 0000 0011 1111


def obligations(targets, tier):
    obs = []
    for t in targets:
        if t.params["kind"] == "decoder":
            obs.append(tie_explicit.rlock_alpha(
                f"ob_{t.name}", t, St="sd_st", mstep="sd_step true", enc="sd_enc", dec="sd_dec", wf="sd_wf",
                dec_enc="sd_dec_enc", wf_step="sd_wf_step true", m0="sd_init", wf_m0="apply sd_wf_init.",
                alphabet=DEC_ALPHA, fuel=100000,
                describe="SuperSpeedSetupDecoder == property-satisfying decoder model on ALL traces (no environment assumption) "
                         "over two data words x valid masks {0000,0011,1111} x every combination of first/last/setup/rx_good/rx_bad"))
            obs.append(tie.cmon(f"spec_{t.name}", t, mon="sd_mon", m0="0",
                                describe="the word-accumulating specification evaluated over simulator traces (packets of 0..40 bytes, "
                                         "good / bad / aborted, with and without the setup flag; full-width data)"))
            obs.append(tie.corr(f"corr_{t.name}", t, mstep="sd_step true", m0="sd_init",
                                describe="property-satisfying decoder model vs simulator, full-width data, also outside the environment"))
    return obs


def tie_theorems(targets, tier):
    s = ""
    for t in targets:
        G = t.modname
        if t.params["kind"] == "decoder":
            s += f"""
(* the decoder netlist reports exactly the good 8-byte setup-flagged packets, with their bytes *)
Theorem C48_{t.name} : forall tr, Forall (fun i => In i ob_{t.name}.alpha) tr -> sd_env_ok E0 tr = true ->
  run {G}.step {G}.init tr = run ssd_step ssd_init tr.
Proof.
  intros tr H HE. rewrite (ob_{t.name}_T.tie tr H (env_ok_true _ _ _ _)). apply sd_refines_from_reset. exact HE.
Qed.
"""
    return s


def tie_theorem_names(targets, tier):
    return [f"C48_{t.name}" for t in targets if t.params["kind"] == "decoder"]


ASSUMPTIONS = []
LEVEL_TEXT = "work in progress"
LEVEL_NOTE = ""
TECHNIQUE = ""
