"""C57 -- the USB serial (CDC-ACM) device carries bytes both ways and answers CDC requests
(luna/gateware/usb/devices/acm.py: ACMRequestHandlers, USBSerialDevice; luna/full_devices.py)."""
import os
import random

from harness.core import Target
from harness import tie
from props.C20_host import (HostSim, StreamProducer, token_bytes, sof_bytes, data_bytes, pid_byte,
                            PID_OUT, PID_IN, PID_SETUP, PID_PING, PID_DATA0, PID_DATA1, PID_ACK, PID_NAK, PID_STALL)

PID = "C57"
PATIENCE = 16       # cycles the host waits for an answer to start (full-speed bus turnaround time-out at 12 MHz)
NAK_LIMIT = 6       # consecutive NAKs a control stage may take before it counts as "not answered"
VID, PIDN = 0x16d0, 0x0f3b
# True: a request that must be STALLed is STALLed at its first answering opportunity, including a data packet of an OUT data stage
# (USB 2.0 8.5.3.4; the reading under which the unchanged code fails).  False: the weaker reading C10 takes -- such data packets may
# be left unanswered and the STALL comes at the status stage.
STRICT_OUT_STALL = os.environ.get("C57_STRICT_OUT_STALL", "0") != "0"     # default False (the reading C10 states); =1 selects the stricter USB 2.0 8.5.3.4 reading

ASSUMPTIONS = [
    "the host performs complete, well-formed transfers (what props/C20_host.py generates): one control transfer at a time, data and status stages "
    "in order, a packet only when the device is silent, and after a packet that solicits an answer only once the answer is complete or "
    f"{PATIENCE} cycles have passed without one; data packets only after an OUT/SETUP token; rx_valid only while rx_active.  A trace on which "
    "the host breaks this is not judged by the observer (result None)",
    "the expected descriptors are those of USBSerialDevice.create_descriptors() in /repo (so a wrong descriptor *content* in acm.py is not "
    "detectable here; a wrong ROM, offset, length or framing is); control endpoint max packet size 64",
    f"'answered' = the answer starts within {PATIENCE} cycles and a control stage is NAKed at most {NAK_LIMIT} times in a row",
    "STRICT_OUT_STALL = False (props/C57.py; environment C57_STRICT_OUT_STALL=1 selects the stricter reading): an unsupported class/vendor request is STALLed at its first data-stage IN token or at its status stage, as property C10 states it; the data packets of an OUT data stage of such a request may go unanswered. Under the stricter reading (USB 2.0 8.5.3.4: STALL the OUT data packets too) the unchanged StallOnlyRequestHandler fails (findings/C57-out-data-stage-not-stalled.*); that is more than the property text demands, so it is recorded as a note, not a finding",
    "the weaker reading C10 takes (those packets may be left unanswered, the STALL is owed at the status stage) -- the unchanged code satisfies the "
    "weaker reading of this clause",
    "requests the statement says nothing about (standard requests other than GET_DESCRIPTOR / SET_ADDRESS / SET_CONFIGURATION / "
    "GET_CONFIGURATION / GET_STATUS / CLEAR_FEATURE(ENDPOINT_HALT), SET_LINE_CODING with the direction bit set) are generated but not judged",
    "CLEAR_FEATURE(ENDPOINT_HALT) with wIndex 0x04 / 0x84 is accepted and restarts the data toggle of exactly the data OUT / IN endpoint (the host "
    "then sends / expects DATA0 there); any other endpoint address changes nothing on endpoint 4.  Host histories issue it, GET_STATUS, "
    "SET_LINE_CODING, SET_CONTROL_LINE_STATE and GET_DESCRIPTOR between bulk packets at every toggle phase (directed _scn_toggles + random)",
    "lost handshakes: host histories withhold the ACK of a bulk IN data packet, or treat the device's ACK of a bulk OUT packet as lost, then run "
    "0..2 transactions on other pipes that carry handshakes of their own (SET_LINE_CODING, SET_CONTROL_LINE_STATE, GET_LINE_CODING, GET_DESCRIPTOR, "
    "GET_STATUS, GET_CONFIGURATION, CLEAR_FEATURE, notification-endpoint poll, SOF) and only then retry; the observer is the conformant host: the "
    "repeated IN packet must be the same bytes with the same toggle (anything else is a failure: a conformant host would drop it as a duplicate and "
    "the bytes would be lost), the repeated OUT packet must be ACKed and not delivered twice (directed _scn_lost_handshakes + random)",
    "safety only for the byte streams: order, no loss in the middle, no duplication, nothing from refused packets; that the last bytes are "
    "eventually delivered is not expressible in a cycle observer and is not checked",
    "complete-device targets use a raw UTMI bus (full speed, 12 MHz constants); no ULPI/high speed",
    "tie configurations: ACMRequestHandlers on its own (all 2^12 input words); the class/vendor request handlers of the elaborated "
    "USBSerialDevice behind a USBRequestHandlerMultiplexer (all 2^13 input words; the StandardRequestHandler is left out); USBSerialDevice with max_packet_size 64 (quick) and 8, 16 (thorough)",
]
TIE_IMPORTS = "From LunaModel Require Import Handshake Usb2DataTx TokenDet C20_TxPath C57_Pack C57_Serial C57_Serial_proofs.\n"


# ---- targets ---------------------------------------------------------------------------------------------------
def mk_acm():
    def build():
        from luna.gateware.usb.devices.acm import ACMRequestHandlers
        d = ACMRequestHandlers()
        i = d.interface
        ins = [("type", i.setup.type), ("request", i.setup.request), ("rx_rfr", i.rx_ready_for_response),
               ("status_requested", i.status_requested)]
        outs = [("claim", i.claim), ("ack", i.handshakes_out.ack), ("tx_valid", i.tx.valid), ("tx_last", i.tx.last)]
        return d, ins, outs
    t = Target("acm_handlers", build)
    t.kind = "acm"
    return t


def mk_hmux():
    """The class/vendor request handlers of the *elaborated* USBSerialDevice (taken from its control endpoint, so the stall
    condition is the one acm.py writes), behind a fresh USBRequestHandlerMultiplexer with its built-in stall-only fallback."""
    def build():
        from amaranth import Elaboratable, Module
        from luna.gateware.usb.usb2.request import USBRequestHandlerMultiplexer
        from luna.gateware.usb.request.standard import StandardRequestHandler
        u, d = serial_device(64)
        top = d.elaborate(None)
        usb = top._named_submodules["usb"][0]
        control_ep = usb._endpoints[0]
        handlers = [h for h in control_ep._request_handlers if not isinstance(h, StandardRequestHandler)]
        assert [type(h).__name__ for h in handlers] == ["ACMRequestHandlers", "StallOnlyRequestHandler"], handlers
        mux = USBRequestHandlerMultiplexer()

        class Composition(Elaboratable):
            def elaborate(self, platform):
                m = Module()
                m.submodules.mux = mux
                for k, h in enumerate(handlers):
                    m.submodules[f"handler{k}"] = h
                    mux.add_interface(h.interface)
                return m
        sh = mux.shared
        ins = [("type", sh.setup.type), ("request", sh.setup.request), ("data_requested", sh.data_requested),
               ("status_requested", sh.status_requested), ("rx_rfr", sh.rx_ready_for_response)]
        outs = [("ack", sh.handshakes_out.ack), ("nak", sh.handshakes_out.nak), ("stall", sh.handshakes_out.stall),
                ("tx_valid", sh.tx.valid), ("tx_last", sh.tx.last)]
        return Composition(), ins, outs
    t = Target("acm_handler_mux", build)
    t.kind = "hmux"
    return t


def serial_device(mps):
    from luna.gateware.usb.devices.acm import USBSerialDevice
    from luna.gateware.interface.utmi import UTMIInterface
    u = UTMIInterface()
    d = USBSerialDevice(bus=u, idVendor=VID, idProduct=PIDN, max_packet_size=mps)
    return u, d


def mk_serial(mps):
    def build():
        u, d = serial_device(mps)
        ins = [("rx_active", u.rx_active), ("rx_valid", u.rx_valid), ("rx_data", u.rx_data), ("tx_ready", u.tx_ready),
               ("line_state", u.line_state), ("connect", d.connect),
               ("in_valid", d.tx.valid), ("in_first", d.tx.first), ("in_last", d.tx.last), ("in_payload", d.tx.payload),
               ("out_ready", d.rx.ready)]
        outs = [("tx_valid", u.tx_valid), ("tx_data", u.tx_data), ("in_ready", d.tx.ready), ("out_valid", d.rx.valid),
                ("out_first", d.rx.first), ("out_last", d.rx.last), ("out_payload", d.rx.payload)]
        return d, ins, outs
    t = Target(f"serial_mps{mps}", build)
    t.kind = "serial"; t.params = dict(mps=mps)
    return t


def targets(tier):
    only = os.environ.get("C57_ONLY")
    ts = [mk_acm(), mk_hmux(), mk_serial(64)]
    if tier != "quick":
        ts += [mk_serial(8), mk_serial(16)]
    return [t for t in ts if t.kind == only] if only else ts


def descriptor_table(mps):
    """[(wValue, bytes)] of the device's own descriptor collection"""
    u, d = serial_device(mps)
    out = []
    for type_number, index, raw in d.create_descriptors():
        out.append(((int(type_number) << 8) | index, bytes(raw)))
    return out


def coq_params(mps):
    tab = "[" + "; ".join(f"({k}, [" + "; ".join(str(b) for b in v) + "])" for k, v in descriptor_table(mps)) + "]"
    strict = "true" if STRICT_OUT_STALL else "false"
    return f"{{| sp_mps := {mps}; sp_desc := {tab}; sp_T := {PATIENCE}; sp_naks := {NAK_LIMIT}; sp_strict := {strict} |}}"


# ---- traces ----------------------------------------------------------------------------------------------------
def acm_traces(rng, tier):
    out = []
    for _ in range(10 if tier == "quick" else 50):
        out.append([dict(type=rng.choice([0, 1, 1, 2, 3]), request=rng.choice([0x20, 0x20, 0x21, 0x22, 0, 0xFF, rng.randrange(256)]),
                         rx_rfr=rng.randrange(2), status_requested=rng.randrange(2)) for _ in range(rng.randint(1, 40))])
    return out


def serial_script(rng, mps, prod, flavour, tab):
    keys = [k for k, _ in tab]

    async def enumerate_(h):
        await h.control_in(0x80, 6, 0x0100, 0, 8)
        if rng.random() < 0.8:
            await h.set_address(rng.choice([1, 0x31, 0x7F, rng.randrange(1, 128)]))
        await h.control_in(0x80, 6, 0x0100, 0, 18)
        await h.control_in(0x80, 6, 0x0600, 0, 10)                      # device qualifier: must STALL
        await h.control_in(0x80, 6, 0x0200, 0, 9)
        await h.control_in(0x80, 6, 0x0200, 0, rng.choice([64, 75, 255, 1024]))
        for k in keys:
            if (k >> 8) == 3 and rng.random() < 0.7:
                await h.control_in(0x80, 6, k, 0x0409, 255)
        await h.control_out(0x00, 9, 1)
        await h.control_in(0x80, 8, 0, 0, 1)
        await h.control_out(0x21, 0x20, 0, 0, [0x80, 0x25, 0, 0, 0, 0, 8])    # SET_LINE_CODING 9600 8N1
        await h.control_out(0x21, 0x22, 3, 0)                                  # SET_CONTROL_LINE_STATE: must STALL

    async def one(h):
        if rng.random() < 0.12:
            # standard requests that must not disturb the data path, at whatever toggle phase the two data endpoints are in
            k = rng.random()
            if k < 0.7:
                await clear_halt(h, rng.choice([0x84, 0x84, 0x84, 0x04, 0x04, 0x83, 0x03, 0x00, 0x80, 0x8F]))
            else:
                await h.control_in(rng.choice([0x80, 0x81, 0x82]), 0, 0, rng.choice([0, 0x04, 0x84]), 2)
            return
        r = rng.random()
        if r < 0.10:
            k = rng.choice(keys + [0x0600, 0x0700, 0x0305, 0x0f00, 0x2100])
            await h.control_in(0x80, 6, k, rng.choice([0, 0x0409]), rng.choice([1, 2, 8, 9, 18, 63, 64, 65, 255, 4096]))
        elif r < 0.14:
            await h.set_address(rng.randrange(1, 128))
        elif r < 0.18:
            await h.control_out(0x00, 9, rng.choice([0, 1, 1, 2]))
            await h.control_in(0x80, 8, 0, 0, 1)
        elif r < 0.21:
            await h.control_in(0x80, 0, 0, 0, 2)
        elif r < 0.27:       # SET_LINE_CODING, also with unusual lengths
            n = rng.choice([7, 7, 7, 1, 8, 0])
            await h.control_out(0x21, 0x20, 0, rng.choice([0, 1]), [rng.randrange(256) for _ in range(n)])
        elif r < 0.33:       # other class requests: no data / IN data / OUT data
            k = rng.random()
            if k < 0.4:
                await h.control_out(0x21, rng.choice([0x22, 0x23, 0x00, 0x02, 0x21, 0xFF]), rng.randrange(4), 0)
            elif k < 0.7:
                await h.control_in(0xA1, rng.choice([0x21, 0x01, 0x22, 0x20 + rng.randrange(1, 4)]), 0, 0, rng.choice([1, 7, 8]))
            else:
                await h.control_out(0x21, rng.choice([0x00, 0x02, 0x30]), 0, 0, [rng.randrange(256) for _ in range(rng.choice([1, 2, 7]))])
        elif r < 0.39:       # vendor / reserved requests
            typ = rng.choice([0x40, 0x60])
            k = rng.random()
            if k < 0.4:
                await h.control_out(typ | rng.choice([0, 1, 2]), rng.randrange(256), rng.randrange(3), 0)
            elif k < 0.7:
                await h.control_in(0x80 | typ, rng.randrange(256), 0, 0, rng.choice([1, 4, 64]))
            else:
                await h.control_out(typ, rng.randrange(256), 0, 0, [rng.randrange(256) for _ in range(rng.choice([1, 4, 8]))])
        elif r < 0.42:       # standard requests outside the statement (not judged)
            if rng.random() < 0.5:
                await h.control_in(0x81, 10, 0, 0, 1)
            else:
                await h.control_out(0x00, 3, 1, 0)
        elif r < 0.64:       # device -> host bytes
            if rng.random() < 0.75:
                n = rng.choice([1, 2, mps - 1, mps, mps + 1, 2 * mps, rng.randint(1, 2 * mps + 3)])
                prod.push([rng.randrange(256) for _ in range(n)], last=(rng.random() < 0.8))
                await h.idle(rng.choice([0, 5, n + 10]))
            for _ in range(rng.randint(1, 4)):
                withheld = rng.random() < 0.2
                p = await h.in_txn(4, handshake=(None if withheld else PID_ACK))
                if withheld and p is not None and p[0] == 'data':
                    # the packet "arrived damaged": no ACK; the host serves other pipes (with their own ACKs) before it retries
                    for _ in range(rng.randint(0, 2)):
                        await other_ack_txn(h, rng)
                    await h.in_txn(4)
        elif r < 0.86:       # host -> device bytes
            for _ in range(rng.randint(1, 3)):
                pid = h.out_pid
                pl = [rng.randrange(256) for _ in range(rng.choice([0, 1, mps - 1, mps, rng.randint(0, mps)]))]
                wrong = rng.random() < 0.08
                res = await h.out_txn(4, pl, data_pid=(pid ^ 0x8 if wrong else pid), corrupt=(rng.random() < 0.1))
                if res == ('hs', PID_ACK) and not wrong:
                    if rng.random() < 0.15:
                        # the device's ACK "is lost": other traffic, then the host retransmits the same packet with the same toggle
                        for _ in range(rng.randint(0, 2)):
                            await other_ack_txn(h, rng, clear_out=False)
                        await h.out_txn(4, pl, data_pid=pid)
                    if h.out_pid == pid:      # (a CLEAR_FEATURE on 0x04 in between has already restarted the toggle)
                        h.out_pid = PID_DATA1 if pid == PID_DATA0 else PID_DATA0
        elif r < 0.90:
            await h.in_txn(3)
        elif r < 0.93:
            await h.send_packet(sof_bytes(rng.randrange(2048)))
        elif r < 0.96:       # traffic for another device
            other = (h.address + rng.randrange(1, 127)) % 128
            if rng.random() < 0.5:
                await h.in_txn(rng.choice([0, 3, 4]), addr=other)
            else:
                await h.out_txn(4, [1, 2, 3], addr=other)
        else:
            await h.idle(rng.randint(1, 60))

    async def script(h):
        h.out_pid = PID_DATA0
        await h.idle(rng.randint(2, 6))
        if flavour == "enum":
            await enumerate_(h)
        for _ in range(rng.randint(5, 12) if flavour == "enum" else rng.randint(10, 20)):
            await one(h)
            await h.idle(rng.randint(0, 6))
        await h.idle(PATIENCE + 3 * mps)
    return script


async def clear_halt(h, windex):
    """CLEAR_FEATURE(ENDPOINT_HALT) to endpoint address `windex`: restarts the data toggle of exactly that endpoint and direction;
    the host then sends DATA0 next on OUT endpoint 4 (0x04) / expects DATA0 next on IN endpoint 4 (0x84; tracked by the observer)"""
    r = await h.control_out(0x02, 1, 0, windex)
    if r == 'ok' and (windex & 0x8F) == 0x04:
        h.out_pid = PID_DATA0
    return r


async def other_ack_txn(h, rng, kind=None, clear_out=True):
    """a transaction on another pipe that contains handshakes (the device's ACK of a SETUP / OUT packet, the host's ACK of a device
    data packet): none of them may be taken for the handshake of a bulk transaction that is still open"""
    kinds = ["set_line_coding", "set_control_line_state", "get_line_coding", "get_descriptor", "get_status", "get_config",
             "clear_other", "clear_in_other_ep", "poll_status_ep", "sof"] + (["clear_out"] if clear_out else [])
    kind = kind or rng.choice(kinds)
    if kind == "set_line_coding": await h.control_out(0x21, 0x20, 0, 0, [0x80, 0x25, 0, 0, 0, 0, 8])
    elif kind == "set_control_line_state": await h.control_out(0x21, 0x22, rng.randrange(4), 0)
    elif kind == "get_line_coding": await h.control_in(0xA1, 0x21, 0, 0, 7)
    elif kind == "get_descriptor": await h.control_in(0x80, 6, rng.choice([0x0100, 0x0200, 0x0300]), 0, rng.choice([8, 18, 64]))
    elif kind == "get_status": await h.control_in(rng.choice([0x80, 0x82]), 0, 0, 0, 2)
    elif kind == "get_config": await h.control_in(0x80, 8, 0, 0, 1)
    elif kind == "clear_other": await clear_halt(h, 0x83)
    elif kind == "clear_in_other_ep": await clear_halt(h, rng.choice([0x81, 0x00, 0x8F]))
    elif kind == "clear_out": await clear_halt(h, 0x04)
    elif kind == "poll_status_ep": await h.in_txn(3)
    else: await h.send_packet(sof_bytes(rng.randrange(2048)))


def _scn_lost_handshakes(prod, mps):
    """A handshake is lost and the retry comes only after other pipes have been served (seeded/C57_3): the host withholds the ACK of a
    bulk IN data packet (as if it had arrived damaged), completes transfers of every kind on the other pipes -- each with ACKs of its
    own --, then repeats the IN: the device must repeat the SAME packet with the SAME toggle, and the following packet carries the next
    bytes.  Likewise the device's ACK of a bulk OUT packet is 'lost': the host retransmits it with the same toggle, the device must ACK
    and deliver it only once."""
    import random as _r
    async def script(h):
        rng = _r.Random(57)
        h.out_pid = PID_DATA0
        await h.idle(3)
        cnt = 0
        for kind in ["set_line_coding", "set_control_line_state", "get_descriptor", "get_status", "clear_other", "poll_status_ep",
                     "get_line_coding", "get_config", "sof", None]:
            prod.push([(0x40 + cnt + j) & 0xff for j in range(3)]); cnt += 3
            await h.idle(10)
            await h.in_txn(4, handshake=None)                 # message A received, ACK withheld
            if kind: await other_ack_txn(h, rng, kind)
            await h.in_txn(4)                                 # retry: message A again, now ACKed
            prod.push([(0x40 + cnt + j) & 0xff for j in range(2)]); cnt += 2
            await h.idle(10)
            await h.in_txn(4)                                 # message B
            pl = [(cnt + j) & 0xff for j in range(3)]; cnt += 3
            pid = h.out_pid
            await h.out_txn(4, pl, data_pid=pid)              # ACKed, but the ACK is "lost"
            if kind: await other_ack_txn(h, rng, kind)
            await h.out_txn(4, pl, data_pid=pid)              # retransmission: ACK, no second delivery
            h.out_pid = PID_DATA1 if pid == PID_DATA0 else PID_DATA0
            pl = [(cnt + j) & 0xff for j in range(2)]; cnt += 2
            r = await h.out_txn(4, pl, data_pid=h.out_pid)
            if r == ('hs', PID_ACK):
                h.out_pid = PID_DATA1 if h.out_pid == PID_DATA0 else PID_DATA0
        await h.idle(3 * mps + 20)
    return script


def _scn_toggles(prod, mps):
    """Control requests that must leave the data path alone, issued at every toggle phase of the data OUT / IN endpoints (seeded/C57_2:
    CLEAR_FEATURE(ENDPOINT_HALT) on the IN endpoint 0x84 must not restart the OUT toggle, and vice versa); each is followed by at least
    two OUT packets and an IN packet so that a lost or duplicated byte shows on the streams."""
    async def script(h):
        h.out_pid = PID_DATA0
        cnt = [0]

        async def out(n):
            for _ in range(n):
                pl = [(cnt[0] + j) & 0xff for j in range(3)]; cnt[0] += 3
                r = await h.out_txn(4, pl, data_pid=h.out_pid)
                if r == ('hs', PID_ACK):
                    h.out_pid = PID_DATA1 if h.out_pid == PID_DATA0 else PID_DATA0

        async def inn(n=1):
            for _ in range(n):
                prod.push([(0x80 + cnt[0] + j) & 0xff for j in range(2)]); cnt[0] += 2
                await h.idle(8)
                await h.in_txn(4)
        await h.idle(3)
        await out(1)                       # the OUT endpoint now expects DATA1
        await clear_halt(h, 0x84)          # IN endpoint only
        await out(2)
        await inn(1)                       # the IN endpoint will use DATA1 next
        await clear_halt(h, 0x04)          # OUT endpoint only: host restarts at DATA0, IN goes on with DATA1
        await inn(1)
        await out(1)
        await clear_halt(h, 0x84)          # IN restarts at DATA0
        await inn(2)
        await out(2)
        await h.control_in(0x82, 0, 0, 0x84, 2)                                   # GET_STATUS(endpoint)
        await out(1)
        await h.control_out(0x21, 0x20, 0, 0, [0x80, 0x25, 0, 0, 0, 0, 8])         # SET_LINE_CODING
        await out(1); await inn(1)
        await h.control_out(0x21, 0x22, 3, 0)                                      # SET_CONTROL_LINE_STATE (STALLed)
        await out(1)
        await h.control_in(0x80, 6, 0x0100, 0, 18)                                 # GET_DESCRIPTOR
        await out(1); await inn(1)
        await clear_halt(h, 0x83)          # notification endpoint: nothing on endpoint 4 changes
        await out(2); await inn(1)
        await clear_halt(h, 0x04)
        await clear_halt(h, 0x84)
        await out(2); await inn(2)
        await h.idle(3 * mps + 20)
    return script


def _scn_enum(prod, mps):
    async def script(h):
        await h.idle(3)
        await h.control_in(0x80, 6, 0x0100, 0, 64)
        await h.set_address(5)
        await h.control_in(0x80, 6, 0x0200, 0, 255)
        await h.control_out(0x00, 9, 1)
        await h.control_out(0x21, 0x20, 0, 0, [0x80, 0x25, 0, 0, 0, 0, 8])
        await h.idle(PATIENCE + 4)
    return script


def _scn_stall_nodata(prod, mps):
    async def script(h):
        await h.idle(3)
        await h.control_out(0x21, 0x22, 3, 0)            # SET_CONTROL_LINE_STATE
        await h.control_in(0xC0, 0x42, 0, 0, 4)          # vendor IN
        await h.control_out(0x40, 0x42, 0, 0)            # vendor, no data
        await h.idle(PATIENCE + 4)
    return script


def _scn_stall_outdata(prod, mps):
    async def script(h):
        await h.idle(3)
        await h.control_out(0x40, 0x42, 0, 0, [1, 2, 3, 4])   # vendor request with an OUT data stage
        await h.idle(PATIENCE + 4)
    return script


def _scn_bytes(prod, mps):
    async def script(h):
        await h.idle(3)
        await h.out_txn(4, [1, 2, 3], data_pid=PID_DATA0)
        await h.out_txn(4, list(range(mps)), data_pid=PID_DATA1)
        prod.push(list(range(10, 10 + mps + 2)))
        await h.idle(mps + 12)
        for _ in range(3):
            await h.in_txn(4)
        await h.idle(3 * mps)
    return script


def _scn_backpressure(prod, mps):
    """the rx stream's consumer stalls while the host keeps writing: packets that no longer fit must be NAKed (and retried later), never
    ACKed and dropped"""
    async def script(h):
        h.out_ready_p = 0.0
        await h.idle(3)
        pid = PID_DATA0
        for k in range(3):
            r = await h.out_txn(4, [(17 * k + j) & 0xff for j in range(mps)], data_pid=pid)
            if r == ('hs', PID_ACK):
                pid ^= 0x8
        h.out_ready_p = 1.0
        await h.idle(3 * mps)
        r = await h.out_txn(4, [0xEE], data_pid=pid)
        await h.idle(3 * mps)
    return script


DIRECTED = [_scn_enum, _scn_stall_nodata, _scn_stall_outdata, _scn_bytes, _scn_backpressure, _scn_toggles, _scn_lost_handshakes]


def serial_traces(t, rng, tier):
    mps = t.params["mps"]
    tab = descriptor_table(mps)
    n = 8 if tier == "quick" else 12
    out = []
    # directed, minimal scenarios first (so that a violation is reported on the shortest trace that shows it)
    for scenario in DIRECTED:
        sub = random.Random(rng.getrandbits(32))
        prod = StreamProducer(sub)
        h = HostSim(t.build, sub, const=dict(line_state=1, connect=1), timeout=PATIENCE + 8, gap=3, in_stream=prod)
        h.status_after_silence = not STRICT_OUT_STALL
        h.run(scenario(prod, mps))
        out.append(h.trace)
    for k in range(n):
        sub = random.Random(rng.getrandbits(32))
        prod = StreamProducer(sub, gap_p=sub.choice([0.0, 0.3]))
        h = HostSim(t.build, sub, const=dict(line_state=1, connect=1),
                    ready_p=sub.choice([1.0, 1.0, 0.6, 0.3]), first_valid=(k % 4 == 1), byte_gap=sub.choice([0, 0, 1, (0, 3)]),
                    timeout=PATIENCE + 8, gap=sub.choice([2, 3, 6]), in_stream=prod, out_ready_p=sub.choice([1.0, 0.5, 0.05]))
        h.status_after_silence = not STRICT_OUT_STALL
        h.run(serial_script(sub, mps, prod, "enum" if k % 2 == 0 else "mixed", tab))
        out.append(h.trace)
    return out


def hmux_traces(rng, tier):
    out = []
    for _ in range(10 if tier == "quick" else 50):
        out.append([dict(type=rng.choice([0, 1, 1, 2, 3]), request=rng.choice([0x20, 0x20, 0x21, 0x22, 0, 0xFF, rng.randrange(256)]),
                         data_requested=int(rng.random() < 0.3), status_requested=int(rng.random() < 0.3), rx_rfr=int(rng.random() < 0.3))
                    for _ in range(rng.randint(1, 40))])
    return out


def traces(target, rng, tier):
    if target.kind == "acm":
        return acm_traces(rng, tier)
    if target.kind == "hmux":
        return hmux_traces(rng, tier)
    return serial_traces(target, rng, tier)


# ---- obligations -----------------------------------------------------------------------------------------------
def obligations(targets, tier):
    obs = []
    for t in targets:
        if t.kind == "acm":
            obs.append(tie.rlock(
                "ob_acm", t, St="unit", mstep="acm_step", enc="acm_enc", dec="acm_dec", wf="(fun _ => True)",
                dec_enc="(fun s _ => match s with tt => eq_refl end)", wf_step="(fun _ _ _ => I)", m0="tt", wf_m0="exact I.",
                alpha_bits=12, fuel=10,
                describe="ACMRequestHandlers == model (claims exactly class request 0x20; ACKs its data stage; zero-length status), all 2^12 input words"))
        elif t.kind == "hmux":
            obs.append(tie.rmon(
                "ob_hmux", t, mon=f"(hmux_mon {'true' if STRICT_OUT_STALL else 'false'})", m0="0", alpha_bits=13, fuel=10,
                describe="request-handler composition of USBSerialDevice (ACMRequestHandlers + StallOnlyRequestHandler(vendor|reserved) + the "
                         "multiplexer's fallback): SET_LINE_CODING data ACKed / status zero-length / never STALLed; every other class request and every "
                         "vendor / reserved request STALLed at every opportunity (IN data, OUT data, status); all 2^13 input words"))
        else:
            obs.append(tie.cmon(f"spec_{t.name}", t, mon=f"(c57_mon {coq_params(t.params['mps'])})", m0="(s_enc s_init)",
                                describe=f"USBSerialDevice(max_packet_size={t.params['mps']}) driven over UTMI by host scripts vs the device "
                                         "specification observer (enumeration, SET_LINE_CODING, STALLs, byte streams both ways)"))
    return obs


def tie_theorems(targets, tier):
    s = ""
    for t in targets:
        if t.kind == "acm":
            s += f"""
Theorem C57_acm_netlist : forall tr, Forall (fun i => i < 2 ^ N.of_nat 12) tr ->
  run {t.modname}.step {t.modname}.init tr = map (fun i => snd (acm_step tt i)) tr.
Proof.
  intros tr H. rewrite (ob_acm_T.tie tr H (env_ok_true _ _ _ _)). apply acm_run_map.
Qed.
"""
    return s


def tie_theorem_names(targets, tier):
    return ["C57_acm_netlist"] if any(t.kind == "acm" for t in targets) else []


LEVEL_TEXT = ("PARTIAL: specification-level run-time monitoring of the complete device, plus small theorems. MONITORED (not proved): the whole "
              "USBSerialDevice netlist is simulated under a closed-loop host-script generator (enumeration sequences, SET_LINE_CODING, other class / "
              "vendor / reserved requests with no, IN and OUT data stages, bulk traffic both ways with random sizes around the packet size, random "
              "tx_ready and stream back-pressure, retries, corrupted packets, traffic for other devices) and every cycle is judged by the device "
              "specification c57_step (Model/C57_Serial.v part B), which never looks inside the implementation: descriptors returned exactly and "
              "truncated to wLength, SET_ADDRESS / SET_CONFIGURATION take effect after a zero-length status, SET_LINE_CODING data ACKed and status "
              "zero-length, every other class request and every vendor/reserved request STALLed at the first data/status opportunity, rx stream = "
              "the ACKed OUT payloads in order (nothing from NAKed packets), IN packets = the tx stream's bytes in order with the right toggle and "
              "repeated until ACKed, notification endpoint NAKs, every answer within the host's patience. THEOREMS: ACMRequestHandlers' netlist equals, "
              "on all 2^12 input words and all traces, a model that claims exactly class request 0x20, ACKs its data stage and sends a zero-length "
              "status (C57_acm_netlist + C57_acm_handler_reading); the class/vendor request handlers of the elaborated device behind a request "
              "multiplexer satisfy, for all 2^13 input words (certified closure, obligation ob_hmux), 'SET_LINE_CODING is ACKed / answered with a "
              "zero-length status and never STALLed; every other class request and every vendor/reserved request is STALLed at every answering "
              "opportunity' -- on the unchanged tree this obligation FAILS with a one-cycle counterexample (see below), with the patch it is a theorem; the specification's request classification reads as the property text says "
              "(C57_spec_*); the observer's N packing is injective (C57_pairing_injective, C57_observer_packing), so the oracle evaluates the typed "
              "specification. RESULT ON /repo (HEAD b4e8e16): the specification is VIOLATED. (a) NEW: a class / vendor / reserved request with an OUT "
              "data stage is not STALLed: its data packet gets no handshake at all (complete device: findings/C57-out-data-stage-not-stalled.json; "
              "handler level, one cycle: findings/C57-out-data-stage-not-stalled-handlers.json; candidate patch "
              "findings/C57-out-data-stage-not-stalled.diff). A defect already recorded for C13 also surfaces at device level: (c) with a small packet "
              "size and a slow consumer an OUT packet that overflows the rx FIFO is discarded yet ACKed, its bytes are lost "
              "(findings/C57-acked-out-packet-dropped.json; fix findings/C13-ack-after-discard-and-first-marking.diff). (An earlier tree also failed "
              "with (b) the SETUP after a corrupted data packet not being ACKed -- C06, fixed in /repo by d048abf; "
              "findings/C57-setup-lost-after-corrupt-data.json.) With the C57 and C13 patches applied every trace of both tiers is accepted and ob_hmux "
              "is a theorem (findings/C57-with-patches*.evidence.json).")
LEVEL_NOTE = ("No theorem about the complete device: 1900+ cells with packet memories are out of reach of certified reachability, and the composition "
              "of the component theorems (C01-C14) across the half-duplex turnaround is not proved -- C57 rests on the legal-host hypothesis and on the "
              "host-script generator's coverage. Stream properties are safety only (order / no loss in the middle / no duplication); eventual delivery "
              "of the tail is not checked. Expected descriptors come from /repo's own create_descriptors(). Full-speed raw-UTMI configuration only. "
              "Transmit-path well-formedness for this device is C20's subject (same USBDevice core). Trusted: Coq kernel + vm_compute, Amaranth "
              "elaboration, nir2coq.py/Netlist.v (validated each run against pysim), the host-script generator.")
TECHNIQUE = ("Specification observer (executable Gallina reference of the property text, packed through a proved pairing function) evaluated over "
             "closed-loop host-script simulations of the complete device netlist; certified product-reachability for ACMRequestHandlers; Rocq proofs "
             "of the specification's reading lemmas")
