"""C56 -- IntegratedLogicAnalyzer captures exactly the samples following a trigger (luna/gateware/debug/ila.py)."""
from harness.core import Target
from harness import tie

PID = "C56"
ASSUMPTIONS = [
    "no environment assumption: trigger, probe inputs and captured_sample_number are arbitrary in every cycle",
    "reading of the property: 'after a trigger' = a cycle with trigger = 1 while the analyzer is idle (sampling = 0); sample n of "
    "the capture is the probe value `samples_pretrigger` cycles before the n-th cycle after the trigger cycle (so with the default "
    "samples_pretrigger = 1 sample 0 is the value in the trigger cycle); probe values before power-on count as 0; a read request "
    "(captured_sample_number = n) is answered on captured_sample one cycle later (synchronous read port)",
    "captured_sample_number >= sample_depth (possible when sample_depth is not a power of two) reads 0; not part of the property",
    "R lock-step tie configurations (sample_depth, sample width, samples_pretrigger): (2,1,0) (2,1,1) (3,1,1) (3,1,2) (4,1,1) quick; "
    "plus (3,2,1) (4,2,0) (5,1,2) (8,1,1) (6,1,3) thorough.  Correspondence configurations: (16,4,0) (32,8,1) (100,12,2) quick; plus "
    "(512,16,3) (1024,32,1) thorough.  Other sizes rest on the parametric theorem about the model.",
    "reset: observed from power-on; synchronous reset input tied to 0; single clock domain (domain='sync')",
]
TIE_IMPORTS = "From Coq Require Import Arith.\nFrom LunaModel Require Import Ila Ila_proofs.\n"


def mk(depth, width, pre, big):
    def build():
        from amaranth import Signal
        from luna.gateware.debug.ila import IntegratedLogicAnalyzer
        probe = Signal(width, name="probe")
        d = IntegratedLogicAnalyzer(signals=[probe], sample_depth=depth, samples_pretrigger=pre)
        ins = [("trigger", d.trigger), ("captured_sample_number", d.captured_sample_number), ("probe", probe)]
        outs = [("sampling", d.sampling), ("complete", d.complete), ("captured_sample", d.captured_sample)]
        return d, ins, outs
    t = Target(f"ila_d{depth}_w{width}_p{pre}", build)
    t.params = dict(depth=depth, width=width, pre=pre, pw=(depth - 1).bit_length())
    t.big = big
    return t


def targets(tier):
    small = [(2, 1, 0), (2, 1, 1), (3, 1, 1), (3, 1, 2), (4, 1, 1)]
    big = [(16, 4, 0), (32, 8, 1), (100, 12, 2)]
    if tier != "quick":
        small += [(3, 2, 1), (4, 2, 0), (5, 1, 2), (8, 1, 1), (6, 1, 3)]
        big += [(512, 16, 3), (1024, 32, 1)]
    return [mk(d, w, p, False) for d, w, p in small] + [mk(d, w, p, True) for d, w, p in big]


def traces(target, rng, tier):
    depth, width, pw = target.params["depth"], target.params["width"], target.params["pw"]
    n = (12 if tier == "quick" else 20) if target.big else (16 if tier == "quick" else 60)
    out = []
    for k in range(n):
        ptrig = [0.01, 0.05, 0.3, 1.0, 0.5][k % 5]
        length = rng.choice([1, depth, depth + 1, depth + 2, 2 * depth + 3, 3 * depth + 7]) + rng.randint(0, 40)
        length = min(length, 4000)
        tr = []
        sweep = 0
        for c in range(length):
            # read-back sweeps (0,1,2,...) interleaved with random addresses (incl. out-of-range ones)
            if rng.random() < 0.5:
                num = sweep % (1 << pw); sweep += 1
            else:
                num = rng.getrandbits(pw)
            tr.append(dict(trigger=int(rng.random() < ptrig), captured_sample_number=num, probe=rng.getrandbits(width)))
        out.append(tr)
    return out


def _coq(t):
    p = t.params
    return f"{p['depth']}%nat", f"{p['pw']}%nat", f"{p['pre']}%nat", str(p["width"])


def obligations(targets, tier):
    obs = []
    for t in targets:
        D, PW, P, W = _coq(t)
        p = t.params
        cfg = f"sample_depth={p['depth']}, {p['width']}-bit samples, samples_pretrigger={p['pre']}"
        if t.big:
            obs.append(tie.corr(f"corr_{t.name}", t, mstep=f"ila_mstep {D} {PW} {P} {W}", m0=f"ila_init {D} {P}",
                                describe=f"ILA model vs simulator of IntegratedLogicAnalyzer({cfg}), all outputs, every cycle"))
            continue
        obs.append(tie.rlock(
            f"ob_{t.name}", t,
            St="ila_state", mstep=f"ila_mstep {D} {PW} {P} {W}", enc=f"ila_enc {D} {PW} {P} {W}",
            dec=f"ila_dec {D} {PW} {P} {W}", wf=f"ila_wf {D} {PW} {P} {W}",
            dec_enc=f"ila_dec_enc {D} {PW} {P} {W}", wf_step=f"ila_wf_step {D} {PW} {P} {W}",
            m0=f"ila_init {D} {P}", wf_m0="apply ila_wf_init.",
            alpha_bits=1 + p["pw"] + p["width"], fuel=100000,
            describe=f"IntegratedLogicAnalyzer({cfg}) == model, all outputs, all input histories"))
    return obs


def tie_theorems(targets, tier):
    s = ""
    for t in targets:
        if t.big: continue
        D, PW, P, W = _coq(t)
        k = 1 + t.params["pw"] + t.params["width"]
        s += f"""
Theorem C56_{t.name} : forall tr, Forall (fun i => i < 2 ^ N.of_nat {k}) tr ->
  run {t.modname}.step {t.modname}.init tr =
  map ila_pack_out (sp_run {D} {P} (sp_init {D}) (map (ila_decode {PW} {W}) tr)).
Proof.
  intros tr H. rewrite (ob_{t.name}_T.tie tr H (env_ok_true _ _ _ _)). rewrite ila_mrun.
  rewrite (ila_from_reset {D} {PW} {P} ltac:(apply Nat.leb_le; reflexivity) ltac:(apply Nat.leb_le; reflexivity)).
  reflexivity.
Qed.
"""
    return s


def tie_theorem_names(targets, tier):
    return [f"C56_{t.name}" for t in targets if not t.big]


LEVEL_TEXT = ("Machine-checked proof. (1) For every sample depth >= 1, every write-counter width that holds it, every pre-trigger count, "
              "every sample value and every input history, the code-shaped model of IntegratedLogicAnalyzer (delay pipeline, registered "
              "write enable, wrapping write counter, two-state FSM, synchronous read port) produces exactly the outputs of a "
              "specification machine that keeps the probe history and stores 'the probe value pre cycles back' at index 0..depth-1 "
              "(C56_ila_refines, simulation relation). (2) About that specification: from any idle state a trigger followed by depth "
              "cycles of arbitrary inputs -- further triggers included -- stores exactly depth consecutive delayed samples, sampling=1 "
              "and complete=0 meanwhile, idle with complete=1 afterwards (C56_capture); while idle without trigger the buffer and complete "
              "are stable and each read request returns the addressed sample one cycle later (C56_idle_reads); both combined on the "
              "model's output trace from reset (C56_capture_readback). (3) For each tie configuration the netlist regenerated from /repo "
              "is proved output-equal to the model on all input histories (certified product reachability), giving C56_<cfg>: "
              "netlist outputs = specification machine.")
LEVEL_NOTE = ("Trusted: Coq kernel + vm_compute, Amaranth elaboration to NIR (incl. FFSynchronizer as plain registers), nir2coq.py/Netlist.v "
              "(validated each run against Amaranth's simulator). The tie is per configuration (depth 2-8, 1-2 bit samples, "
              "pre-trigger 0-3); realistic sizes (up to 1024 x 32 bit) are covered by differential correspondence runs, not by proof. "
              "Only IntegratedLogicAnalyzer itself is covered, not the SPI/UART/stream front-ends in the same file. "
              "No defect found: the unchanged tree passes.")
TECHNIQUE = ("Rocq proof: simulation relation to a history-based specification machine + inductive capture theorem, parametric in depth, "
             "counter width and pre-trigger count; certified product-reachability (lock-step) against the regenerated netlist")
