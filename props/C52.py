"""C52 -- I2C initiator (luna/gateware/interface/i2c.py: I2CInitiator + I2CBusDriver)."""
from harness.core import Target
from harness import tie

PID = "C52"
TIE_IMPORTS = "From LunaLib Require Import ReachPre.\nFrom LunaModel Require Import I2cInit I2cInit_proofs.\n"

IN_NAMES = ["start", "stop", "write", "read", "ack_i", "data_i", "scl_in", "sda_in"]


def mk(period, stretch, big):
    def build():
        from luna.gateware.interface.i2c import I2CBus, I2CInitiator
        pads = I2CBus()
        d = I2CInitiator(pads, period, stretch)
        ins = [("start", d.start), ("stop", d.stop), ("write", d.write), ("read", d.read), ("ack_i", d.ack_i),
               ("data_i", d.data_i), ("scl_in", pads.scl.i), ("sda_in", pads.sda.i)]
        outs = [("busy", d.busy), ("ack_o", d.ack_o), ("data_o", d.data_o), ("scl_o", pads.scl.o),
                ("scl_oe", pads.scl.oe), ("sda_o", pads.sda.o), ("sda_oe", pads.sda.oe)]
        return d, ins, outs
    t = Target(f"i2c_p{period}_{'st' if stretch else 'ns'}", build)
    t.params = dict(period=period, q=period // 4, stretch=stretch)
    t.big = big
    return t


def targets(tier):
    small = [(4, True), (4, False)]
    big = [(8, True), (22, False)]
    if tier != "quick":
        small += [(8, True)]
        big = [(8, False), (16, True), (20, False), (22, True), (64, True), (300, False)]
    return [mk(p, s, False) for p, s in small] + [mk(p, s, True) for p, s in big]


# ---------------------------------------------------------------------------------------------------
def closed_loop(target, rng, n_traces, cycles):
    """Drive the real module with Amaranth's simulator in closed loop (controller + open-drain bus + target)
    and record the input words; the harness replays them open loop on simulator, netlist and model."""
    from amaranth.sim import Simulator
    elab, ins, outs = target.build()
    insig = dict(ins); outsig = dict(outs)
    sim = Simulator(elab)
    sim.add_clock(1e-6)
    q = target.params["q"]
    holder = {}

    async def tb(ctx):
        style = holder["style"]; res = []
        tgt_scl = 1; tgt_sda = 1; hold_scl = 0; prev_line_scl = 1
        req = dict(start=0, stop=0, write=0, read=0); req_hold = 0
        data = rng.getrandbits(8); ack = rng.getrandbits(1)
        p_stretch = rng.choice([0.0, 0.02, 0.1]) if style != "nostretch" else 0.0
        p_req = rng.choice([0.05, 0.3, 1.0])
        for _ in range(holder["cycles"]):
            busy = ctx.get(outsig["busy"]); scl_oe = ctx.get(outsig["scl_oe"]); sda_oe = ctx.get(outsig["sda_oe"])
            # target: clock stretching in bursts, SDA changes only while SCL is low (compliant) or anytime (wild)
            if hold_scl > 0:
                hold_scl -= 1; tgt_scl = 0
            else:
                tgt_scl = 1
                if rng.random() < p_stretch:
                    hold_scl = rng.randint(1, 3 * q + 6)
            line_scl = (1 - scl_oe) & tgt_scl
            if style == "wild":
                tgt_sda = rng.getrandbits(1)
                if rng.random() < 0.1: tgt_scl = rng.getrandbits(1)
                line_scl = (1 - scl_oe) & tgt_scl
            elif prev_line_scl == 1 and line_scl == 0:
                tgt_sda = rng.getrandbits(1)
            prev_line_scl = line_scl
            line_sda = (1 - sda_oe) & tgt_sda
            if style == "freepads" and rng.random() < 0.2:
                line_scl = rng.getrandbits(1); line_sda = rng.getrandbits(1)
            # controller
            if req_hold > 0:
                req_hold -= 1
            else:
                req = dict(start=0, stop=0, write=0, read=0)
                if (busy == 0 or style in ("wild", "pushy")) and rng.random() < p_req:
                    r = rng.random()
                    if r < 0.85:
                        req[rng.choice(["start", "stop", "write", "write", "read", "read"])] = 1
                    else:
                        for k in req: req[k] = rng.getrandbits(1)
                    data = rng.getrandbits(8); ack = rng.getrandbits(1)
                    req_hold = 0 if style != "pushy" else rng.choice([0, 0, 5 * (q + 3)])
            if style == "wild":
                data = rng.getrandbits(8); ack = rng.getrandbits(1)
            cyc = dict(req, ack_i=ack, data_i=data, scl_in=line_scl, sda_in=line_sda)
            for n, v in cyc.items():
                ctx.set(insig[n], v)
            res.append(cyc)
            await ctx.tick()
        holder["result"] = res
    sim.add_testbench(tb)
    out = []
    styles = ["plain", "plain", "nostretch", "pushy", "wild", "freepads"]
    for k in range(n_traces):
        holder["style"] = styles[k % len(styles)]
        holder["cycles"] = cycles if holder["style"] != "wild" else max(60, cycles // 3)
        sim.reset(); sim.run()
        out.append(holder["result"])
    return out


def traces(target, rng, tier):
    q = target.params["q"]
    if tier == "quick":
        n = 7; cycles = min(900, 36 * (q + 4) * 4)
    else:
        cycles = min(6000, 36 * (q + 4) * 6)
        n = max(4, min(16, 15000 // cycles))
    return closed_loop(target, rng, n, cycles)


def model(t):
    return f"i2c_step {t.params['q']} {'true' if t.params['stretch'] else 'false'}"


D_W = 0xA6      # data_i in the R obligations
P_R = 0x59      # octet the target sends during reads in the R obligations


def rlock_pre(name, target, *, env, alphabet, fuel, describe):
    """R lock-step obligation like tie.rlock / tie_explicit.rlock_alpha, but the environment filter is evaluated
    BEFORE the netlist is stepped (coq/Lib/ReachPre.v: closed_pre implies Machine.closed), because the I2C
    environment rejects most alphabet symbols in most states (requests only while idle)."""
    G = target.modname
    St, mstep, enc, dec, wf = "i2c_state", model(target), "i2c_enc", "i2c_dec", "i2c_wf"
    q, s = target.params["q"], "true" if target.params["stretch"] else "false"
    defs = f"""
Module {name}.
  Definition step := {G}.step.
  Definition env := {env}.
  Definition mon := rl_mon ({St}) ({mstep}) ({enc}) ({dec}) env.
  Definition pre := envN ({St}) ({dec}) env.
  Definition alpha : list N := Eval vm_compute in ({alphabet}).
  Definition m0 := ({enc}) i2c_init.
  Definition bfs := Eval vm_compute in explore_pre step pre mon alpha {fuel} {G}.init m0.
  Definition ob_cex := Eval vm_compute in cex bfs.
  Definition ob_left := Eval vm_compute in length (front bfs).
  Definition ob_states := Eval vm_compute in length (allst bfs).
End {name}.
"""
    thms = f"""
Module {name}_T.
  Import {name}.
  Definition L := Eval vm_compute in allst bfs.
  Lemma L_closed_pre : closed_pre step pre mon alpha L = true.
  Proof. vm_compute. reflexivity. Qed.
  Lemma L_closed : closed step mon alpha L = true.
  Proof.
    apply (closed_pre_closed step pre mon alpha).
    - intros m i o H. apply rl_mon_pre_sound. exact H.
    - exact L_closed_pre.
  Qed.
  Lemma init_in : pmem {G}.init m0 (of_list L) = true.
  Proof. vm_compute. reflexivity. Qed.
  Theorem tie : forall tr, Forall (fun i => In i alpha) tr ->
    env_ok ({St}) ({mstep}) env i2c_init tr = true ->
    run {G}.step {G}.init tr = run ({mstep}) i2c_init tr.
  Proof.
    intros tr H HE.
    apply (R_lockstep step ({St}) ({mstep}) ({enc}) ({dec}) ({wf}) env i2c_dec_enc (i2c_wf_step {q} {s}) alpha L).
    - exact L_closed.
    - exact init_in.
    - exact i2c_wf_init.
    - exact H.
    - exact HE.
  Qed.
End {name}_T.
"""
    return tie.Obligation(name, "R-lockstep(explicit alphabet, pre-filtered environment)", target, defs, thms,
                          [f"{name}_T.tie"], describe, mon_expr=f"{name}.mon", m0_expr=f"{name}.m0")


def envs(t, tier):
    """(tag, env expression, description)"""
    tgt = ("an open-drain bus whose target only ever holds SCL low (clock stretching of any length at any SCL-low moment) and "
           "drives SDA freely, except that during read data bits it sends 0x%02X" % P_R)
    legal = ("bus", f"i2c_env {D_W} (msb8 {P_R}) true true true", "start/stop/write/read requests against " + tgt)
    wonly = ("busw", f"i2c_env {D_W} (msb8 {P_R}) true false true", "start/stop/write requests against " + tgt)
    ronly = ("busr", f"i2c_env {D_W} (msb8 {P_R}) false true true", "start/stop/read requests against " + tgt)
    free = ("freescl", f"i2c_env {D_W} (msb8 {P_R}) true true false",
            "start/stop/write/read requests against an open-drain bus whose target drives SCL and SDA low at any time (also "
            "pulls a high SCL low), except that during read data bits it sends 0x%02X" % P_R)
    if tier == "quick":
        return [wonly, ronly]
    return [legal, free] if (t.params["period"] == 4 and t.params["stretch"]) else [legal]


def obligations(targets, tier):
    obs = []
    for t in targets:
        desc = f"I2CInitiator(period_cyc={t.params['period']}, clk_stretch={t.params['stretch']})"
        if not t.big:
            for tag, env, edesc in envs(t, tier):
                obs.append(rlock_pre(
                    f"ob_{t.name}_{tag}", t, env=env, alphabet=f"i2c_alphabet i2c_reqs {D_W}", fuel=100000,
                    describe=f"{desc} == model in lock step (every port, every cycle) on all traces of requests (any order, only "
                             f"while the FSM is idle, also several at once; data_i = 0x{D_W:02X}, ack_i free): {edesc}"))
        obs.append(tie.corr(f"corr_{t.name}", t, mstep=model(t), m0="i2c_init",
                            describe=f"{desc} model vs simulator: closed-loop controller/target traces with random data, "
                                     f"clock stretching, requests while busy, wild and non-open-drain pad behaviour"))
    return obs


def tie_theorems(targets, tier):
    return ""


def tie_theorem_names(targets, tier):
    return []


ASSUMPTIONS = [
    "scope: I2CInitiator with its I2CBusDriver on an I2CBus record (scl and sda both with i/o/oe, as in tests/test_i2c.py); "
    "I2CRegisterInterface is not part of this property",
    "model parameters: q = period_cyc // 4 (timer reload) and clk_stretch; the theorems need no lower bound on q, but with "
    "period_cyc < 4 (q = 0) the strobe is permanently high and no SclH step ever completes (model and code alike)",
    "model theorems quantify over ALL input traces: requests at any time (the FSM accepts them exactly while in IDLE, "
    "including the one IDLE cycle in which busy is still 1), arbitrary pads.scl.i / pads.sda.i values every cycle",
    "reading of 'SCL is high' for the SDA clause: the initiator's own SCL output is released before and after the step "
    "(conservative: if it holds SCL low the line is low whatever the target does)",
    "reading of 'samples while SCL is high': the FSM takes the sample in a non-strobe cycle with its SCL output released "
    "and, for clk_stretch=True, the synchronised SCL input high (then the synchronised SDA value stems from the same "
    "instant at which the line was seen high). With clk_stretch=False the code does not look at SCL at all: the sample is "
    "taken one cycle after SCL is released and, because of the two-stage synchroniser, is the SDA pad value from the cycle "
    "BEFORE the SCL pad rises -- correct for any target that respects the I2C data set-up time, stated here, not hidden",
    "ghost record (g_rises, g_samples, g_data, g_ack) only observes the model; it is reset when a request is accepted",
    "R obligations: period_cyc = 4 (both clk_stretch settings; thorough also period_cyc = 8), data_i = 0xA6, read octet "
    "0x59, environment classes listed in obligation_list; other data values, periods 8..300 and mixed/wild behaviours "
    "are covered by correspondence runs against Amaranth's simulator",
    "liveness (an operation finishes if the target eventually releases SCL) is not stated",
]
LEVEL_TEXT = (
    "Machine-checked proof about the parametric model (every q = period_cyc//4, both clk_stretch settings, every input trace incl. "
    "arbitrary target SCL/SDA behaviour): C52_sda_discipline (the initiator's SDA output changes only while it holds SCL low, or -- "
    "with SCL released before and after -- as the falling edge of a START / rising edge of a STOP sequence), C52_group_entry (those "
    "sequences are entered only by an accepted start/stop request; priority start>stop>write>read), C52_write_correct (whenever idle "
    "after a write: exactly nine SCL pulses, SDA carried data_i MSB first at the first eight rising edges and was released at the "
    "ninth, one sample taken, ack_o = its complement), C52_read_correct (nine pulses, SDA released for eight, driven to not ack_i at "
    "the ninth, eight samples, data_o = samples MSB first), C52_samples_scl_high + C52_registers_change_only_by_sampling (samples are "
    "taken only with SCL released and, with clk_stretch, seen high), C52_stretch_holds (while SCL is released but held low the FSM, "
    "timer, outputs and registers are frozen, for any duration), C52_busy_low_only_idle + C52_idle_accepts. Tie: for period_cyc = 4 "
    "(and 8 in the thorough tier) the netlist regenerated from /repo is proved equal to the model in lock step on every port for all "
    "request sequences against every clock-stretching open-drain target of the listed environment class (certified product "
    "reachability); correspondence with Amaranth's simulator at periods 4..300.")
LEVEL_NOTE = (
    "Trusted: Coq kernel + vm_compute, Amaranth elaboration, nir2coq.py/Netlist.v (validated each run against pysim), the reading of "
    "the property recorded in ASSUMPTIONS. The protocol theorems are statements about the hand model (internal FSM position and "
    "ghost history); the code is tied to the model by lock-step equality of all ports, which is a theorem only for the R "
    "configurations and environment classes (fixed data_i / read octet; requests only while idle), elsewhere a differential test. "
    "New library file coq/Lib/ReachPre.v (environment filter evaluated before stepping; proved to imply Machine.closed). "
    "Not claimed: liveness; that a START/STOP is always electrically produced (e.g. a start requested while a target illegally "
    "holds SCL low and sda_o is already 0 completes without an SDA edge); clk_stretch=False samples the pre-rise SDA value (see ASSUMPTIONS).")
TECHNIQUE = ("Rocq proof: inductive invariants over all traces of a parametric FSM model (safety invariant + ghost-history invariant for "
             "write/read), certified product-reachability lock-step against the regenerated netlist under an explicit environment "
             "class, differential runs against Amaranth's simulator with a closed-loop bus/target generator")
