"""C52 -- I2C initiator (luna/gateware/interface/i2c.py: I2CInitiator + I2CBusDriver)."""
from harness.core import Target
from harness import tie

PID = "C52"
TIE_IMPORTS = "From LunaModel Require Import I2cInit I2cInit_proofs.\n"

IN_NAMES = ["start", "stop", "write", "read", "ack_i", "data_i", "scl_in", "sda_in"]


def mk(period, stretch, big):
    def build():
        from luna.gateware.interface.i2c import I2CBus, I2CInitiator
        pads = I2CBus()
        d = I2CInitiator(pads, period, stretch)
        ins = [("start", d.start), ("stop", d.stop), ("write", d.write), ("read", d.read), ("ack_i", d.ack_i),
               ("data_i", d.data_i), ("scl_in", pads.scl.i), ("sda_in", pads.sda.i)]
        outs = [("busy", d.busy), ("ack_o", d.ack_o), ("data_o", d.data_o), ("scl_o", pads.scl.o),
                ("scl_oe", pads.scl.oe), ("sda_o", pads.sda.o), ("sda_oe", pads.sda.oe)]
        return d, ins, outs
    t = Target(f"i2c_p{period}_{'st' if stretch else 'ns'}", build)
    t.params = dict(period=period, q=period // 4, stretch=stretch)
    t.big = big
    return t


def targets(tier):
    small = [(4, True), (4, False)]
    big = [(8, True), (16, True), (20, False), (22, True)]
    if tier != "quick":
        small += [(8, True)]
        big = [(8, False), (16, True), (16, False), (20, True), (20, False), (22, True), (64, True), (300, True), (300, False)]
    return [mk(p, s, False) for p, s in small] + [mk(p, s, True) for p, s in big]


# ---------------------------------------------------------------------------------------------------
def closed_loop(target, rng, n_traces, cycles):
    """Drive the real module with Amaranth's simulator in closed loop (controller + open-drain bus + target)
    and record the input words; the harness replays them open loop on simulator, netlist and model."""
    from amaranth.sim import Simulator
    elab, ins, outs = target.build()
    insig = dict(ins); outsig = dict(outs)
    sim = Simulator(elab)
    sim.add_clock(1e-6)
    q = target.params["q"]
    holder = {}

    async def tb(ctx):
        style = holder["style"]; res = []
        tgt_scl = 1; tgt_sda = 1; hold_scl = 0; prev_line_scl = 1
        req = dict(start=0, stop=0, write=0, read=0); req_hold = 0
        data = rng.getrandbits(8); ack = rng.getrandbits(1)
        p_stretch = rng.choice([0.0, 0.02, 0.1]) if style != "nostretch" else 0.0
        p_req = rng.choice([0.05, 0.3, 1.0])
        for _ in range(holder["cycles"]):
            busy = ctx.get(outsig["busy"]); scl_oe = ctx.get(outsig["scl_oe"]); sda_oe = ctx.get(outsig["sda_oe"])
            # target: clock stretching in bursts, SDA changes only while SCL is low (compliant) or anytime (wild)
            if hold_scl > 0:
                hold_scl -= 1; tgt_scl = 0
            else:
                tgt_scl = 1
                if rng.random() < p_stretch:
                    hold_scl = rng.randint(1, 3 * q + 6)
            line_scl = (1 - scl_oe) & tgt_scl
            if style == "wild":
                tgt_sda = rng.getrandbits(1)
                if rng.random() < 0.1: tgt_scl = rng.getrandbits(1)
                line_scl = (1 - scl_oe) & tgt_scl
            elif prev_line_scl == 1 and line_scl == 0:
                tgt_sda = rng.getrandbits(1)
            prev_line_scl = line_scl
            line_sda = (1 - sda_oe) & tgt_sda
            if style == "freepads" and rng.random() < 0.2:
                line_scl = rng.getrandbits(1); line_sda = rng.getrandbits(1)
            # controller
            if req_hold > 0:
                req_hold -= 1
            else:
                req = dict(start=0, stop=0, write=0, read=0)
                if (busy == 0 or style in ("wild", "pushy")) and rng.random() < p_req:
                    r = rng.random()
                    if r < 0.85:
                        req[rng.choice(["start", "stop", "write", "write", "read", "read"])] = 1
                    else:
                        for k in req: req[k] = rng.getrandbits(1)
                    data = rng.getrandbits(8); ack = rng.getrandbits(1)
                    req_hold = 0 if style != "pushy" else rng.choice([0, 0, 5 * (q + 3)])
            if style == "wild":
                data = rng.getrandbits(8); ack = rng.getrandbits(1)
            cyc = dict(req, ack_i=ack, data_i=data, scl_in=line_scl, sda_in=line_sda)
            for n, v in cyc.items():
                ctx.set(insig[n], v)
            res.append(cyc)
            await ctx.tick()
        holder["result"] = res
    sim.add_testbench(tb)
    out = []
    styles = ["plain", "plain", "nostretch", "pushy", "wild", "freepads"]
    for k in range(n_traces):
        holder["style"] = styles[k % len(styles)]
        holder["cycles"] = cycles if holder["style"] != "wild" else max(60, cycles // 3)
        sim.reset(); sim.run()
        out.append(holder["result"])
    return out


def traces(target, rng, tier):
    q = target.params["q"]
    n = 12 if tier == "quick" else 48
    cycles = min(4000, 45 * 4 * (q + 4) * (3 if tier == "quick" else 6))
    return closed_loop(target, rng, n, cycles)


def model(t):
    return f"i2c_step {t.params['q']} {'true' if t.params['stretch'] else 'false'}"


def obligations(targets, tier):
    obs = []
    for t in targets:
        obs.append(tie.corr(f"corr_{t.name}", t, mstep=model(t), m0="i2c_init",
                            describe=f"I2CInitiator(period_cyc={t.params['period']}, clk_stretch={t.params['stretch']}) model vs "
                                     f"simulator: closed-loop controller/target traces with random data, stretching, wild targets"))
    return obs


def tie_theorems(targets, tier):
    return ""


def tie_theorem_names(targets, tier):
    return []


ASSUMPTIONS = []
LEVEL_TEXT = "in progress"
LEVEL_NOTE = "in progress"
TECHNIQUE = "in progress"
