"""C20 -- everything the USB2 device transmits is a well-formed, solicited packet
(luna/gateware/usb/usb2/device.py "Transmitter multiplexing"; luna/gateware/interface/utmi.py: UTMIInterfaceMultiplexer;
 luna/gateware/utils/bus.py: OneHotMultiplexer)."""
import random

from harness.core import Target
from harness import tie, tie_explicit
from props.C20_host import (HostSim, StreamProducer, token_bytes, sof_bytes, data_bytes, pid_byte,
                            PID_OUT, PID_IN, PID_SETUP, PID_PING, PID_DATA0, PID_DATA1, PID_ACK, PID_NAK, PID_STALL)

PID = "C20"
PATIENCE = 16      # cycles a legal host waits for a response to start (FS bus turnaround time-out = 16..18 bit times = cycles at 12 MHz)

ASSUMPTIONS = [
    "legal host (hypothesis of the wire observer c20_wire_mon; a trace on which the host breaks it is not judged): rx_valid only "
    "while rx_active; the host starts a packet only while the device is not transmitting, and after a packet that solicits a response "
    f"(IN/PING token for the device; data packet after an OUT/SETUP token for the device) only once the response is complete or {PATIENCE} "
    "cycles have passed without one starting",
    "a transmission is 'solicited' iff, since the last packet on the bus, the host completed an IN or PING token carrying the device's current "
    "address (the address register is observed through a debug port), or a data packet with a data PID and correct CRC16 directly after an OUT or "
    "SETUP token for the device; each solicitation is consumed by one transmission; an OUT/SETUP token on its own solicits nothing",
    "other devices on the bus: the host scripts interleave own traffic (control, bulk OUT and bulk IN on endpoint 1, status IN) with transactions "
    "addressed to other devices -- OUT/SETUP + DATA0/DATA1 (+ the other device's handshake), IN + the other device's data or NAK + the host's "
    "handshake, PING, lone OUT tokens, to address 0 after SET_ADDRESS and to neighbouring / random addresses, SOFs in between, preferably right "
    "after own OUT traffic; the observer grants no solicitation for any of it, so ANY transmission by the device inside a transaction whose token "
    "was not addressed to it is reported (directed histories directed_foreign + random flavour 'foreign')",
    "interleaving: between the SETUP and status stages of no-data control requests (SET_ADDRESS, SET_CONFIGURATION, CLEAR_FEATURE) and between "
    "the stages of requests with a data stage the host scripts serve the other endpoints in every readiness -- bulk IN empty (NAK) / with data, bulk "
    "OUT with room (ACK) / full (NAK), PING, status IN, SOF -- under tx_ready probabilities 1, 0.5, 0.25 (directed_interleave) and at random; the "
    "observer demands one well-formed packet from one source per solicitation, so two transmitters answering the same token are reported",
    "request discipline of the transmit-path theorems (txq_env): nothing in flight -> at most one of {handshake request, data request} per "
    "cycle; handshake in flight -> no data request; data packet in flight -> no handshake request, utmi.rx_valid low, stream.valid held during "
    "the payload; no chirp while anything is in flight.  It is NOT proved from the endpoint models; it is checked on every simulated "
    "run of the complete device by the observer c20_disc_mon (a violation by the device is reported as a failure, not ignored)",
    "complete-device targets use a raw UTMI bus (USBDevice: full-speed only, 12 MHz timing constants); reset chirping cannot occur there and "
    "the observer requires the reset sequencer's valid line to stay low.  High-speed operation (ULPI translator, chirp) is not exercised",
    "tie configurations: OneHotMultiplexer with n sources / or-signal bits / data bits in {(3,0,2),(3,2,1)} (+ (2,0,2),(4,0,1),(2,1,3),(5,0,1),(3,1,2) "
    "thorough), all input words; the real UTMIInterfaceMultiplexer with USBDevice's three sources over all valid/ready patterns and data bytes "
    "from a bit-covering set; USBDevice's transmit path (endpoints replaced by one port-only stub endpoint) by correspondence; the complete "
    "USBDevice (standard control endpoint, bulk IN + bulk OUT on endpoint 1, max packet 8 (and 64 thorough), status IN endpoint 2) "
    "driven by the closed-loop host-script generator props/C20_host.py",
    "debug ports of the complete-device target are added by a Python subclass of USBDevice that only reads attributes of its sub-modules "
    "(token_detector.address, the three tx.valid lines, endpoint_mux.shared request lines, transmitter.stream.ready); /repo is not modified",
]
TIE_IMPORTS = "From LunaModel Require Import Handshake Usb2DataTx TokenDet C20_TxPath C20_TxPath_proofs.\n"


# ---- targets ---------------------------------------------------------------------------------------------------
def mk_mux(n, ow, dw):
    def build():
        from amaranth.hdl.rec import Record, DIR_FANIN, DIR_FANOUT
        from luna.gateware.utils.bus import OneHotMultiplexer
        layout = [('valid', 1, DIR_FANOUT)] + ([('ors', ow, DIR_FANOUT)] if ow else []) + \
                 [('data', dw, DIR_FANOUT), ('ready', 1, DIR_FANIN)]

        class Bus(Record):
            def __init__(self):
                super().__init__(layout)
        d = OneHotMultiplexer(interface_type=Bus, mux_signals=('data',),
                              or_signals=('valid', 'ors') if ow else ('valid',), pass_signals=('ready',))
        srcs = [Bus() for _ in range(n)]
        d.add_interfaces(srcs)
        ins = []
        for k, s in enumerate(srcs):
            ins.append((f"valid{k}", s.valid))
            if ow: ins.append((f"ors{k}", s.ors))
            ins.append((f"data{k}", s.data))
        ins.append(("ready", d.output.ready))
        outs = [("valid", d.output.valid)] + ([("ors", d.output.ors)] if ow else []) + [("data", d.output.data)] + \
               [(f"ready{k}", s.ready) for k, s in enumerate(srcs)]
        return d, ins, outs
    t = Target(f"ohm_n{n}_o{ow}_d{dw}", build)
    t.kind = "mux"; t.params = dict(n=n, ow=ow, dw=dw)
    return t


def mk_utmi_mux():
    def build():
        from luna.gateware.interface.utmi import UTMIInterfaceMultiplexer, UTMITransmitInterface
        d = UTMIInterfaceMultiplexer()
        srcs = [UTMITransmitInterface() for _ in range(3)]
        for s in srcs:
            d.add_input(s)
        ins = []
        for k, s in enumerate(srcs):
            ins += [(f"valid{k}", s.valid), (f"data{k}", s.data)]
        ins.append(("ready", d.output.ready))
        outs = [("valid", d.output.valid), ("data", d.output.data)] + [(f"ready{k}", s.ready) for k, s in enumerate(srcs)]
        return d, ins, outs
    t = Target("utmi_mux3", build)
    t.kind = "utmimux"; t.params = dict(n=3, ow=0, dw=8)
    return t


def descriptors(mps):
    from usb_protocol.emitters import DeviceDescriptorCollection
    desc = DeviceDescriptorCollection()
    with desc.DeviceDescriptor() as dd:
        dd.idVendor = 0x1209; dd.idProduct = 0x0001
        dd.iManufacturer = "LUNA"; dd.iProduct = "C20"; dd.iSerialNumber = "0001"
        dd.bNumConfigurations = 1
    with desc.ConfigurationDescriptor() as c:
        with c.InterfaceDescriptor() as i:
            i.bInterfaceNumber = 0
            with i.EndpointDescriptor() as e:
                e.bEndpointAddress = 0x01; e.wMaxPacketSize = mps
            with i.EndpointDescriptor() as e:
                e.bEndpointAddress = 0x81; e.wMaxPacketSize = mps
            with i.EndpointDescriptor() as e:
                e.bEndpointAddress = 0x82; e.wMaxPacketSize = 8; e.bmAttributes = 3; e.bInterval = 10
    return desc


def tapped_device(bus):
    """USBDevice with read-only debug outputs (a subclass; nothing in /repo changes)."""
    from amaranth import Signal
    from luna.gateware.usb.usb2.device import USBDevice

    class TappedDevice(USBDevice):
        def __init__(self, **kw):
            super().__init__(**kw)
            self.dbg_addr = Signal(7); self.dbg_vrst = Signal(); self.dbg_vdata = Signal(); self.dbg_vhs = Signal()
            self.rq_ack = Signal(); self.rq_nak = Signal(); self.rq_stall = Signal(); self.rq_dpid = Signal(2)
            self.rq_valid = Signal(); self.rq_first = Signal(); self.rq_last = Signal(); self.rq_payload = Signal(8)
            self.rq_ready = Signal()

        def elaborate(self, platform):
            m = super().elaborate(platform)
            sub = {k: v[0] for k, v in m._named_submodules.items()}
            sh = sub["endpoint_mux"].shared
            m.d.comb += [
                self.dbg_addr.eq(sub["token_detector"].address),
                self.dbg_vrst.eq(sub["reset_sequencer"].tx.valid),
                self.dbg_vdata.eq(sub["transmitter"].tx.valid),
                self.dbg_vhs.eq(sub["handshake_generator"].tx.valid),
                self.rq_ack.eq(sh.handshakes_out.ack), self.rq_nak.eq(sh.handshakes_out.nak),
                self.rq_stall.eq(sh.handshakes_out.stall), self.rq_dpid.eq(sh.tx_pid_toggle),
                self.rq_valid.eq(sh.tx.valid), self.rq_first.eq(sh.tx.first), self.rq_last.eq(sh.tx.last),
                self.rq_payload.eq(sh.tx.payload), self.rq_ready.eq(sub["transmitter"].stream.ready),
            ]
            return m
    return TappedDevice(bus=bus)


def tap_outs(u, d):
    return [("tx_valid", u.tx_valid), ("tx_data", u.tx_data), ("v_rst", d.dbg_vrst), ("v_data", d.dbg_vdata),
            ("v_hs", d.dbg_vhs), ("addr", d.dbg_addr), ("rq_ack", d.rq_ack), ("rq_nak", d.rq_nak), ("rq_stall", d.rq_stall),
            ("rq_dpid", d.rq_dpid), ("rq_valid", d.rq_valid), ("rq_first", d.rq_first), ("rq_last", d.rq_last),
            ("rq_payload", d.rq_payload), ("rq_ready", d.rq_ready)]


def mk_usbdev(mps):
    def build():
        from luna.gateware.interface.utmi import UTMIInterface
        from luna.gateware.usb.usb2.endpoints.stream import USBStreamInEndpoint, USBStreamOutEndpoint
        from luna.gateware.usb.usb2.endpoints.status import USBSignalInEndpoint
        u = UTMIInterface()
        d = tapped_device(u)
        d.add_standard_control_endpoint(descriptors(mps))
        ein = USBStreamInEndpoint(endpoint_number=1, max_packet_size=mps); d.add_endpoint(ein)
        eout = USBStreamOutEndpoint(endpoint_number=1, max_packet_size=mps); d.add_endpoint(eout)
        est = USBSignalInEndpoint(width=16, endpoint_number=2); d.add_endpoint(est)
        ins = [("rx_active", u.rx_active), ("rx_valid", u.rx_valid), ("rx_data", u.rx_data), ("tx_ready", u.tx_ready),
               ("line_state", u.line_state), ("connect", d.connect),
               ("in_valid", ein.stream.valid), ("in_first", ein.stream.first), ("in_last", ein.stream.last),
               ("in_payload", ein.stream.payload), ("out_ready", eout.stream.ready), ("status", est.signal)]
        outs = tap_outs(u, d) + [("in_ready", ein.stream.ready), ("out_valid", eout.stream.valid),
                                 ("out_first", eout.stream.first), ("out_last", eout.stream.last),
                                 ("out_payload", eout.stream.payload)]
        return d, ins, outs
    t = Target(f"usbdev_mps{mps}", build)
    t.kind = "device"; t.params = dict(mps=mps)
    return t


def mk_txpath():
    """The real USBDevice whose only endpoint is a port-only stub: the endpoint multiplexer's request lines become
    free inputs, so the device's own transmit path (generators, CRC unit, multiplexer, as wired by device.py) is
    exercised with arbitrary -- also undisciplined -- requests."""
    def build():
        from amaranth import Elaboratable, Module
        from luna.gateware.interface.utmi import UTMIInterface
        from luna.gateware.usb.usb2.endpoint import EndpointInterface

        class StubEndpoint(Elaboratable):
            def __init__(self):
                self.interface = EndpointInterface()
            def elaborate(self, platform):
                return Module()
        u = UTMIInterface()
        d = tapped_device(u)
        ep = StubEndpoint(); d.add_endpoint(ep)
        i = ep.interface
        ins = [("ack", i.handshakes_out.ack), ("nak", i.handshakes_out.nak), ("stall", i.handshakes_out.stall),
               ("dpid", i.tx_pid_toggle), ("valid", i.tx.valid), ("first", i.tx.first), ("last", i.tx.last),
               ("payload", i.tx.payload), ("tx_ready", u.tx_ready), ("rx_valid", u.rx_valid), ("rx_data", u.rx_data),
               ("line_state", u.line_state), ("connect", d.connect)]
        outs = [("tx_valid", u.tx_valid), ("tx_data", u.tx_data), ("sready", i.tx.ready),
                ("v_rst", d.dbg_vrst), ("v_data", d.dbg_vdata), ("v_hs", d.dbg_vhs)]
        return d, ins, outs
    t = Target("txpath", build)
    t.kind = "txpath"
    return t


def targets(tier):
    import os
    only = os.environ.get("C20_ONLY")      # development aid: restrict the check to one kind of target
    ts = _targets(tier)
    return [t for t in ts if t.kind == only] if only else ts


def _targets(tier):
    cfgs = [(3, 0, 2), (3, 2, 1)]
    if tier != "quick":
        cfgs += [(2, 0, 2), (4, 0, 1), (2, 1, 3), (5, 0, 1), (3, 1, 2)]
    ts = [mk_mux(*c) for c in cfgs] + [mk_utmi_mux(), mk_txpath(), mk_usbdev(8)]
    if tier != "quick":
        ts.append(mk_usbdev(64))
    return ts


# ---- traces ----------------------------------------------------------------------------------------------------
DATA_ALPHA = [0x00, 0xFF, 0x55, 0xAA, 0x01, 0x80, 0x0F, 0xD2]


def mux_traces(t, rng, tier):
    p = t.params
    n = 20 if tier == "quick" else 100
    out = []
    for _ in range(n):
        tr = []
        for _ in range(rng.randint(1, 30)):
            c = {"ready": rng.randrange(2)}
            style = rng.random()
            hot = rng.randrange(p["n"])
            for k in range(p["n"]):
                v = int(k == hot) if style < 0.5 else (0 if style < 0.6 else rng.randrange(2))
                c[f"valid{k}"] = v
                if p["ow"]: c[f"ors{k}"] = rng.randrange(1 << p["ow"]) if (v or rng.random() < 0.3) else 0
                c[f"data{k}"] = rng.randrange(1 << p["dw"])
            tr.append(c)
        out.append(tr)
    return out


def txpath_traces(rng, tier):
    """request-level traces for the stubbed device: disciplined transactions, plus undisciplined noise (overlapping
    requests, receive bytes during transmission) -- the model follows the code on all of them."""
    n = 30 if tier == "quick" else 200
    out = []
    for k in range(n):
        noisy = (k % 3 == 2)
        ready_p = rng.choice([1.0, 0.6, 0.25])
        tr = []

        def cyc(**kw):
            c = dict(ack=0, nak=0, stall=0, dpid=0, valid=0, first=0, last=0, payload=0, rx_valid=0, rx_data=0,
                     line_state=1, connect=1, tx_ready=int(rng.random() < ready_p))
            c.update(kw)
            if noisy and rng.random() < 0.08:
                c[rng.choice(["ack", "nak", "stall", "valid", "rx_valid", "first", "last"])] = 1
                c["rx_data"] = rng.randrange(256)
            tr.append(c)
            return c
        for _ in range(rng.randint(2, 8)):
            for _ in range(rng.randint(0, 4)): cyc()
            r = rng.random()
            if r < 0.35:
                cyc(**{rng.choice(["ack", "nak", "stall"]): 1})
                for _ in range(rng.randint(1, 8)): cyc()
            elif r < 0.5:
                cyc(valid=1, last=1, dpid=rng.randrange(4))       # ZLP request
                for _ in range(rng.randint(4, 16)): cyc()
            else:
                data = [rng.randrange(256) for _ in range(rng.randint(1, 12))]
                dp = rng.randrange(2)
                idx = 0
                guard = 0
                # the producer holds valid from the request until its last byte has been taken (stream.ready = sready)
                # we do not see sready here (open loop): emulate the generator's handshake: PID phase takes until ready,
                # then one byte per ready cycle
                phase = "req"
                while idx < len(data) and guard < 400:
                    guard += 1
                    c = cyc(valid=1, first=int(idx == 0), last=int(idx == len(data) - 1), payload=data[idx], dpid=dp)
                    if phase == "req":
                        phase = "pid"
                    elif phase == "pid":
                        if c["tx_ready"]: phase = "pl"
                    else:
                        if c["tx_ready"]: idx += 1
                for _ in range(rng.randint(3, 12)): cyc()
        out.append(tr)
    return out


# ---- host scripts for the complete device -------------------------------------------------------------------------
def device_script(rng, mps, prod, flavour):
    """Returns an async script(h).  Mostly legal, protocol-shaped traffic with a realistic share of anomalies a legal
    host can produce (tokens for other devices / missing endpoints, corrupted or truncated packets, missing handshakes)."""
    async def enumerate_(h):
        await h.control_in(0x80, 6, 0x0100, 0, 8, mps=64)
        if rng.random() < 0.7:
            await h.set_address(rng.choice([1, 0x31, 0x7F, 0x55, rng.randrange(1, 128)]))
        await h.control_in(0x80, 6, 0x0100, 0, 18, mps=64)
        await h.control_in(0x80, 6, 0x0200, 0, rng.choice([9, 32, 255]), mps=64)
        if rng.random() < 0.5:
            await h.control_in(0x80, 6, 0x0300 + rng.randrange(4), 0x0409, 255, mps=64)
        await h.control_out(0x00, 9, 1)

    async def one(h):
        r = rng.random()
        if r < 0.12:
            await h.control_in(0x80, 6, rng.choice([0x0100, 0x0200, 0x0300, 0x0301, 0x0600, 0x0F00]), 0,
                               rng.choice([1, 8, 9, 18, 64, 255]), mps=64)
        elif r < 0.18:
            await h.control_in(rng.choice([0x80, 0xC0, 0xA1]), rng.choice([0, 8, 10, 0x21, 0x42]), rng.randrange(4), 0, rng.choice([1, 2, 8]), mps=64)
        elif r < 0.24:
            await h.control_out(rng.choice([0x00, 0x21, 0x40, 0x02]), rng.choice([1, 3, 9, 0x20, 0x22, 0x77]), rng.randrange(3), rng.choice([0, 0x81, 1]),
                                [rng.randrange(256) for _ in range(rng.choice([0, 0, 7, 3]))], mps=64)
        elif r < 0.30:
            await h.set_address(rng.randrange(1, 128))
        elif r < 0.50:
            if rng.random() < 0.7:
                prod.push([rng.randrange(256) for _ in range(rng.choice([1, 3, mps - 1, mps, mps + 1, 2 * mps, rng.randint(1, 3 * mps)]))])
            for _ in range(rng.randint(1, 4)):
                p = await h.in_txn(1, handshake=(None if rng.random() < 0.1 else PID_ACK))
        elif r < 0.68:
            pid = rng.choice([PID_DATA0, PID_DATA1])
            for _ in range(rng.randint(1, 3)):
                pl = [rng.randrange(256) for _ in range(rng.choice([0, 1, mps - 1, mps, rng.randint(0, mps)]))]
                res = await h.out_txn(1, pl, data_pid=pid, corrupt=(rng.random() < 0.12))
                if res == ('hs', PID_ACK):
                    pid = PID_DATA1 if pid == PID_DATA0 else PID_DATA0
        elif r < 0.76:
            await h.in_txn(2)
        elif r < 0.80:
            await h.send_packet(sof_bytes(rng.randrange(2048)))
        elif r < 0.84:      # token for another device / a missing endpoint: the device must stay silent
            if rng.random() < 0.5:
                await h.in_txn(rng.choice([1, 0, 2]), addr=(h.address + rng.randrange(1, 127)) % 128)
            else:
                await h.in_txn(rng.choice([5, 9, 15]))
        elif r < 0.87:      # OUT data for another device
            await h.out_txn(1, [1, 2, 3], addr=(h.address + 1) % 128)
        elif r < 0.90:      # damaged token (CRC5 / truncated / overlong)
            bs = token_bytes(rng.choice([PID_IN, PID_OUT, PID_SETUP]), h.address, rng.choice([0, 1, 2]))
            k = rng.random()
            if k < 0.4: bs[2] ^= 1 << rng.randrange(3, 8)
            elif k < 0.7: bs = bs[:rng.randint(1, 2)]
            else: bs = bs + [rng.randrange(256)]
            await h.send_packet(bs)
            await h.wait_response()
        elif r < 0.93:      # stray handshake
            await h.send_packet([pid_byte(rng.choice([PID_ACK, PID_NAK, PID_STALL]))])
            await h.wait_response()
        elif r < 0.96:      # OUT token that is never followed by data, then something else
            await h.token(PID_OUT, rng.choice([0, 1]))
            await h.wait_response()
        elif r < 0.98:      # PING (full speed device: not expected to answer on most endpoints)
            await h.token(PID_PING, rng.choice([0, 1]))
            await h.wait_response()
        else:
            await h.idle(rng.randint(1, 40))

    async def own_out(h):
        """own bulk OUT traffic: afterwards the last token addressed to this device is an OUT to a bulk OUT endpoint"""
        pl = [rng.randrange(256) for _ in range(rng.choice([0, 1, mps - 1, mps]))]
        res = await h.out_txn(1, pl, data_pid=h.own_out_pid)
        if res == ('hs', PID_ACK):
            h.own_out_pid = PID_DATA1 if h.own_out_pid == PID_DATA0 else PID_DATA0

    async def script(h):
        h.own_out_pid = PID_DATA0
        if flavour != "foreign" and rng.random() < 0.6:
            h.interlude = interlude_of(rng, prod, mps, None)     # other endpoints are served between control stages
        await h.idle(rng.randint(2, 6))
        if flavour in ("enum", "foreign") or rng.random() < 0.5:
            await enumerate_(h)
        for _ in range(rng.randint(6, 14)):
            if flavour == "foreign":
                # a second (third, ...) device shares the bus: its transactions are interleaved with ours, preferably right
                # after own OUT / SETUP / IN traffic, with SOFs in between
                r = rng.random()
                if r < 0.45: await own_out(h)
                elif r < 0.6: await one(h)
                elif r < 0.7:
                    prod.push([rng.randrange(256) for _ in range(rng.randint(1, mps))])
                    await h.in_txn(1)
                for _ in range(rng.randint(1, 3)):
                    if rng.random() < 0.25:
                        await h.send_packet(sof_bytes(rng.randrange(2048)))
                    await foreign_traffic(h, rng, mps)
            else:
                await one(h)
                if rng.random() < 0.15:
                    await foreign_traffic(h, rng, mps)
            await h.idle(rng.randint(0, 6))
        await h.idle(PATIENCE + 10)
    return script


async def other_endpoint_txn(h, rng, prod, mps, kind):
    """one transaction on an endpoint other than the control endpoint, of a chosen kind / readiness"""
    if kind == "in_empty":          # bulk IN with nothing to send: NAK (handshake generator)
        await h.in_txn(1)
    elif kind == "in_data":         # bulk IN with a packet ready: data (data transmitter)
        prod.push([rng.randrange(256) for _ in range(rng.choice([1, 3, mps]))])
        await h.idle(mps + 8)
        await h.in_txn(1)
    elif kind == "out_room":        # bulk OUT with room: ACK
        old, h.out_ready_p = h.out_ready_p, 1.0
        await h.idle(2 * mps)
        res = await h.out_txn(1, [rng.randrange(256) for _ in range(rng.choice([0, 1, 3]))], data_pid=h.own_out_pid)
        if res == ('hs', PID_ACK):
            h.own_out_pid = PID_DATA1 if h.own_out_pid == PID_DATA0 else PID_DATA0
        h.out_ready_p = old
    elif kind == "out_full":        # bulk OUT whose buffer is full (consumer stalled): NAK
        old, h.out_ready_p = h.out_ready_p, 0.0
        for _ in range(4):
            res = await h.out_txn(1, [rng.randrange(256) for _ in range(mps)], data_pid=h.own_out_pid)
            if res == ('hs', PID_ACK):
                h.own_out_pid = PID_DATA1 if h.own_out_pid == PID_DATA0 else PID_DATA0
            else:
                break
        h.out_ready_p = old
    elif kind == "ping":
        await h.token(PID_PING, rng.choice([1, 0]))
        await h.wait_response()
    elif kind == "in_status":       # the status / interrupt IN endpoint: data
        await h.in_txn(2)
    else:
        await h.send_packet(sof_bytes(rng.randrange(2048)))


OTHER_KINDS = ["in_empty", "in_data", "out_room", "out_full", "ping", "in_status", "sof"]


def interlude_of(rng, prod, mps, kinds):
    """interlude for HostSim.control_in/out: between the stages of a control transfer the host serves other endpoints"""
    async def f(h, where):
        for kind in (kinds if kinds is not None else [rng.choice(OTHER_KINDS) for _ in range(rng.randint(0, 2))]):
            await other_endpoint_txn(h, rng, prod, mps, kind)
    return f


def directed_interleave(prod, mps, rng):
    """Directed history (seeded/C20_3): between the SETUP stage and the status stage of no-data control requests, and between the
    stages of requests with a data stage, the host polls the other endpoints in every readiness: bulk IN empty (NAK) and with data,
    bulk OUT with room (ACK) and full (NAK), PING, the status IN endpoint.  Nothing but the addressed endpoint may answer, with ONE
    packet: two transmitters driving at once show up as a malformed packet / two source lines."""
    async def script(h):
        h.own_out_pid = PID_DATA0
        await h.idle(4)

        async def req(name):
            if name == "set_address": return await h.set_address(rng.choice([5, 0x2A, 0x7E]))
            if name == "set_config": return await h.control_out(0x00, 9, rng.choice([0, 1]))
            if name == "clear_in": return await h.control_out(0x02, 1, 0, 0x81)
            if name == "clear_out":
                r = await h.control_out(0x02, 1, 0, 0x01)
                if r == 'ok': h.own_out_pid = PID_DATA0
                return r
            if name == "get_desc": return await h.control_in(0x80, 6, 0x0100, 0, 18, mps=64)
            if name == "get_status": return await h.control_in(0x80, 0, 0, 0, 2, mps=64)
            if name == "get_config": return await h.control_in(0x80, 8, 0, 0, 1, mps=64)
        plan = [("set_address", "in_empty"), ("set_config", "in_empty"), ("clear_in", "in_empty"), ("get_desc", "in_empty"),
                ("set_config", "ping"), ("clear_out", "in_status"), ("set_address", "out_room"), ("get_status", "out_room"),
                ("set_config", "in_data"), ("get_desc", "in_data"), ("clear_in", "sof"),
                ("set_config", "out_full"), ("get_config", "out_full"), ("set_address", "in_status")]
        for name, kind in plan:
            h.interlude = interlude_of(rng, prod, mps, [kind])
            await req(name)
            await h.idle(rng.randint(1, 4))
        h.interlude = None
        h.out_ready_p = 1.0
        await h.idle(PATIENCE + 4 * mps)
    return script


def foreign_address(h, rng):
    """an address that is not the device's current one: address 0 (a freshly attached device being enumerated) once the device
    has left it, neighbours in every bit, random ones"""
    cands = [0, 0, h.address ^ 1, h.address ^ 0x40, (h.address + 1) % 128, 0x7F, rng.randrange(128), rng.randrange(128)]
    cands = [a for a in cands if a != h.address]
    return rng.choice(cands)


async def foreign_traffic(h, rng, mps):
    kind = rng.choice(["out", "out", "out", "setup", "setup", "in", "in", "in_hs", "ping", "token"])
    ep = 0 if kind == "setup" else rng.choice([0, 1, 1, 1, 2, rng.randrange(16)])
    if kind == "setup":
        pl = [rng.choice([0x80, 0x00, 0x21]), rng.choice([6, 5, 9, 0x20]), rng.randrange(256), rng.randrange(4), 0, 0, rng.choice([0, 8, 18, 64]), 0]
    else:
        pl = [rng.randrange(256) for _ in range(rng.choice([0, 1, 3, mps, rng.randint(0, mps)]))]
    hs = rng.choice([PID_ACK, PID_ACK, PID_NAK, PID_STALL, None])
    return await h.foreign_txn(kind, foreign_address(h, rng), ep=ep, payload=pl, data_pid=rng.choice([PID_DATA0, PID_DATA1]),
                               hs=hs, quick=(rng.random() < 0.7))


def directed_foreign(prod, mps, set_addr):
    """Directed history with a second device on the bus (seeded/C20_2): after own bulk OUT traffic, every kind of transaction
    addressed elsewhere -- OUT + DATA0/DATA1, SETUP + DATA0 to address 0 (a fresh device being enumerated), IN answered by the
    other device's data / NAK, PING, a lone OUT token -- with SOFs and own OUT / IN / SETUP traffic in between."""
    async def script(h):
        await h.idle(4)
        if set_addr:
            await h.set_address(5)
        other = 9
        await h.out_txn(1, [1, 2, 3], data_pid=PID_DATA0)                                          # own OUT: ACK
        await h.foreign_txn("out", other, ep=1, payload=[4, 5, 6], data_pid=PID_DATA1, hs=None, quick=False)
        await h.send_packet(sof_bytes(0x123))
        await h.out_txn(1, [7], data_pid=PID_DATA1)                                                # own OUT again
        await h.foreign_txn("out", other, ep=1, payload=[8, 9], data_pid=PID_DATA1, hs=PID_ACK)    # toggle the device would skip
        await h.out_txn(1, [10], data_pid=PID_DATA0)
        await h.foreign_txn("out", other, ep=1, payload=[11], data_pid=PID_DATA1, hs=PID_NAK)      # toggle the device would accept
        await h.out_txn(1, list(range(mps)), data_pid=PID_DATA1)
        await h.foreign_txn("setup", 0 if set_addr else 0x2A, ep=0, payload=[0x80, 6, 0, 1, 0, 0, 8, 0], data_pid=PID_DATA0, hs=PID_ACK)
        await h.out_txn(1, [12], data_pid=PID_DATA0)
        await h.foreign_txn("in", other, ep=1, payload=[0x55, 0xAA], data_pid=PID_DATA0, hs=PID_ACK)  # the other device's data follows its token
        await h.send_packet(sof_bytes(0x124))
        await h.out_txn(1, [13], data_pid=PID_DATA1)
        await h.foreign_txn("in_hs", other, ep=2, hs=PID_NAK)
        await h.foreign_txn("ping", other, ep=1, hs=PID_ACK)
        await h.foreign_txn("token", other, ep=1)
        prod.push([0x31, 0x32, 0x33])
        await h.idle(8)
        await h.in_txn(1)                                                                          # own IN: data
        await h.foreign_txn("in", other, ep=1, payload=[], data_pid=PID_DATA1, hs=PID_ACK)
        await h.foreign_txn("out", 0x7F, ep=1, payload=[14], data_pid=PID_DATA0, hs=PID_ACK)
        r = await h.setup(0x80, 6, 0x0100, 0, 8)                                                   # own SETUP: ACK
        await h.foreign_txn("out", other, ep=0, payload=[], data_pid=PID_DATA1, hs=PID_ACK)        # looks like a status stage, not ours
        await h.foreign_txn("in", other, ep=0, payload=[18, 1], data_pid=PID_DATA1, hs=PID_ACK)
        await h.in_txn(0)                                                                          # our data stage goes on
        await h.idle(PATIENCE + 10)
    return script


def device_traces(t, rng, tier):
    mps = t.params["mps"]
    n = 8 if tier == "quick" else 16
    out = []
    # directed histories with other devices on the bus, shortest first (so that a violation is reported on a short trace)
    for set_addr in (True, False):
        sub = random.Random(rng.getrandbits(32))
        prod = StreamProducer(sub)
        h = HostSim(t.build, sub, const=dict(line_state=1, connect=1, status=0x1234), ready_p=1.0, timeout=PATIENCE + 8, gap=3, in_stream=prod)
        h.run(directed_foreign(prod, mps, set_addr))
        out.append(h.trace)
    for ready_p in (1.0, 0.5, 0.25):
        sub = random.Random(rng.getrandbits(32))
        prod = StreamProducer(sub)
        h = HostSim(t.build, sub, const=dict(line_state=1, connect=1, status=0x4321), ready_p=ready_p, timeout=PATIENCE + 8, gap=3, in_stream=prod)
        h.run(directed_interleave(prod, mps, sub))
        out.append(h.trace)
    for k in range(n):
        sub = random.Random(rng.getrandbits(32))
        prod = StreamProducer(sub, gap_p=sub.choice([0.0, 0.3]))
        h = HostSim(t.build, sub, const=dict(line_state=1, connect=1, status=sub.randrange(1 << 16)),
                    ready_p=sub.choice([1.0, 1.0, 0.6, 0.3]), first_valid=(k % 4 == 1), byte_gap=sub.choice([0, 0, 1, (0, 3)]),
                    timeout=PATIENCE + 8, gap=sub.choice([2, 3, 6]), in_stream=prod, out_ready_p=sub.choice([1.0, 0.5, 0.1]))
        h.run(device_script(sub, mps, prod, "enum" if k % 4 == 0 else ("foreign" if k % 4 in (1, 3) else "mixed")))
        out.append(h.trace)
    # illegal-host traces: a data packet without a token (the device ACKs it as if it belonged to its previous OUT
    # token, see findings/C20-note-stray-data-packet-acked.json) / the host talks over the device's answer; the observer
    # must not judge them (None), and nothing after the violation is checked
    sub = random.Random(rng.getrandbits(32))
    h = HostSim(t.build, sub, const=dict(line_state=1, connect=1, status=7), ready_p=1.0, timeout=PATIENCE + 8, gap=3)

    async def stray(h):
        await h.idle(4)
        await h.out_txn(1, [1, 2, 3], data_pid=PID_DATA0)
        await h.send_packet(data_bytes(PID_DATA1, [4, 5, 6]))
        await h.wait_response()
        await h.idle(5)
    h.run(stray)
    out.append(h.trace)
    sub = random.Random(rng.getrandbits(32))
    h = HostSim(t.build, sub, const=dict(line_state=1, connect=1, status=7), ready_p=0.3, timeout=PATIENCE + 8, gap=3)

    async def rude(h):
        await h.idle(4)
        await h.token(PID_SETUP, 0)
        await h.idle(2)
        await h.send_packet(data_bytes(PID_DATA0, [0x80, 6, 0, 1, 0, 0, 8, 0]))
        await h.idle(3)
        h.gap = 0; h._last_tx_end = -10 ** 9; h._devpkt = None
        for _ in range(3):
            await h.cycle(rx_active=1, rx_valid=1, rx_data=0x69)
        await h.idle(20)
    h.run(rude)
    out.append(h.trace)
    return out


def traces(target, rng, tier):
    if target.kind in ("mux", "utmimux"):
        return mux_traces(target, rng, tier)
    if target.kind == "txpath":
        return txpath_traces(rng, tier)
    return device_traces(target, rng, tier)


# ---- obligations -----------------------------------------------------------------------------------------------
def utmi_alphabet():
    """all 8 valid patterns x ready x data bytes of the three sources from a set that drives every data bit both ways;
    to keep the product small the three sources take (a, b, c) from `triples` rather than the full cube"""
    A = DATA_ALPHA
    triples = [(a, b, c) for a in A[:4] for b in A[:4] for c in A[:4]] + [(A[k], A[(k + 3) % 8], A[(k + 5) % 8]) for k in range(8)]
    words = []
    for (a, b, c) in triples:
        for v in range(8):
            for r in range(2):
                w = 0; pos = 0
                for k, dat in enumerate((a, b, c)):
                    w |= ((v >> k) & 1) << pos; pos += 1
                    w |= dat << pos; pos += 8
                w |= r << pos
                words.append(w)
    return "[" + "; ".join(str(w) for w in sorted(set(words))) + "]"


def obligations(targets, tier):
    obs = []
    for t in targets:
        if t.kind == "mux":
            p = t.params
            k = p["n"] * (1 + p["ow"] + p["dw"]) + 1
            obs.append(tie.rlock(
                f"ob_{t.name}", t, St="unit", mstep=f"ohm_mstep {p['n']} {p['ow']} {p['dw']}", enc="ohm_enc", dec="ohm_dec",
                wf="(fun _ => True)", dec_enc="(fun s _ => match s with tt => eq_refl end)", wf_step="(fun _ _ _ => I)",
                m0="tt", wf_m0="exact I.", alpha_bits=k, fuel=10,
                describe=f"OneHotMultiplexer with {p['n']} sources ({p['ow']} or-signal bits, {p['dw']} data bits) == Encoder-selector "
                         f"model, all {1 << k} input words (any overlap of valids included)"))
        elif t.kind == "utmimux":
            obs.append(tie_explicit.rlock_alpha(
                "ob_utmi_mux3", t, St="unit", mstep="ohm_mstep 3 0 8", enc="ohm_enc", dec="ohm_dec",
                wf="(fun _ => True)", dec_enc="(fun s _ => match s with tt => eq_refl end)", wf_step="(fun _ _ _ => I)",
                m0="tt", wf_m0="exact I.", alphabet=utmi_alphabet(), fuel=10,
                describe="UTMIInterfaceMultiplexer with USBDevice's three sources == Encoder-selector model: all valid/ready patterns, "
                         "data bytes from a bit-covering set"))
            obs.append(tie.corr("corr_utmi_mux3", t, mstep="ohm_mstep 3 0 8", m0="tt",
                                describe="UTMIInterfaceMultiplexer vs model on random full-range data"))
        elif t.kind == "txpath":
            obs.append(tie.corr("corr_txpath", t, mstep="txp_step", m0="txp_init", norm="txp_maskN",
                                describe="transmit path of the real USBDevice (stub endpoint; generators + CRC unit + multiplexer as wired "
                                         "by device.py) vs the composite model txp_step, disciplined and undisciplined request traces"))
        else:
            obs.append(tie.cmon(f"wire_{t.name}", t, mon=f"(c20_wire_mon {PATIENCE})", m0="(w_enc w_init)",
                                describe="specification observer over the complete USBDevice driven over UTMI by host scripts: every tx_valid run "
                                         "is one well-formed handshake / data packet with correct CRC16, from one source, solicited, never during rx_active"))
            obs.append(tie.cmon(f"disc_{t.name}", t, mon="c20_disc_mon", m0="(txq_enc txq_init)",
                                describe="the device's internal request lines respect the request discipline txq_env and, replayed through the "
                                         "transmit-path specification, reproduce tx_valid / tx_data / stream.ready / source lines"))
    return obs


def tie_theorems(targets, tier):
    s = ""
    for t in targets:
        if t.kind != "mux":
            continue
        p = t.params
        k = p["n"] * (1 + p["ow"] + p["dw"]) + 1
        s += f"""
Theorem C20_{t.name} : forall tr, Forall (fun i => i < 2 ^ N.of_nat {k}) tr ->
  run {t.modname}.step {t.modname}.init tr = map (fun i => snd (ohm_mstep {p['n']} {p['ow']} {p['dw']} tt i)) tr.
Proof.
  intros tr H. rewrite (ob_{t.name}_T.tie tr H (env_ok_true _ _ _ _)). apply ohm_run_map.
Qed.
"""
    return s


def tie_theorem_names(targets, tier):
    return [f"C20_{t.name}" for t in targets if t.kind == "mux"]


LEVEL_TEXT = ("PARTIAL. Machine-checked proof for the multiplexing and framing part, run-time monitoring for the rest. THEOREMS (hand models, "
              "unbounded traces): (1) OneHotMultiplexer / UTMIInterfaceMultiplexer with any number of sources: if exactly one source is valid the "
              "output is that source (valid, or-signals, data); if none is, the output is idle; if two are, the data lines carry source 0's data whoever "
              "is transmitting (C20_mux_exclusive / _idle / _overlap). (2) USBDevice's transmit path (handshake generator + data generator + shared "
              "CRC16 unit fed from the multiplexer output + chirp source, as wired in device.py): under the request discipline txq_env it equals in "
              "every cycle the bus-owner specification built from the C04/C03 specification machines (C20_txpath_refines); per pair of transmitters "
              "the valid lines are never high together (C20_txpath_exclusive); outside chirping every completed maximal tx_valid run hands the PHY "
              "exactly one packet that is a handshake byte or PID ++ payload ++ CRC16(payload) (C20_txpath_runs_wellformed); the boolean checker "
              "used by the observers decides that predicate (C20_checker_correct). (3) Tie theorems, re-proved each run: the netlists of "
              "OneHotMultiplexer at small widths (all input words) and of the real 3-source UTMIInterfaceMultiplexer (all valid/ready patterns, data from "
              "a bit-covering set) equal the multiplexer model on all traces. MONITORED ONLY (specification observers over simulator runs of the complete "
              "USBDevice -- control + bulk IN/OUT + status endpoints -- driven over UTMI by a closed-loop host-script generator with random tx_ready): "
              "every tx_valid run is a well-formed handshake or data packet with correct CRC16, comes from one source whose valid line is the only one "
              "high, starts only after an IN/PING token or an OUT/SETUP data packet addressed to the device's current address, never overlaps rx_active "
              "(c20_wire_mon); and the endpoints' request lines respect txq_env and, replayed through the transmit-path specification, reproduce the "
              "device's tx lines (c20_disc_mon). The transmit path of the real device with a stub endpoint is compared with the model by correspondence.")
LEVEL_NOTE = ("Not proved: that the endpoints obey the request discipline (mutual exclusion is proved FROM the trigger discipline, the discipline itself "
              "is only observed on simulated runs, where a violation is reported as a failure); that transmissions are solicited; that they never overlap "
              "reception -- these rest on the legal-host hypothesis (host waits for the response or 16 idle cycles) and on the endpoint logic (C07, C11-C13, "
              "C17). The complete device is too large for certified reachability. Full-speed raw-UTMI configuration only: no chirp, no ULPI, no high speed. "
              "Examples in Properties/C20.v show the hypotheses are needed: an ACK requested during a payload byte yields a CRC-correct packet carrying a "
              "byte nobody sent; receive bytes during a data packet corrupt its CRC. Trusted: Coq kernel + vm_compute, Amaranth elaboration, "
              "nir2coq.py/Netlist.v (validated each run against pysim), the host-script generator.")
TECHNIQUE = ("Rocq proof: parametric list induction (multiplexer), simulation relation composing the C03/C04 specification machines under an explicit "
             "request discipline, invariant proof for the run splitter; certified product-reachability for the multiplexer netlists; specification "
             "observers + model correspondence over closed-loop host-script simulations of the complete device")
