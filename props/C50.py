"""C50 -- SPI device word exchange (luna/gateware/interface/spi.py: SPIDeviceInterface)."""
from harness.core import Target
from harness import tie, tie_dep

PID = "C50"
TIE_IMPORTS = "From LunaLib Require Import ReachDep.\nFrom LunaModel Require Import SpiDev SpiDev_proofs.\n"


def b(x):
    return "true" if x else "false"


def cfg_expr(p):
    return (f"{{| ws := {p['ws']}; cpol := {b(p['cpol'])}; cpha := {b(p['cpha'])}; msb := {b(p['msb'])}; "
            f"csh := {b(p['csh'])} |}}")


def mk(ws, cpol, cpha, msb, csh, big=False):
    def build():
        from luna.gateware.interface.spi import SPIDeviceInterface
        d = SPIDeviceInterface(word_size=ws, clock_polarity=cpol, clock_phase=cpha, msb_first=bool(msb),
                               cs_idles_high=bool(csh))
        return d, [("sck", d.spi.sck), ("sdi", d.spi.sdi), ("cs", d.spi.cs), ("word_out", d.word_out)], \
                  [("word_in", d.word_in), ("word_complete", d.word_complete), ("word_accepted", d.word_accepted),
                   ("sdo", d.spi.sdo)]
    t = Target(f"spidev_w{ws}_{cpol}{cpha}{msb}{csh}", build)
    t.params = dict(ws=ws, cpol=cpol, cpha=cpha, msb=msb, csh=csh, big=big)
    return t


# word_out values used by the reduced-alphabet ties at word_size 3 (101b, 010b, 110b)
W3 = [5, 2, 6]


def targets(tier):
    """small: (ws, cpol, cpha, msb_first, cs_idles_high, full_alphabet)"""
    small = [(3, 0, 0, 1, 0, False), (3, 1, 1, 0, 1, False), (2, 0, 1, 1, 0, True)]
    big = [(3, 0, 1, 1, 0), (8, 0, 0, 1, 0), (16, 1, 1, 1, 0), (5, 1, 0, 0, 1)]
    if tier != "quick":
        small = [(3, 0, 0, 1, 0, True), (3, 0, 1, 1, 0, True), (3, 1, 1, 0, 1, True), (3, 1, 0, 1, 0, True),
                 (3, 0, 0, 0, 0, False), (3, 0, 1, 0, 1, False), (3, 1, 0, 0, 1, False), (3, 1, 1, 1, 1, False),
                 (2, 0, 1, 1, 0, True), (2, 1, 0, 0, 1, True), (1, 0, 1, 1, 0, True), (1, 0, 0, 0, 0, True)]
        big = [(8, 0, 0, 1, 0), (12, 0, 1, 1, 0), (16, 1, 1, 1, 0), (5, 1, 0, 0, 1),
               (7, 0, 1, 0, 0), (16, 0, 0, 1, 0), (24, 0, 1, 1, 0), (32, 1, 0, 1, 1), (9, 1, 1, 1, 0), (6, 0, 0, 0, 0),
               (4, 0, 0, 1, 0), (3, 0, 0, 1, 1), (3, 1, 1, 1, 0)]
    ts = []
    for (ws, cp, ch, m, cs, full) in small:
        t = mk(ws, cp, ch, m, cs)
        t.params["full"] = full
        ts.append(t)
    for c in big:
        t = mk(*c, big=True)
        t.name += "_c"; t.params["full"] = False
        ts.append(t)
    return ts


def traces(target, rng, tier):
    """SPI transactions: CS active, 0..3 words (+ a partial one), SCK toggling with random half periods (>= 1 cycle),
    sometimes CS dropped mid-word, sometimes CS raised while SCK is already high; plus fully random streams."""
    p = target.params
    ws = p["ws"]
    n = 14 if tier == "quick" else 50
    active = 0 if p["csh"] else 1
    idle_clk = p["cpol"]
    out = []
    for k in range(n):
        tr = []
        if rng.random() < 0.15:
            for _ in range(rng.randint(5, 30 + 6 * ws)):
                tr.append(dict(sck=rng.getrandbits(1), sdi=rng.getrandbits(1),
                               cs=active if rng.random() < 0.85 else 1 - active, word_out=rng.getrandbits(ws)))
            out.append(tr)
            continue
        sck = idle_clk
        for tx in range(rng.randint(1, 3)):
            wout = rng.getrandbits(ws)
            for _ in range(rng.randint(1, 3)):
                tr.append(dict(sck=sck, sdi=0, cs=1 - active, word_out=wout))
            if rng.random() < 0.2:
                sck = 1 - sck      # chip select arrives while the clock is not at its idle level
            nbits = ws * rng.randint(0, 3) + rng.choice([0, 0, 0, 1, ws - 1, ws // 2])
            hp = rng.choice([1, 1, 2, 3])
            for _ in range(rng.randint(1, 2)):
                tr.append(dict(sck=sck, sdi=rng.getrandbits(1), cs=active, word_out=wout))
            for bit in range(nbits):
                sdi = rng.getrandbits(1)
                if rng.random() < 0.3:
                    wout = rng.getrandbits(ws)
                for half in range(2):
                    sck = 1 - sck
                    for _ in range(hp if rng.random() < 0.8 else rng.randint(1, 4)):
                        tr.append(dict(sck=sck, sdi=sdi if rng.random() < 0.9 else 1 - sdi, cs=active, word_out=wout))
            for _ in range(rng.randint(0, 3)):
                tr.append(dict(sck=sck, sdi=0, cs=active, word_out=wout))
        for _ in range(3):
            tr.append(dict(sck=sck, sdi=0, cs=1 - active, word_out=0))
        out.append(tr)
    return out


def alphabet(p):
    """reduced alphabet: every sck/sdi/cs combination, word_out from W3"""
    return "[" + "; ".join(str(x + 8 * w) for w in W3 for x in range(8)) + "]"


def obligations(targets, tier):
    obs = []
    for t in targets:
        p = t.params
        c = cfg_expr(p)
        common = dict(St="d_state", mstep=f"d_step true ({c})", enc=f"d_enc ({c})", dec=f"d_dec ({c})",
                      wf=f"d_wf ({c})", dec_enc=f"d_dec_enc ({c})", wf_step=f"d_wf_step true ({c}) eq_refl",
                      m0=f"d_init ({c})", wf_m0=f"exact (d_wf_init ({c})).", fuel=100000)
        mode = f"word_size={p['ws']}, clock_polarity={p['cpol']}, clock_phase={p['cpha']}, msb_first={bool(p['msb'])}, cs_idles_high={bool(p['csh'])}"
        if p["big"]:
            obs.append(tie.corr(f"corr_{t.name}", t, mstep=f"d_step true ({c})", m0=f"d_init ({c})",
                                describe=f"model (bit counter restarting per word) vs Amaranth simulator: {mode}"))
        elif p["full"]:
            obs.append(tie.rlock(f"ob_{t.name}", t, alpha_bits=3 + p["ws"], **common,
                                 describe=f"SPIDeviceInterface({mode}) == model with the bit counter restarting per word, "
                                          f"every sck/sdi/cs/word_out trace"))
        else:
            obs.append(tie_dep.rlock_dep(f"ob_{t.name}", t, alpha=f"(fun _ => {alphabet(p)})", **common,
                                         describe=f"SPIDeviceInterface({mode}) == model with the bit counter restarting per word, "
                                                  f"every sck/sdi/cs trace with word_out in {W3}"))
    return obs


def tie_theorems(targets, tier):
    s = ""
    for t in targets:
        p = t.params
        if p["big"]:
            continue
        c = cfg_expr(p); G = t.modname
        if p["full"]:
            s += f"""
Theorem C50_{t.name} : forall tr, Forall (fun i => i < 2 ^ N.of_nat {3 + p['ws']}) tr ->
  run {G}.step {G}.init tr = run (sp_step ({c})) (sp_init ({c})) tr.
Proof. intros tr H. rewrite (ob_{t.name}_T.tie tr H (env_ok_true _ _ _ _)). apply spidev_from_reset. cbn [ws]. lia. Qed.
"""
        else:
            s += f"""
Theorem C50_{t.name} : forall tr,
  alpha_ok d_state (d_step true ({c})) (fun _ => {alphabet(p)}) (d_init ({c})) tr = true ->
  run {G}.step {G}.init tr = run (sp_step ({c})) (sp_init ({c})) tr.
Proof. intros tr H. rewrite (ob_{t.name}_T.tie tr H). apply spidev_from_reset. cbn [ws]. lia. Qed.
"""
    return s


def tie_theorem_names(targets, tier):
    return [f"C50_{t.name}" for t in targets if not t.params["big"]]


ASSUMPTIONS = [
    "environment: none for the receive side and for model = specification (any sck/sdi/cs/word_out history, including glitches, "
    "chip select changing mid-word and chip select arriving while the clock is away from its idle level)",
    "transmit-order theorem C50_tx_in_order: clock phase 1, and the transaction is entered from an unselected cycle with the clock at "
    "its idle level (otherwise the first output edge is missing and the host samples stale data -- also true of the code)",
    "in clock phase 0 the first bit of a word is NOT on sdo before the first sample edge (sdo only changes on output edges); the "
    "property text restricts the transmit claim to modes where data changes on the leading edge, and so does the theorem",
    "R tie configurations: word_size 3 (not a power of two) in modes (cpol,cpha,msb_first,cs_idles_high) = (0,0,1,0) and (1,1,0,1) with "
    "word_out in {5,2,6} and every sck/sdi/cs combination, word_size 2 mode (0,1,1,0) with the complete alphabet; thorough tier: word_size 3 "
    "complete alphabet in four modes, reduced alphabet in four more, word_size 1 and 2 complete alphabet",
    "correspondence (simulator vs model) at word sizes 3, 5, 8, 12, 16 (thorough: also 4, 6, 7, 9, 24, 32) in assorted modes",
    "the model is the property-satisfying behaviour (bit counter restarts with every word). The original SPIDeviceInterface only "
    "cleared bit_count with chip select, so on a tree without the repair (e.g. /repo before commit 27f14f6) this check reports a "
    "VIOLATION for every word size that is not a power of two; the repair is findings/C50-bitcount-not-reset-per-word.diff "
    "(applied to /repo as commit 27f14f6), with which the check passes",
]
LEVEL_TEXT = (
    "Machine-checked proof. (1) For every word size >= 1, clock polarity/phase, bit order, chip-select polarity and every pin history, "
    "the model of SPIDeviceInterface (edge detector, bit counter with its real width restarting per word, rx/tx shift registers, "
    "word_accepted/word_complete pipeline as in spi.py) has exactly the outputs of the specification: every word_size-th sample edge under "
    "chip select completes a word -- for every word of the transaction -- which is reported once, two cycles later, in the configured bit "
    "order (C50_spidev_refines; C50_count, C50_report). In clock phase 1, in a transaction entered with the clock idle, at every sample "
    "edge sdo carries the next bit of the word latched from word_out, most significant first when msb_first (C50_tx_in_order, "
    "C50_tx_msb_first). (2) The behaviour of the original code (bit counter cleared only by chip select) is refuted against the same "
    "specification at word_size 3 (C50_asis_refuted). (3) For each tie configuration the netlist regenerated from the tree is proved "
    "equal to the model by a kernel-checked closure of the product state space, giving netlist = specification (C50_<cfg>); on a tree "
    "without the repair the search returns a counterexample that is replayed on Amaranth's simulator.")
LEVEL_NOTE = (
    "Trusted: Coq kernel + vm_compute, Amaranth elaboration to NIR, nir2coq.py/Netlist.v (validated each run against Amaranth's simulator). "
    "DEFECT FOUND: the original /repo code violated the property for word sizes that are not powers of two (second and later words of a "
    "transaction complete after 2^ceil(log2(ws)) instead of ws sample edges); simulator-confirmed replay "
    "findings/C50-bitcount-not-reset-per-word.json, one-line repair findings/C50-bitcount-not-reset-per-word.diff, now in /repo as commit "
    "27f14f6. The check exits 1 on the parent of that commit and 0 on the repaired tree. The netlist tie is per configuration; the quick "
    "tier restricts word_out to three values at word_size 3 (all sck/sdi/cs behaviours), the thorough tier uses the complete alphabet. "
    "Larger word sizes rest on the parametric model theorem plus correspondence runs.")
TECHNIQUE = ("Rocq proof: simulation relation to a bit-collecting specification (all word sizes and modes) + refutation witness for the "
             "original behaviour + certified product-reachability against the netlist regenerated from source + simulator correspondence")
