"""C39 -- header transmission respects credits and retransmits unacknowledged headers
(luna/gateware/usb/usb3/link/transmitter.py: PacketTransmitter)."""
import threading

from harness import tie
from harness.tie_explicit import rlock_alpha
from harness.nir_split import SplitTarget

PID = "C39"
ASSUMPTIONS = [
    "scope: enable high, or low while the transmitter is quiescent (raw transmitter idle, every accepted header transmitted, no LBAD backlog): a link-down cycle forgets the session (bring-up, credits, unacknowledged headers, pointers) and the partner advertises again; partner link commands are observed as the decoded events (new_command, command, subtype) of LinkCommandDetector "
    "(its decoding is C35's subject), in any order and with any subtypes; header-queue and raw-transmitter timing are free",
    "partner's side (monitor returns None = vacuous from the first violation on): it never advertises more credits than it has buffers "
    "(unused credits + unacknowledged headers < n when an in-order LCRD arrives) and it acknowledges only headers transmitted since its last LBAD",
    "RawPacketTransmitter is abstracted to: idle -> latches `header` in the first cycle `generate` is high -> busy -> raises `done` in one later cycle "
    "(its wire format is C36's subject); 'transmits a header' = that latch event",
    "after an LBAD every transmission carries DL until the backlog is drained, including headers accepted meanwhile (the property text allows that); "
    "a transmission already on its way when the LBAD arrives is not counted as one of the retransmissions",
    "sequence numbers: sw <= 3 (the header field has 3 bits); buffer count n = 2^pw; the 5 ms credit timer is modelled (recovery_required) but only "
    "'mismatch => recovery_required' is part of the specification",
    "R ties: PacketTransmitter's own elaborate() with buffer_count 1 (quick) / 1, 2 (thorough), SEQUENCE_NUMBER_WIDTH via subclass attribute, 5-bit headers "
    "(payload bit, sequence_number, delayed), stub detector (free inputs) and the two-state raw-transmitter abstraction; explicit input alphabet (see stub_alphabet). "
    "The unmodified PacketTransmitter(4) with real detector / raw transmitter (headers without payload): correspondence + specification oracle on closed-loop simulator traces",
]
TIE_IMPORTS = "From LunaModel Require Import Crc HdrRx HdrRx_proofs PktTx PktTx_proofs.\n"

_LOCK = threading.RLock()
LGOOD, LCRD, LRTY, LBAD, LGO_U = 0, 1, 2, 3, 4


def range_width(n):
    return max(n - 1, 0).bit_length()


def mk_stub(n, sw, hw, f_hz):
    """PacketTransmitter's own elaborate() with a shrunk configuration: buffer_count n, SEQUENCE_NUMBER_WIDTH sw,
    headers = (dw0: hw bits, sequence_number: 3, delayed: 1), credit timeout from ss_clock_frequency = f_hz,
    LinkCommandDetector replaced by free inputs (new_command, command, subtype), RawPacketTransmitter replaced by the
    two-state abstraction the model documents (idle: latch on generate; busy: done when `finish`)."""
    def build():
        with _LOCK:
            from amaranth import Elaboratable, Module, Signal
            from amaranth.hdl import Fragment
            from amaranth.hdl.rec import Record
            import luna.gateware.usb.usb3.link.transmitter as T
            import luna.gateware.usb.usb3.link.header as H
            from luna.gateware.usb.stream import USBRawSuperSpeedStream, SuperSpeedStreamInterface

            class NarrowHeader(Record):
                @classmethod
                def get_layout(cls): return [('dw0', hw), ('sequence_number', 3), ('delayed', 1)]
                def __init__(self): super().__init__(self.get_layout(), name="NarrowHeader")

            class NarrowQueue(H.HeaderQueue):
                def __init__(self): super().__init__(header_type=NarrowHeader)

            class StubDet(Elaboratable):
                def __init__(self):
                    self.sink = USBRawSuperSpeedStream()
                    self.new_command = Signal(); self.command = Signal(4); self.subtype = Signal(4)
                def elaborate(self, platform): return Module()

            class StubTx(Elaboratable):
                def __init__(self):
                    self.source = USBRawSuperSpeedStream()
                    self.header = NarrowHeader()
                    self.data_sink = SuperSpeedStreamInterface()
                    self.generate = Signal(); self.done = Signal()
                    self.finish = Signal(); self.start = Signal(); self.busy = Signal()
                def elaborate(self, platform):
                    m = Module()
                    m.d.comb += [self.start.eq(self.generate & ~self.busy), self.done.eq(self.busy & self.finish)]
                    with m.If(self.done):
                        m.d.ss += self.busy.eq(0)
                    with m.Elif(self.generate):
                        m.d.ss += self.busy.eq(1)
                    return m

            det, tx = StubDet(), StubTx()
            saved = (T.RawPacketTransmitter, T.LinkCommandDetector, T.HeaderPacket, T.HeaderQueue)
            T.RawPacketTransmitter = lambda: tx
            T.LinkCommandDetector = lambda: det
            T.HeaderPacket = NarrowHeader
            T.HeaderQueue = NarrowQueue
            try:
                cls = type("PacketTransmitterShrunk", (T.PacketTransmitter,), dict(SEQUENCE_NUMBER_WIDTH=sw))
                d = cls(buffer_count=n, ss_clock_frequency=float(f_hz))
                frag = Fragment.get(d, None)
            finally:
                T.RawPacketTransmitter, T.LinkCommandDetector, T.HeaderPacket, T.HeaderQueue = saved
            qh = d.queue.header
            ins = [("enable", d.enable), ("queue_valid", d.queue.valid), ("q_dw0", qh.dw0), ("q_seq", qh.sequence_number),
                   ("q_delayed", qh.delayed), ("lrty_pending", d.lrty_pending), ("new_command", det.new_command),
                   ("command", det.command), ("subtype", det.subtype), ("finish", tx.finish)]
            outs = [("queue_ready", d.queue.ready), ("generate", tx.generate), ("h_dw0", tx.header.dw0),
                    ("h_seq", tx.header.sequence_number), ("h_delayed", tx.header.delayed), ("start", tx.start),
                    ("done", tx.done), ("retry_required", d.retry_required), ("retry_received", d.retry_received),
                    ("recovery_required", d.recovery_required), ("bringup_complete", d.bringup_complete),
                    ("lgo_received", d.lgo_received), ("lgo_target", d.lgo_target),
                    ("credits_available", d.credits_available), ("packets_to_send", d.packets_to_send)]
            return frag, ins, outs
    t = SplitTarget(f"ptx_stub_n{n}_s{sw}_h{hw}_f{f_hz}", build)
    T_ = int(5e-3 * float(f_hz) + 1)
    t.kind = "stub"
    t.params = dict(n=n, sw=sw, hw=hw, T=T_, tw=range_width(T_ + 1), pw=range_width(n), cw=range_width(n + 1))
    return t


def mk_full(n=4, f_hz=125e6):
    """The unmodified PacketTransmitter (real LinkCommandDetector and RawPacketTransmitter, 128-bit headers).  Traffic is
    restricted to headers without payload (dw0[0:4] != DATA); data_sink is left idle.  Observed besides the module's own
    outputs: packet_tx.generate / header / done and lc_detector.command / subtype (Python attributes of the submodules)."""
    def build():
        with _LOCK:
            from amaranth.hdl import Fragment
            import luna.gateware.usb.usb3.link.transmitter as T
            made = {}
            o_tx, o_det = T.RawPacketTransmitter, T.LinkCommandDetector
            def spy_tx():
                x = o_tx(); made["tx"] = x; return x
            def spy_det():
                x = o_det(); made["det"] = x; return x
            T.RawPacketTransmitter, T.LinkCommandDetector = spy_tx, spy_det
            try:
                d = T.PacketTransmitter(buffer_count=n, ss_clock_frequency=f_hz)
                frag = Fragment.get(d, None)
            finally:
                T.RawPacketTransmitter, T.LinkCommandDetector = o_tx, o_det
            tx, det = made["tx"], made["det"]
            qh = d.queue.header; th = tx.header
            def fields(prefix, h):
                return [(prefix + "dw0", h.dw0), (prefix + "dw1", h.dw1), (prefix + "dw2", h.dw2), (prefix + "crc16", h.crc16),
                        (prefix + "seq", h.sequence_number), (prefix + "rsvd", h.dw3_reserved), (prefix + "hub", h.hub_depth),
                        (prefix + "delayed", h.delayed), (prefix + "deferred", h.deferred), (prefix + "crc5", h.crc5)]
            ins = ([("enable", d.enable), ("queue_valid", d.queue.valid)] + fields("q_", qh) +
                   [("lrty_pending", d.lrty_pending), ("sink_valid", d.sink.valid), ("sink_data", d.sink.data),
                    ("sink_ctrl", d.sink.ctrl), ("source_ready", d.source.ready)])
            outs = ([("queue_ready", d.queue.ready), ("generate", tx.generate)] + fields("h_", th) +
                    [("done", tx.done), ("retry_required", d.retry_required), ("retry_received", d.retry_received),
                     ("recovery_required", d.recovery_required), ("bringup_complete", d.bringup_complete),
                     ("lgo_received", d.lgo_received), ("lgo_target", d.lgo_target),
                     ("credits_available", d.credits_available), ("packets_to_send", d.packets_to_send),
                     ("link_command_received", d.link_command_received), ("det_command", det.command),
                     ("det_subtype", det.subtype)])
            return frag, ins, outs
    t = SplitTarget(f"ptx_full_n{n}", build)
    T_ = int(5e-3 * float(f_hz) + 1)
    t.kind = "full"
    t.params = dict(n=n, sw=3, hw=124, T=T_, tw=range_width(T_ + 1), pw=range_width(n), cw=range_width(n + 1))
    return t


def targets(tier):
    ts = [mk_stub(1, 1, 1, 200), mk_stub(2, 1, 1, 200), mk_full(4)]
    if tier != "quick":
        ts += [mk_stub(2, 2, 1, 200), mk_stub(4, 3, 2, 1000), mk_full(2, 2000.0)]
    return ts


def margs(t):
    p = t.params
    hh = p["hw"] + 4
    return dict(p, hh=hh, sp=p["hw"], dp=p["hw"] + 3,
                full=f"{p['n']} {p['pw']} {p['cw']} {p['sw']} {p['T']} {p['tw']} {p['hw']} {p['hw'] + 3} {hh}")


def stub_word(t, *, enable=1, qvalid=0, dw0=0, qseq=5, qdel=0, lrty=0, new=0, cmd=0, sub=0, finish=0):
    hw = t.params["hw"]
    x = enable | (qvalid << 1) | (dw0 << 2) | (qseq << (2 + hw)) | (qdel << (5 + hw)) | (lrty << (6 + hw))
    x |= (new << (7 + hw)) | (cmd << (8 + hw)) | (sub << (12 + hw)) | (finish << (16 + hw))
    return x


def stub_alphabet(t, tier):
    """Explicit input alphabet of the R obligations: with enable high every combination of queue.valid, one payload bit,
    lrty_pending, finish, with one of the partner events: none, LGOOD s (all s), LCRD k (all k, and one out-of-range
    index), LBAD, LRTY.  (The sequence_number field offered by the protocol layer is 5: it must be overwritten.)"""
    n, sw = t.params["n"], t.params["sw"]
    evs = [(0, 0, 0)] + [(1, LGOOD, s_) for s_ in range(1 << sw)] + [(1, LCRD, k) for k in range(min(n + 1, 16))]
    evs += [(1, LBAD, 0), (1, LRTY, 0)]
    ws = []
    for new, cmd, sub in evs:
        for qv in (0, 1):
            for d0 in ((0, 1) if qv else (0,)):
                for lr in (0, 1):
                    for fin in (0, 1):
                        ws.append(stub_word(t, qvalid=qv, dw0=d0, lrty=lr, new=new, cmd=cmd, sub=sub, finish=fin))
    # link down (enable low): alone, with a header offered, and with a partner event in the same cycle
    for new, cmd, sub in [(0, 0, 0), (1, LGOOD, 0), (1, LCRD, 0), (1, LBAD, 0)]:
        for qv in (0, 1):
            ws.append(stub_word(t, enable=0, qvalid=qv, dw0=qv, new=new, cmd=cmd, sub=sub))
    return "[" + "; ".join(str(w) for w in ws) + "]"


# ---------------------------------------------------------------------------------------------
def stub_traces(target, rng, tier):
    """Closed-loop partner scripts for the stub target: the input traces are produced by simulating the target with a
    link partner that reacts to what it sees (advertisement LGOOD, LCRDs in order as its buffers free up, LGOOD for each
    header whose transmission finished, LBADs -- also during transmissions and retransmissions --, occasional mismatching
    or premature commands), a protocol layer offering headers, and a raw transmitter finishing after random delays.
    Every fifth trace is open-loop with arbitrary command events.  (The harness re-simulates the recorded inputs.)"""
    from amaranth.sim import Simulator
    p = target.params
    n, sw, hw = p["n"], p["sw"], p["hw"]
    N = 30 if tier == "quick" else 150
    elab, ins, outs = target.build()
    insig = dict(ins); outsig = dict(outs)
    sim = Simulator(elab); sim.add_clock(1e-6, domain="ss")
    holder = {}

    async def tb(ctx):
        k = holder["k"]
        wild = (k % 5 == 4)
        L = rng.randint(20, 160)
        p_q = rng.choice([0.1, 0.4, 0.9]); p_fin = rng.choice([0.2, 0.5, 1.0]); p_lbad = rng.choice([0.0, 0.03, 0.1])
        p_off = rng.choice([0.0, 0.0, 0.01]); p_odd = rng.choice([0.0, 0.02])
        adv = rng.randrange(1 << sw)
        up = False; free = n; nextcred = 0
        cmds = []              # (due cycle, cmd, sub)
        tr = []
        # link drops in the middle of a session (every other closed-loop trace): once the transmitter is quiescent
        # (nothing left to send, raw transmitter idle) enable goes low for 1..3 cycles with 0..n headers still
        # unacknowledged; the partner then advertises again and the new session sees LBADs / LRTYs
        drops = sorted(rng.sample(range(L // 4, L), k=min(2, L - L // 4))) if (k % 2 == 0 and not wild) else []
        down = 0; busy = False; hold_acks = 0
        for t in range(L):
            want_drop = bool(drops) and t >= drops[0]
            if want_drop and rng.random() < 0.5:
                hold_acks = 3                       # let some headers stay unacknowledged when the link drops
            quiet = (ctx.get(outsig["packets_to_send"]) == 0) and not busy
            if down == 0 and want_drop and quiet and up:
                down = rng.randint(1, 3); drops.pop(0); p_lbad = rng.choice([0.1, 0.3]); adv = rng.randrange(1 << sw)
            c = dict(enable=0 if down else int(rng.random() >= p_off), queue_valid=int(rng.random() < p_q), q_dw0=rng.getrandbits(hw),
                     q_seq=rng.getrandbits(3), q_delayed=int(rng.random() < 0.1), lrty_pending=int(rng.random() < 0.15),
                     new_command=0, command=0, subtype=0, finish=int(rng.random() < p_fin))
            if wild:
                if rng.random() < 0.3:
                    c.update(new_command=1, command=rng.choice([LGOOD, LGOOD, LCRD, LCRD, LBAD, LRTY, LGO_U, rng.randrange(16)]),
                             subtype=rng.randrange(1 << max(sw, 2)) if rng.random() < 0.8 else rng.randrange(16))
            else:
                if not up and t >= 1:
                    cmds.append((t, LGOOD, adv)); up = True
                elif up and free > 0 and rng.random() < 0.4:
                    cmds.append((t, LCRD, nextcred)); nextcred = (nextcred + 1) % n; free -= 1
                elif up and rng.random() < p_lbad:
                    cmds.append((t, LBAD, 0))
                elif up and rng.random() < 0.04:
                    cmds.append((t, rng.choice([LRTY, LGO_U]), rng.randrange(4)))
                elif up and rng.random() < p_odd:
                    cmds.append((t, rng.choice([LGOOD, LCRD]), rng.randrange(1 << sw)))      # mismatching / premature
                due = [x for x in cmds if x[0] <= t]
                if due and rng.random() < 0.7:
                    x = due[0]; cmds.remove(x)
                    c.update(new_command=1, command=x[1], subtype=x[2])
            for nm, v in c.items():
                ctx.set(insig[nm], v)
            # the partner looks at what is transmitted: a finished transmission of a header is acknowledged later
            if ctx.get(outsig["done"]) and not wild:
                seqn = ctx.get(outsig["h_seq"]) % (1 << sw)
                if rng.random() < 0.85:
                    cmds.append((t + rng.randint(1, 6), LGOOD, seqn)); free_later = True
                    free += 1 if rng.random() < 0.9 else 0
                else:
                    cmds.append((t + rng.randint(1, 6), LBAD, 0))
            if not c["enable"]:
                up = False; free = n; nextcred = 0; cmds = []
            if down:
                down -= 1
            if hold_acks and want_drop:
                cmds = [x for x in cmds if x[1] != LGOOD or not up] if rng.random() < 0.5 else cmds
            busy = (busy or bool(ctx.get(outsig["generate"]))) and not ctx.get(outsig["done"])
            tr.append(c)
            await ctx.tick("ss")
        holder["trace"] = tr

    sim.add_testbench(tb)
    out = []
    for k in range(N):
        holder["k"] = k
        sim.reset(); sim.run()
        out.append(holder["trace"])
    return out


def full_traces(target, rng, tier):
    """Closed-loop partner scripts for the complete PacketTransmitter: link commands arrive as words on the sink
    (LCSTART + command word; occasionally with a corrupted CRC-5 / replica, which the detector must ignore), headers
    without payload are offered on the queue, source.ready stalls.  The partner acknowledges each header whose
    transmission finished (or answers LBAD), frees buffers and re-advertises credits."""
    from amaranth.sim import Simulator
    from props.C37_hdrrx import lc_data, LC_START
    p = target.params
    n = p["n"]
    N = 10 if tier == "quick" else 50
    elab, ins, outs = target.build()
    insig = dict(ins); outsig = dict(outs)
    sim = Simulator(elab); sim.add_clock(1e-6, domain="ss")
    holder = {}
    QF = ["q_dw0", "q_dw1", "q_dw2", "q_crc16", "q_seq", "q_rsvd", "q_hub", "q_delayed", "q_deferred", "q_crc5"]
    QW = dict(q_dw0=32, q_dw1=32, q_dw2=32, q_crc16=16, q_seq=3, q_rsvd=3, q_hub=3, q_delayed=1, q_deferred=1, q_crc5=5)

    async def tb(ctx):
        L = rng.randint(60, 300)
        p_q = rng.choice([0.1, 0.4, 0.9]); p_rdy = rng.choice([0.5, 0.9, 1.0]); p_lbad = rng.choice([0.0, 0.1, 0.3])
        p_odd = rng.choice([0.0, 0.03])
        adv = rng.randrange(8)
        up = False; free = n; nextcred = 0
        cmds = []; words = []
        tr = []
        # link drops mid-session (two traces out of three): see stub_traces
        drops = sorted(rng.sample(range(L // 4, L), k=2)) if holder["k"] % 3 != 2 else []
        down = 0; busy = False; drop_acks = False
        for t in range(L):
            want_drop = bool(drops) and t >= drops[0]
            quiet = (ctx.get(outsig["packets_to_send"]) == 0) and not busy and not words
            if down == 0 and want_drop and quiet and up:
                down = rng.randint(1, 3); drops.pop(0); p_lbad = rng.choice([0.3, 0.6]); adv = rng.randrange(8)
                up = False; free = n; nextcred = 0; cmds = []
            c = dict(enable=0 if down else 1, queue_valid=int(rng.random() < p_q), lrty_pending=int(rng.random() < 0.1),
                     sink_valid=rng.choice([1, 1, 1, 0]), sink_data=0, sink_ctrl=0, source_ready=int(rng.random() < p_rdy))
            for f in QF:
                c[f] = rng.getrandbits(QW[f])
            if c["q_dw0"] & 0xF == 8:            # no DATA headers (payload path is C36's)
                c["q_dw0"] ^= 1
            if not up and t >= 1:
                cmds.append((t, LGOOD, adv)); up = True
            elif up and free > 0 and rng.random() < 0.3:
                cmds.append((t, LCRD, nextcred)); nextcred = (nextcred + 1) % n; free -= 1
            elif up and rng.random() < 0.02:
                cmds.append((t, rng.choice([LRTY, LGO_U]), rng.randrange(4)))
            elif up and rng.random() < p_odd:
                cmds.append((t, rng.choice([LGOOD, LCRD, LBAD]), rng.randrange(8)))
            due = [x for x in cmds if x[0] <= t]
            if due and not words:
                x = due[0]; cmds.remove(x)
                w = lc_data(x[1], x[2])
                if rng.random() < 0.05:
                    w ^= 1 << rng.randrange(32)                       # corrupted command word: must be ignored
                words = [(1, LC_START, 15), (1, w, 0)]
            if words and c["sink_valid"]:
                v, d_, k = words.pop(0); c.update(sink_data=d_, sink_ctrl=k)
            elif c["sink_valid"] and rng.random() < 0.03:
                c.update(sink_data=rng.getrandbits(32), sink_ctrl=rng.choice([0, 15, rng.randrange(16)]))
            for nm, v in c.items():
                ctx.set(insig[nm], v)
            if ctx.get(outsig["done"]) and not down:
                seqn = ctx.get(outsig["h_seq"])
                late = want_drop and rng.random() < 0.6          # acknowledgement lost in the link drop
                if rng.random() >= p_lbad:
                    cmds.append((t + (40 if late else rng.randint(2, 8)), LGOOD, seqn))
                    if rng.random() < 0.9: free += 1
                else:
                    cmds.append((t + rng.randint(2, 8), LBAD, 0))
            if down:
                down -= 1
            busy = (busy or bool(ctx.get(outsig["generate"]))) and not ctx.get(outsig["done"])
            tr.append(c)
            await ctx.tick("ss")
        holder["trace"] = tr

    sim.add_testbench(tb)
    out = []
    for k in range(N):
        holder["k"] = k
        sim.reset(); sim.run()
        out.append(holder["trace"])
    return out


def traces(target, rng, tier):
    return stub_traces(target, rng, tier) if target.kind == "stub" else full_traces(target, rng, tier)


W_SPEC = 8


def obligations(targets, tier):
    obs = []
    for t in targets:
        a = margs(t)
        if t.kind == "stub":
            alph = stub_alphabet(t, tier)
            spec = f"(tp_monN {a['n']} {a['sw']} {a['sp']} {a['dp']} {W_SPEC} (pin_of {a['hh']}) (unpack_pout {a['hh']} {a['cw']}))"
            if a["n"] <= 2:
                obs.append(tie.rmon(f"sp_{t.name}", t, mon=spec, m0=f"(tp_enc {W_SPEC} tp_init)", alpha_bits=0, alphabet=alph,
                                    fuel=1000000,
                                    describe=f"PacketTransmitter bookkeeping (buffer_count={a['n']}, seq width {a['sw']}, stub detector / raw transmitter) "
                                             f"satisfies the specification tp_mon on every trace over the explicit alphabet (queue.valid, payload bit, "
                                             f"lrty_pending, finish free; partner events none / LGOOD s / LCRD k / LBAD / LRTY; plus link-down cycles (enable low) alone, with a header offered, with LGOOD / LCRD / LBAD)"))
            if a["n"] <= 1:
                W = 6
                obs.append(tie.rmon(f"lk_{t.name}", t,
                                    mon=f"(rl_mon ptx (ptx_mstep {a['full']}) (ptx_enc {W}) (ptx_dec {W} {a['n']}) (fun _ _ => true))",
                                    m0=f"(ptx_enc {W} (ptx_init {a['n']} {a['sw']}))", alpha_bits=0, alphabet=alph, fuel=1000000,
                                    describe="regenerated netlist == packed bookkeeping model (every output, every cycle) on every trace over the same alphabet, "
                                             "whether or not the partner keeps its rules"))
            obs.append(tie.cmon(f"spec_{t.name}", t, mon=spec, m0=f"(tp_enc {W_SPEC} tp_init)",
                                describe="specification tp_mon as oracle over closed-loop simulator traces"))
            obs.append(tie.corr(f"corr_{t.name}", t, mstep=f"ptx_mstep {a['full']}", m0=f"ptx_init {a['n']} {a['sw']}",
                                describe="bookkeeping model vs simulator (stub detector / raw transmitter), closed-loop partner scripts + arbitrary command events"))
        else:
            core = f"{a['n']} {a['pw']} {a['cw']} 3 {a['T']} {a['tw']}"
            obs.append(tie.cmon(f"spec_{t.name}", t, mon=f"(ftp_monN {a['n']} 3 130 {a['cw']})", m0="(tp_enc 130 tp_init)",
                                describe="specification tp_mon as oracle over simulator traces of the complete PacketTransmitter "
                                         "(partner commands as decoded by the real LinkCommandDetector, transmissions of the real RawPacketTransmitter)"))
            obs.append(tie.corr(f"corr_{t.name}", t, mstep=f"ftx_mstep {core}", m0=f"ftx_init {a['n']} 3",
                                describe=f"complete PacketTransmitter(buffer_count={a['n']}) model (detector + header-path timing of the raw transmitter + bookkeeping) vs simulator"))
    return obs


def tie_theorems(targets, tier):
    return ""


def tie_theorem_names(targets, tier):
    return []


LEVEL_TEXT = (
    "Machine-checked proof (Rocq) about the corrected behaviour, plus four confirmed defects of the code as found. C39_bookkeeping_meets_spec: for every buffer count "
    "n = 2^pw, sequence width sw <= 3, timeout, field positions and EVERY input trace (partner command events in any order incl. mismatching / premature ones, header-queue timing, "
    "raw-transmitter latency) the PacketTransmitter bookkeeping model is accepted by the specification tp_mon: queue.ready iff bring-up done and an in-order-advertised credit is unused; "
    "headers numbered consecutively from the advertised number + 1; a header is retired only by an LGOOD carrying the oldest unacknowledged header's number, any other LGOOD / out-of-order LCRD "
    "raises recovery_required; every transmission presents the next unsent unacknowledged header in order; after an LBAD the send position returns to the oldest unacknowledged header and "
    "all transmissions carry DL until the backlog is drained; packets_to_send / credits_available are exact (simulation relation model <-> list-based specification, induction over the trace). "
    "Ties: the netlist regenerated from /repo (shrunk configuration) satisfies tp_mon and equals the packed model on all traces over an explicit alphabet (certified product reachability); "
    "the unmodified PacketTransmitter(4) is compared with the composed model and checked by tp_mon on closed-loop simulator traces. On the UNCHANGED tree the ties fail with replayed "
    "counterexamples (findings/C39-*.json: LGOOD with nothing outstanding retires; LBAD during a retransmission skips a header; header accepted in the LBAD cycle is never scheduled; "
    "a send dispatched in the LBAD cycle goes out without DL); the check passes with findings/C39-retry-bookkeeping-corner-cases.diff.")
LEVEL_NOTE = (
    "The delivered model is the corrected behaviour (patched gateware); ./check C39 exits 1 (VIOLATION, confirmed on the simulator) on the tree as found and 0 with the patch. Safety only "
    "(no claim that every accepted header is eventually transmitted). Link drops (enable low) are covered while the transmitter is quiescent (raw transmitter idle, nothing left to send, no LBAD backlog): the session is forgotten and the partner re-advertises; a drop in the middle of a transmission is outside the monitor's assumptions. "
    "No typed lock-step theorem for C39 (the packed-model lock-step is an R-monitor statement about the packed machine ptx_enc/ptx_dec; dec_enc is not proved), so netlist |= tp_mon is "
    "established directly on the netlist for the tied configurations and on the parametric model separately. Real configuration (n = 4, 128-bit headers, real detector / raw transmitter, "
    "no payloads) by correspondence + runtime oracle only.")
TECHNIQUE = ("Rocq proof: simulation relation between a code-shaped parametric model (ring pointers, counters, 3-state dispatcher) and a list-based specification monitor; "
             "certified product-reachability of the specification monitor and of a packed lock-step model against the regenerated netlist; closed-loop simulator traces; "
             "counterexample search replayed on Amaranth's simulator")
