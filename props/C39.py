"""C39 -- header transmission respects credits and retransmits unacknowledged headers
(luna/gateware/usb/usb3/link/transmitter.py: PacketTransmitter)."""
import threading

from harness import tie
from harness.tie_explicit import rlock_alpha
from harness.nir_split import SplitTarget

PID = "C39"
ASSUMPTIONS = []
TIE_IMPORTS = "From LunaModel Require Import Crc HdrRx HdrRx_proofs PktTx.\n"

_LOCK = threading.RLock()
LGOOD, LCRD, LRTY, LBAD, LGO_U = 0, 1, 2, 3, 4


def range_width(n):
    return max(n - 1, 0).bit_length()


def mk_stub(n, sw, hw, f_hz):
    """PacketTransmitter's own elaborate() with a shrunk configuration: buffer_count n, SEQUENCE_NUMBER_WIDTH sw,
    headers = (dw0: hw bits, sequence_number: 3, delayed: 1), credit timeout from ss_clock_frequency = f_hz,
    LinkCommandDetector replaced by free inputs (new_command, command, subtype), RawPacketTransmitter replaced by the
    two-state abstraction the model documents (idle: latch on generate; busy: done when `finish`)."""
    def build():
        with _LOCK:
            from amaranth import Elaboratable, Module, Signal
            from amaranth.hdl import Fragment
            from amaranth.hdl.rec import Record
            import luna.gateware.usb.usb3.link.transmitter as T
            import luna.gateware.usb.usb3.link.header as H
            from luna.gateware.usb.stream import USBRawSuperSpeedStream, SuperSpeedStreamInterface

            class NarrowHeader(Record):
                @classmethod
                def get_layout(cls): return [('dw0', hw), ('sequence_number', 3), ('delayed', 1)]
                def __init__(self): super().__init__(self.get_layout(), name="NarrowHeader")

            class NarrowQueue(H.HeaderQueue):
                def __init__(self): super().__init__(header_type=NarrowHeader)

            class StubDet(Elaboratable):
                def __init__(self):
                    self.sink = USBRawSuperSpeedStream()
                    self.new_command = Signal(); self.command = Signal(4); self.subtype = Signal(4)
                def elaborate(self, platform): return Module()

            class StubTx(Elaboratable):
                def __init__(self):
                    self.source = USBRawSuperSpeedStream()
                    self.header = NarrowHeader()
                    self.data_sink = SuperSpeedStreamInterface()
                    self.generate = Signal(); self.done = Signal()
                    self.finish = Signal(); self.start = Signal(); self.busy = Signal()
                def elaborate(self, platform):
                    m = Module()
                    m.d.comb += [self.start.eq(self.generate & ~self.busy), self.done.eq(self.busy & self.finish)]
                    with m.If(self.done):
                        m.d.ss += self.busy.eq(0)
                    with m.Elif(self.generate):
                        m.d.ss += self.busy.eq(1)
                    return m

            det, tx = StubDet(), StubTx()
            saved = (T.RawPacketTransmitter, T.LinkCommandDetector, T.HeaderPacket, T.HeaderQueue)
            T.RawPacketTransmitter = lambda: tx
            T.LinkCommandDetector = lambda: det
            T.HeaderPacket = NarrowHeader
            T.HeaderQueue = NarrowQueue
            try:
                cls = type("PacketTransmitterShrunk", (T.PacketTransmitter,), dict(SEQUENCE_NUMBER_WIDTH=sw))
                d = cls(buffer_count=n, ss_clock_frequency=float(f_hz))
                frag = Fragment.get(d, None)
            finally:
                T.RawPacketTransmitter, T.LinkCommandDetector, T.HeaderPacket, T.HeaderQueue = saved
            qh = d.queue.header
            ins = [("enable", d.enable), ("queue_valid", d.queue.valid), ("q_dw0", qh.dw0), ("q_seq", qh.sequence_number),
                   ("q_delayed", qh.delayed), ("lrty_pending", d.lrty_pending), ("new_command", det.new_command),
                   ("command", det.command), ("subtype", det.subtype), ("finish", tx.finish)]
            outs = [("queue_ready", d.queue.ready), ("generate", tx.generate), ("h_dw0", tx.header.dw0),
                    ("h_seq", tx.header.sequence_number), ("h_delayed", tx.header.delayed), ("start", tx.start),
                    ("done", tx.done), ("retry_required", d.retry_required), ("retry_received", d.retry_received),
                    ("recovery_required", d.recovery_required), ("bringup_complete", d.bringup_complete),
                    ("lgo_received", d.lgo_received), ("lgo_target", d.lgo_target),
                    ("credits_available", d.credits_available), ("packets_to_send", d.packets_to_send)]
            return frag, ins, outs
    t = SplitTarget(f"ptx_stub_n{n}_s{sw}_h{hw}_f{f_hz}", build)
    T_ = int(5e-3 * float(f_hz) + 1)
    t.kind = "stub"
    t.params = dict(n=n, sw=sw, hw=hw, T=T_, tw=range_width(T_ + 1), pw=range_width(n), cw=range_width(n + 1))
    return t


def targets(tier):
    return [mk_stub(2, 2, 1, 1000)]


def margs(t):
    p = t.params
    hh = p["hw"] + 4
    return dict(p, hh=hh, sp=p["hw"], dp=p["hw"] + 3,
                full=f"{p['n']} {p['pw']} {p['cw']} {p['sw']} {p['T']} {p['tw']} {p['hw']} {p['hw'] + 3} {hh}")


# ---------------------------------------------------------------------------------------------
def stub_traces(target, rng, tier):
    """Closed-loop partner scripts for the stub target: the input traces are produced by simulating the target with a
    link partner that reacts to what it sees (advertisement LGOOD, LCRDs in order as its buffers free up, LGOOD for each
    header whose transmission finished, LBADs -- also during transmissions and retransmissions --, occasional mismatching
    or premature commands), a protocol layer offering headers, and a raw transmitter finishing after random delays.
    Every fifth trace is open-loop with arbitrary command events.  (The harness re-simulates the recorded inputs.)"""
    from amaranth.sim import Simulator
    p = target.params
    n, sw, hw = p["n"], p["sw"], p["hw"]
    N = 30 if tier == "quick" else 150
    elab, ins, outs = target.build()
    insig = dict(ins); outsig = dict(outs)
    sim = Simulator(elab); sim.add_clock(1e-6, domain="ss")
    holder = {}

    async def tb(ctx):
        k = holder["k"]
        wild = (k % 5 == 4)
        L = rng.randint(20, 160)
        p_q = rng.choice([0.1, 0.4, 0.9]); p_fin = rng.choice([0.2, 0.5, 1.0]); p_lbad = rng.choice([0.0, 0.03, 0.1])
        p_off = rng.choice([0.0, 0.0, 0.01]); p_odd = rng.choice([0.0, 0.02])
        adv = rng.randrange(1 << sw)
        up = False; free = n; nextcred = 0
        cmds = []              # (due cycle, cmd, sub)
        tr = []
        for t in range(L):
            c = dict(enable=int(rng.random() >= p_off), queue_valid=int(rng.random() < p_q), q_dw0=rng.getrandbits(hw),
                     q_seq=rng.getrandbits(3), q_delayed=int(rng.random() < 0.1), lrty_pending=int(rng.random() < 0.15),
                     new_command=0, command=0, subtype=0, finish=int(rng.random() < p_fin))
            if wild:
                if rng.random() < 0.3:
                    c.update(new_command=1, command=rng.choice([LGOOD, LGOOD, LCRD, LCRD, LBAD, LRTY, LGO_U, rng.randrange(16)]),
                             subtype=rng.randrange(1 << max(sw, 2)) if rng.random() < 0.8 else rng.randrange(16))
            else:
                if not up and t >= 1:
                    cmds.append((t, LGOOD, adv)); up = True
                elif up and free > 0 and rng.random() < 0.4:
                    cmds.append((t, LCRD, nextcred)); nextcred = (nextcred + 1) % n; free -= 1
                elif up and rng.random() < p_lbad:
                    cmds.append((t, LBAD, 0))
                elif up and rng.random() < 0.04:
                    cmds.append((t, rng.choice([LRTY, LGO_U]), rng.randrange(4)))
                elif up and rng.random() < p_odd:
                    cmds.append((t, rng.choice([LGOOD, LCRD]), rng.randrange(1 << sw)))      # mismatching / premature
                due = [x for x in cmds if x[0] <= t]
                if due and rng.random() < 0.7:
                    x = due[0]; cmds.remove(x)
                    c.update(new_command=1, command=x[1], subtype=x[2])
            for nm, v in c.items():
                ctx.set(insig[nm], v)
            # the partner looks at what is transmitted: a finished transmission of a header is acknowledged later
            if ctx.get(outsig["done"]) and not wild:
                seqn = ctx.get(outsig["h_seq"]) % (1 << sw)
                if rng.random() < 0.85:
                    cmds.append((t + rng.randint(1, 6), LGOOD, seqn)); free_later = True
                    free += 1 if rng.random() < 0.9 else 0
                else:
                    cmds.append((t + rng.randint(1, 6), LBAD, 0))
            if not c["enable"]:
                up = False; free = n; nextcred = 0; cmds = []
            tr.append(c)
            await ctx.tick("ss")
        holder["trace"] = tr

    sim.add_testbench(tb)
    out = []
    for k in range(N):
        holder["k"] = k
        sim.reset(); sim.run()
        out.append(holder["trace"])
    return out


def traces(target, rng, tier):
    return stub_traces(target, rng, tier)


def obligations(targets, tier):
    obs = []
    for t in targets:
        a = margs(t)
        obs.append(tie.corr(f"corr_{t.name}", t, mstep=f"ptx_mstep {a['full']}", m0=f"ptx_init {a['n']} {a['sw']}",
                            describe="bookkeeping model vs simulator (stub detector / raw transmitter)"))
    return obs


def tie_theorems(targets, tier):
    return ""


def tie_theorem_names(targets, tier):
    return []


LEVEL_TEXT = "in progress"
LEVEL_NOTE = "in progress"
TECHNIQUE = "in progress"
