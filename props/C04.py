"""C04 -- handshake generation and detection (luna/gateware/usb/usb2/packet.py:
USBHandshakeGenerator, USBHandshakeDetector)."""
from harness.core import Target
from harness import tie

PID = "C04"
ASSUMPTIONS = [
    "generator: no assumption on the request strobes or on tx_ready; simultaneous request strobes are resolved STALL > NAK > ACK "
    "(last assignment in the source wins); requests while a handshake is being offered are ignored (the property's 'while idle'); "
    "tx_data is unspecified while tx_valid = 0",
    "generator: 'exactly one single-byte packet' = tx_valid is held up to and including the first tx_ready cycle and dropped in the next "
    "(UTMI hands over one byte per tx_valid & tx_ready cycle)",
    "detector: no assumption on rx_active / rx_valid / rx_data. A packet is a maximal rx_active run; its bytes are rx_data in the run's "
    "rx_valid cycles except the run's first cycle (UTMI+ never asserts RxValid in the cycle RxActive rises; the module ignores that cycle)",
    "detector: the strobe is registered: it is seen in the cycle after the first cycle with rx_active = 0",
    "both modules have no parameters: the tie is against the netlists of the real modules",
]
TIE_IMPORTS = "From LunaModel Require Import Handshake Handshake_proofs.\n"

ACK, NAK, STALL, NYET = 0xD2, 0x5A, 0x1E, 0x96


def mk_gen():
    def build():
        from luna.gateware.usb.usb2.packet import USBHandshakeGenerator
        d = USBHandshakeGenerator()
        return d, [("issue_ack", d.issue_ack), ("issue_nak", d.issue_nak), ("issue_stall", d.issue_stall),
                   ("tx_ready", d.tx.ready)], [("tx_valid", d.tx.valid), ("tx_data", d.tx.data)]
    t = Target("hsgen", build); t.kind = "gen"
    return t


def mk_det():
    def build():
        from luna.gateware.usb.usb2.packet import USBHandshakeDetector
        from luna.gateware.interface.utmi import UTMIInterface
        u = UTMIInterface()
        d = USBHandshakeDetector(utmi=u)
        return d, [("rx_active", u.rx_active), ("rx_valid", u.rx_valid), ("rx_data", u.rx_data)], \
            [("ack", d.detected.ack), ("nak", d.detected.nak), ("stall", d.detected.stall), ("nyet", d.detected.nyet)]
    t = Target("hsdet", build); t.kind = "det"
    return t


def targets(tier):
    return [mk_gen(), mk_det()]


def gen_traces(rng, n):
    out = []
    for k in range(n):
        preq = rng.choice([0.05, 0.2, 0.6]); prdy = rng.choice([0.0, 0.1, 0.5, 1.0])
        tr = []
        for c in range(rng.randint(1, 80)):
            one = rng.random() < preq
            multi = rng.random() < 0.1
            a = n_ = s = 0
            if multi:
                a, n_, s = rng.randrange(2), rng.randrange(2), rng.randrange(2)
            elif one:
                which = rng.randrange(3); a, n_, s = int(which == 0), int(which == 1), int(which == 2)
            tr.append(dict(issue_ack=a, issue_nak=n_, issue_stall=s, tx_ready=int(rng.random() < prdy)))
        out.append(tr)
    return out


def rx_packet(rng, data, first_valid=False, gaps=0.0):
    """UTMI receive cycles of one packet: rx_active run; first cycle without data (or, like LUNA's test helper,
    with stale data flagged valid); optional rx_valid gaps."""
    cyc = [dict(rx_active=1, rx_valid=int(first_valid), rx_data=rng.randrange(256))]
    for b in data:
        while rng.random() < gaps:
            cyc.append(dict(rx_active=1, rx_valid=0, rx_data=rng.randrange(256)))
        cyc.append(dict(rx_active=1, rx_valid=1, rx_data=b))
    while rng.random() < gaps:
        cyc.append(dict(rx_active=1, rx_valid=0, rx_data=rng.randrange(256)))
    return cyc


def det_traces(rng, n):
    out = []
    hs = [ACK, NAK, STALL, NYET]
    for k in range(n):
        tr = []
        mode = k % 4
        for _ in range(rng.randint(1, 8)):
            for _ in range(rng.choice([0, 1, 1, 2, 5])):
                tr.append(dict(rx_active=0, rx_valid=int(rng.random() < 0.1), rx_data=rng.randrange(256)))
            r = rng.random()
            if r < 0.45:
                data = [rng.choice(hs)]
            elif r < 0.6:   # wrong check nibble / non-handshake PID
                b = rng.choice(hs); data = [rng.choice([b ^ (1 << rng.randrange(8)), rng.randrange(256), 0xC3, 0x4B, 0xE1])]
            elif r < 0.8:   # longer packet starting with a handshake byte
                data = [rng.choice(hs)] + [rng.randrange(256) for _ in range(rng.randint(1, 4))]
            elif r < 0.9:
                data = []
            else:
                data = [rng.randrange(256) for _ in range(rng.randint(1, 5))]
            tr += rx_packet(rng, data, first_valid=(mode == 1 and rng.random() < 0.5), gaps=(0.3 if mode >= 2 else 0.0))
        tr += [dict(rx_active=0, rx_valid=0, rx_data=0)] * 2
        if mode == 3:   # adversarial: fully random cycles
            tr = [dict(rx_active=int(rng.random() < 0.7), rx_valid=rng.randrange(2), rx_data=rng.choice(hs + [rng.randrange(256)]))
                  for _ in range(rng.randint(5, 80))]
        out.append(tr)
    return out


def traces(target, rng, tier):
    n = 40 if tier == "quick" else 400
    return gen_traces(rng, n) if target.kind == "gen" else det_traces(rng, n)


def obligations(targets, tier):
    obs = []
    for t in targets:
        if t.kind == "gen":
            obs.append(tie.rlock(
                "ob_hsgen", t, St="gen_state", mstep="gen_step", enc="gen_enc", dec="gen_dec",
                wf="(fun _ => True)", dec_enc="(fun s _ => gen_dec_enc s)", wf_step="(fun _ _ _ => I)",
                m0="gen_init", wf_m0="exact I.", alpha_bits=4, fuel=1000,
                describe="USBHandshakeGenerator == FSM model (incl. the idle value of tx_data), all request/ready traces"))
        else:
            obs.append(tie.rlock(
                "ob_hsdet", t, St="det_state", mstep="det_step", enc="det_enc", dec="det_dec",
                wf="det_wf", dec_enc="det_dec_enc", wf_step="det_wf_step",
                m0="det_init", wf_m0="exact det_wf_init.", alpha_bits=10, fuel=1000,
                describe="USBHandshakeDetector == FSM model, all UTMI receive traces (rx_active, rx_valid, rx_data)"))
    return obs


def tie_theorems(targets, tier):
    g = [t for t in targets if t.kind == "gen"][0].modname
    d = [t for t in targets if t.kind == "det"][0].modname
    return f"""
Theorem C04_hsgen : forall tr, Forall (fun i => i < 2 ^ N.of_nat 4) tr ->
  map gen_mask (run {g}.step {g}.init tr) = run gsp_step gsp_init tr.
Proof.
  intros tr H. rewrite (ob_hsgen_T.tie tr H (env_ok_true _ _ _ _)). apply gen_from_reset.
Qed.

Theorem C04_hsdet : forall tr, Forall (fun i => i < 2 ^ N.of_nat 10) tr ->
  run {d}.step {d}.init tr = run dsp_step dsp_init tr.
Proof.
  intros tr H. rewrite (ob_hsdet_T.tie tr H (env_ok_true _ _ _ _)). apply det_from_reset.
Qed.

Theorem C04_hsdet_events : forall tr x, Forall (fun i => i < 2 ^ N.of_nat 10) (tr ++ [x]) ->
  filter nonzero (run {d}.step {d}.init (tr ++ [x])) = filter nonzero (map pkt_strobe (packets_from None tr)).
Proof.
  intros tr x H. rewrite (ob_hsdet_T.tie _ H (env_ok_true _ _ _ _)). apply det_events.
Qed.
"""


def tie_theorem_names(targets, tier):
    return ["C04_hsgen", "C04_hsdet", "C04_hsdet_events"]


LEVEL_TEXT = ("Machine-checked proof. (1) Generator: for every request/tx_ready history the FSM model's tx_valid and (while valid) tx_data equal the "
              "specification gsp_step: a request accepted while idle (STALL > NAK > ACK) is followed by tx_valid with the byte PID + complemented "
              "check nibble held up to and including the first tx_ready cycle, then idle; requests while busy are ignored (C04_generator_exact). "
              "(2) Detector: for every UTMI receive history (no assumption) the FSM model's strobes equal the packet-level specification dsp_step: "
              "in the cycle after a packet ends, strobe h iff the packet is the single byte hs_byte h (h in ACK/NAK/STALL/NYET), nothing for "
              "longer packets, empty packets or bytes with a wrong check nibble (C04_detector_exact, C04_detector_events, "
              "C04_strobe_iff_handshake). (3) The netlists of both real modules regenerated from /repo are proved equal to the models on all "
              "input traces of any length (certified product reachability), giving C04_hsgen, C04_hsdet, C04_hsdet_events: netlist = specification.")
LEVEL_NOTE = ("Trusted: Coq kernel + vm_compute, Amaranth elaboration, nir2coq.py/Netlist.v (validated each run against pysim). "
              "Neither module is parametric, so the R tie is against the real netlists (all 2^4 resp. 2^10 input words per cycle). "
              "tx_data while tx_valid = 0 is outside the specification (but inside the lock-step tie).")
TECHNIQUE = ("Rocq proof: simulation relations (FSM models vs a one-slot transmit specification / a byte-list packetiser specification) + "
             "certified product-reachability of the regenerated netlists against the models")
