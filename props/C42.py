"""C42 -- LFPS detector / generator / transceiver (luna/gateware/usb/usb3/physical/lfps.py)."""
from fractions import Fraction as F
from harness.core import Target
from harness import tie

PID = "C42"

# The reachability lists of the larger detector ties (counters of 10..12 bits) are deep enough to overflow coqc's default
# 8 MB stack; child processes inherit the raised limit.
try:
    import resource
    _soft, _hard = resource.getrlimit(resource.RLIMIT_STACK)
    resource.setrlimit(resource.RLIMIT_STACK, (_hard, _hard))
except Exception:      # pragma: no cover
    pass
TIE_IMPORTS = "From LunaModel Require Import Lfps Lfps_proofs.\n"

# The USB 3.2 table 6-30 timings, as exact rationals (seconds).  The windows in clock cycles are recomputed here
# in exact integer arithmetic (ceil(f * t)) and compared, through the tie, with what the code derives from its
# float constants.
POLL = dict(b=(F(6, 10**7), F(14, 10**7), F(1, 10**6)), r=(F(6, 10**6), F(14, 10**6), F(10, 10**6)))
PING = dict(b=(F(40, 10**9), F(160, 10**9), None), r=(F(160, 10**3), F(240, 10**3), F(200, 10**3)))
RESET = dict(b=(F(80, 10**3), F(120, 10**3), F(100, 10**3)), r=None)
PATTERNS = dict(poll=("_PollingLFPS", POLL), ping=("_PingLFPS", PING), reset=("_ResetLFPS", RESET))


def ceil_(x):
    return -((-x.numerator) // x.denominator)


def windows(pat, f):
    """(bmin, bmax, rmin, rmax) in cycles at integer clock frequency f [Hz]; r* = None for a single-burst pattern."""
    b = pat["b"]; r = pat["r"]
    return (ceil_(f * b[0]), ceil_(f * b[1])) + ((ceil_(f * r[0]), ceil_(f * r[1])) if r else (None, None))


def cfg_expr(w):
    bmin, bmax, rmin, rmax = w
    return f"(ld_periodic {bmin} {bmax} {rmin} {rmax})" if rmin is not None else f"(ld_single {bmin} {bmax})"


# ---------------------------------------------------------------------------------------------
def mk_det(pname, f, big=False):
    """LFPSDetector for one of LUNA's own pattern constants at clock frequency f."""
    attr, pat = PATTERNS[pname]

    def build():
        from luna.gateware.usb.usb3.physical import lfps
        d = lfps.LFPSDetector(getattr(lfps, attr), ss_clk_frequency=float(f))
        return d, [("signaling_received", d.signaling_received)], [("detect", d.detect)]
    t = Target(f"det_{pname}_{f}", build)
    t.kind = "det"; t.w = windows(pat, f); t.big = big
    t.label = f"LFPSDetector({attr}, {f} Hz)"
    return t


def mk_det_custom(bmin, bmax, rmin=None, rmax=None):
    """LFPSDetector for a made-up pattern with the given windows (clock 1 Hz: times are cycle counts)."""
    def build():
        from luna.gateware.usb.usb3.physical import lfps
        pat = lfps.LFPS(burst=lfps.LFPSTiming(t_typ=bmin, t_min=bmin, t_max=bmax),
                        repeat=(lfps.LFPSTiming(t_typ=rmin, t_min=rmin, t_max=rmax) if rmin is not None else None))
        d = lfps.LFPSDetector(pat, ss_clk_frequency=1)
        return d, [("signaling_received", d.signaling_received)], [("detect", d.detect)]
    nm = f"det_w{bmin}_{bmax}" + (f"_{rmin}_{rmax}" if rmin is not None else "_single")
    t = Target(nm, build)
    t.kind = "det"; t.w = (bmin, bmax, rmin, rmax); t.big = False
    t.label = f"LFPSDetector(burst window [{bmin},{bmax}], repeat window " + \
              (f"[{rmin},{rmax}]" if rmin is not None else "none") + ")"
    return t


def mk_gen(f, big=False):
    B, R = ceil_(f * POLL["b"][2]), ceil_(f * POLL["r"][2])

    def build():
        from luna.gateware.usb.usb3.physical import lfps
        d = lfps.LFPSGenerator(lfps._PollingLFPS, float(f))
        return d, [("generate", d.generate)], [("completed", d.completed), ("drive_electrical_idle", d.drive_electrical_idle),
                                                ("send_signaling", d.send_signaling)]
    t = Target(f"gen_poll_{f}", build)
    t.kind = "gen"; t.B = B; t.R = R; t.big = big
    return t


def mk_gen_custom(B, R):
    def build():
        from luna.gateware.usb.usb3.physical import lfps
        pat = lfps.LFPS(burst=lfps.LFPSTiming(t_typ=B, t_min=B, t_max=B), repeat=lfps.LFPSTiming(t_typ=R, t_min=R, t_max=R))
        d = lfps.LFPSGenerator(pat, 1)
        return d, [("generate", d.generate)], [("completed", d.completed), ("drive_electrical_idle", d.drive_electrical_idle),
                                                ("send_signaling", d.send_signaling)]
    t = Target(f"gen_B{B}_R{R}", build)
    t.kind = "gen"; t.B = B; t.R = R; t.big = False
    return t


def mk_xcvr(f):
    def build():
        from luna.gateware.usb.usb3.physical import lfps
        d = lfps.LFPSTransceiver(ss_clk_freq=float(f))
        return (d, [("signaling_received", d.signaling_received), ("send_polling", d.send_polling)],
                [("drive_electrical_idle", d.drive_electrical_idle), ("send_signaling", d.send_signaling),
                 ("polling_detected", d.polling_detected), ("ping_detected", d.ping_detected),
                 ("reset_detected", d.reset_detected), ("cycles_sent", d.cycles_sent)])
    t = Target(f"xcvr_{f}", build)
    t.kind = "xcvr"; t.f = f; t.big = True
    t.wp, t.wq, t.wr = windows(POLL, f), windows(PING, f), windows(RESET, f)
    t.B, t.R = ceil_(f * POLL["b"][2]), ceil_(f * POLL["r"][2])
    return t


def targets(tier):
    q = tier == "quick"
    ts = [mk_det("poll", 5_000_000),              # 3..7 / 30..70
          mk_det("reset", 500),                    # 40..60
          mk_det_custom(2, 3, 5, 8),
          # LUNA's default clock, 75..175 / 750..1750: correspondence + oracle (quick), R tie on all traces (thorough)
          mk_det("poll", 125_000_000, big=q),
          mk_gen(1_000_000), mk_gen_custom(2, 5),
          mk_gen(125_000_000, big=q),
          mk_xcvr(1_000_000)]
    if not q:
        ts += [mk_det("poll", 2_000_000), mk_det("poll", 25_000_000), mk_det("ping", 1000),
               mk_det("reset", 1000), mk_det_custom(2, 4), mk_det_custom(1, 1, 2, 2), mk_det_custom(1, 5, 6, 6), mk_det_custom(3, 3, 4, 9),
               mk_det_custom(1, 1),
               mk_det("poll", 62_500_000),          # a clock LUNA really uses (ECP5 PIPE at 62.5 MHz)
               mk_det("poll", 250_000_000, big=True),
               mk_gen(8_000_000), mk_gen(62_500_000), mk_gen_custom(1, 2), mk_gen_custom(3, 4),
               mk_gen(250_000_000, big=True),
               mk_xcvr(125_000_000)]
    return ts


# ---------------------------------------------------------------------------------------------
def envelope(rng, w, n_bursts, style):
    """A received envelope as a 0/1 list: bursts and gaps with lengths around the window borders."""
    bmin, bmax, rmin, rmax = w
    if rmin is None:
        rmin, rmax = bmax + 1, 2 * bmax + 2
    out = [0] * rng.randint(0, 4)
    for _ in range(n_bursts):
        if style == "good":
            k = rng.randint(max(bmin, 1), bmax); per = rng.randint(max(rmin, k + 1), max(rmax, k + 1))
        elif style == "edge":
            k = max(1, rng.choice([bmin - 1, bmin, bmin, bmax, bmax, bmax + 1]))
            per = max(k + 1, rng.choice([rmin - 1, rmin, rmin, rmax, rmax, rmax + 1]))
        else:
            k = rng.randint(1, bmax + 3); per = rng.randint(k + 1, rmax + 4)
        out += [1] * k + [0] * (per - k)
    out += [1, 1, 0, 0, 0]
    return out


def det_traces(t, rng, tier):
    n = 24 if tier == "quick" else 100
    if t.big or (t.w[3] or t.w[1]) > 300:      # long windows: long traces, fewer of them
        n = 4 if tier == "quick" else 12
    out = []
    for k in range(n):
        style = ["good", "edge", "mixed", "noise"][k % 4]
        if style == "noise":
            p = rng.choice([0.1, 0.5, 0.9])
            bits = [int(rng.random() < p) for _ in range(rng.randint(1, 120))]
        elif style == "mixed":
            bits = []
            for _ in range(rng.randint(1, 3)):
                bits += envelope(rng, t.w, rng.randint(1, 3), rng.choice(["good", "edge", "rand"]))
        else:
            bits = envelope(rng, t.w, rng.randint(2, 5 if n > 12 else 3), style)
        out.append([{"signaling_received": b} for b in bits])
    return out


def gen_traces(t, rng, tier):
    n = 16 if tier == "quick" else 60
    if t.big:
        n = 3 if tier == "quick" else 8
    out = []
    for k in range(n):
        L = rng.choice([t.R + 3, 2 * t.R + 5, 3 * t.R + 7]) if k % 2 == 0 else rng.randint(1, 3 * t.R + 10)
        p = rng.choice([1.0, 0.95, 0.5, 0.05])
        if k % 4 == 0:       # held high, then released
            hold = rng.randint(1, L)
            bits = [1] * hold + [0] * (L - hold)
        else:
            bits = [int(rng.random() < p) for _ in range(L)]
        out.append([{"generate": b} for b in bits])
    return out


def xcvr_traces(t, rng, tier):
    n = 6 if tier == "quick" else 14
    out = []
    for k in range(n):
        w = [t.wp, t.wp, t.wq, t.wr][k % 4] if (tier != "quick" or t.f <= 1_000_000) else t.wp
        if w[1] > 3000 or (w[3] or 0) > 3000:      # windows too long for a quick trace: polling instead
            w = t.wp
        bits = envelope(rng, w, rng.randint(3, 5), rng.choice(["good", "good", "edge"]))
        pg = rng.choice([1.0, 1.0, 0.999, 0.5])
        g = 0; tr = []
        start = rng.randint(0, 5)
        for c, b in enumerate(bits):
            g = int(c >= start and rng.random() < pg)
            tr.append({"signaling_received": b, "send_polling": g})
        out.append(tr)
    return out


def traces(target, rng, tier):
    return {"det": det_traces, "gen": gen_traces, "xcvr": xcvr_traces}[target.kind](target, rng, tier)


# ---------------------------------------------------------------------------------------------
def gen_args(t):
    return f"{t.B} {t.R} (range_width {t.R})"


def obligations(targets, tier):
    obs = []
    for t in targets:
        if t.kind == "det":
            cfg = cfg_expr(t.w)
            if t.big:
                obs.append(tie.corr(f"corr_{t.name}", t, mstep=f"ld_step {cfg}", m0="ld_init",
                                    describe=f"{t.label}: model (windows {t.w}) vs simulator"))
                obs.append(tie.cmon(f"spec_{t.name}", t, mon=f"(ld_spec_mon {cfg})", m0="1",
                                    describe=f"{t.label}: run-length specification evaluated over simulator traces"))
                continue
            obs.append(tie.rlock(
                f"ob_{t.name}", t, St="ld_state", mstep=f"ld_step {cfg}", enc="ld_enc", dec="ld_dec", wf="ld_wf",
                dec_enc="(fun st _ => ld_dec_enc st)", wf_step="(fun _ _ _ => I)", m0="ld_init", wf_m0="exact I.",
                alpha_bits=1, fuel=1000000,
                describe=f"{t.label} == detector model with windows (bmin,bmax,rmin,rmax) = {t.w}, all input traces"))
        elif t.kind == "gen":
            a = gen_args(t)
            if t.big:
                obs.append(tie.corr(f"corr_{t.name}", t, mstep=f"lg_step {a}", m0="lg_init",
                                    describe=f"LFPSGenerator model (B={t.B}, R={t.R}) vs simulator"))
                continue
            obs.append(tie.rlock(
                f"ob_{t.name}", t, St="lg_state", mstep=f"lg_step {a}", enc="lg_enc", dec="lg_dec", wf="lg_wf",
                dec_enc="(fun st _ => lg_dec_enc st)", wf_step="(fun _ _ _ => I)", m0="lg_init", wf_m0="exact I.",
                alpha_bits=1, fuel=1000000,
                describe=f"LFPSGenerator == generator model with burst {t.B} and pattern {t.R} cycles, all input traces"))
        else:
            a = f"{cfg_expr(t.wp)} {cfg_expr(t.wq)} {cfg_expr(t.wr)} {t.B} {t.R} (range_width {t.R})"
            obs.append(tie.corr(f"corr_{t.name}", t, mstep=f"lt_step {a}", m0="lt_init",
                                describe=f"LFPSTransceiver({t.f} Hz) vs composition of the detector and generator models"))
    return obs


HYP = "solve [vm_compute; (reflexivity || discriminate)]"


def cfg_hyps(w):
    """tactics for:  1 <= bmax c ; bmax c < 2^cw c ; periodic c = true -> bmax c < rmax c /\\ rmax c < 2^cw c"""
    if w[2] is not None:
        h3 = f"(intros _; split; {HYP})"
    else:
        h3 = "(intro Hp; vm_compute in Hp; discriminate)"
    return HYP, HYP, h3


def tie_theorems(targets, tier):
    s = ""
    for t in targets:
        if t.big or t.kind == "xcvr":
            continue
        G = t.modname
        if t.kind == "det":
            cfg = cfg_expr(t.w); h1, h2, h3 = cfg_hyps(t.w)
            s += f"""
Theorem C42_{t.name}_sound : forall tr, Forall (fun i => i < 2 ^ N.of_nat 1) tr ->
  Forall2 (fun o s => o = 1 -> s = 1) (run {G}.step {G}.init tr) (spec_trace {cfg} [] tr).
Proof.
  intros tr H. rewrite (ob_{t.name}_T.tie tr H (env_ok_true _ _ _ _)).
  apply ld_sound; [{h1} | {h2} | {h3}].
Qed.
"""
            if t.w[2] is not None:
                s += f"""
Theorem C42_{t.name}_complete : forall pre k1 g1 k2 g2 x y, x < 2 -> y < 2 -> quiet_end {cfg} pre ->
  1 <= k1 -> 1 <= g1 -> 1 <= k2 -> 1 <= g2 ->
  {t.w[0]} <= k1 <= {t.w[1]} -> {t.w[2]} <= k1 + g1 <= {t.w[3]} ->
  {t.w[0]} <= k2 <= {t.w[1]} -> {t.w[2]} <= k2 + g2 <= {t.w[3]} ->
  last (run {G}.step {G}.init
         (map b2n (pre ++ repeat true (N.to_nat k1) ++ repeat false (N.to_nat g1) ++
                   repeat true (N.to_nat k2) ++ repeat false (N.to_nat g2) ++ [true]) ++ [x; y])) 0 = 1.
Proof.
  intros pre k1 g1 k2 g2 x y Hx Hy Hq K1 G1 K2 G2 B1 R1 B2 R2.
  rewrite (ob_{t.name}_T.tie _ (b2n_words _ x y Hx Hy) (env_ok_true _ _ _ _)).
  apply ld_complete_periodic; auto; [{h1} | {h2} | {h3}].
Qed.
"""
            else:
                s += f"""
Theorem C42_{t.name}_complete : forall pre k x y, x < 2 -> y < 2 -> quiet_end {cfg} pre ->
  1 <= k -> {t.w[0]} <= k <= {t.w[1]} ->
  last (run {G}.step {G}.init (map b2n (pre ++ repeat true (N.to_nat k) ++ [false]) ++ [x; y])) 0 = 1.
Proof.
  intros pre k x y Hx Hy Hq K B.
  rewrite (ob_{t.name}_T.tie _ (b2n_words _ x y Hx Hy) (env_ok_true _ _ _ _)).
  apply ld_complete_single; auto; [{h1} | {h2} | {h3}].
Qed.
"""
        else:
            s += f"""
Theorem C42_{t.name}_spec : forall tr, Forall (fun i => i < 2 ^ N.of_nat 1) tr ->
  run {G}.step {G}.init tr = run (lgs_step {t.B} {t.R}) None tr.
Proof.
  intros tr H. rewrite (ob_{t.name}_T.tie tr H (env_ok_true _ _ _ _)).
  apply lg_from_reset; {HYP}.
Qed.
"""
    return s


def tie_theorem_names(targets, tier):
    out = []
    for t in targets:
        if t.big or t.kind == "xcvr":
            continue
        out += [f"C42_{t.name}_sound", f"C42_{t.name}_complete"] if t.kind == "det" else [f"C42_{t.name}_spec"]
    return out


ASSUMPTIONS = [
    "one list element = one ss clock cycle; the envelope is the history of signaling_received; detect refers to the envelope "
    "up to two cycles earlier (two-flop FFSynchronizer, made explicit in spec_trace)",
    "burst length = number of consecutive cycles with signalling; repeat period = burst start to next burst start "
    "(USB 3.2 fig. 6-32); windows in cycles are ceil(f * t) of table 6-30, recomputed here in exact rational arithmetic and "
    "compared with the code's float computation through the tie",
    "detector theorems need 1 <= bmax < 2^cw and, for periodic patterns, bmax < rmax < 2^cw (true for every pattern/clock "
    "the code can be built with where the burst window lies below the repeat window; discharged by computation per tie target)",
    "completeness is proved after reset or after rmax+2 idle cycles, not for every envelope (see LEVEL_NOTE)",
    "generator: pattern length R = ceil(f * 10 us) exactly; at some clock frequencies (e.g. 5, 10, 50, 100 MHz) the code's float "
    "product f*10.0e-6 exceeds the exact value by one ulp and ceil() yields R+1 -- tie frequencies are chosen where both agree "
    "(1, 8, 62.5, 125, 250 MHz)",
    "R ties: detector at polling 5 MHz, reset 500 Hz and made-up windows (quick) + polling 2/25/62.5 MHz, ping 1 kHz, reset 1 kHz, "
    "62.5 and 125 MHz (LUNA's clocks), degenerate windows (thorough); generator at 1 MHz and (B,R)=(2,5) (quick) + 8/62.5/125 MHz, "
    "(1,2), (3,4) (thorough); correspondence + run-length-specification oracle at 125 MHz (quick) and 250 MHz (thorough); transceiver (3 detectors + generator "
    "+ cycles_sent) correspondence at 1 MHz (quick) and 125 MHz (thorough)",
]
LEVEL_TEXT = ("Machine-checked proof about models, tied to the code. Detector: for every window configuration (hypotheses above) "
              "and EVERY received envelope, detect is reported only in a cycle where the envelope up to two cycles earlier ends with "
              "burst k1, gap g1, burst k2, gap g2, first cycle of a third burst with k1,k2 in the burst window and k1+g1, k2+g2 in the "
              "repeat window (periodic patterns), resp. burst k in the burst window followed by its first idle cycle (single-burst "
              "pattern): C42_detect_sound with the run-length specification unfolded by C42_spec_periodic_iff / C42_spec_single_iff -- "
              "signalling outside the windows is never reported. Conversely, after reset or rmax+2 idle cycles such a pattern IS "
              "reported (C42_detect_complete_periodic / _single). Generator: for all 1 <= B < R the FSM equals a phase-counter "
              "specification on all input histories (C42_generator_refines); while generate is held every period is: 1 idle cycle, "
              "B = ceil(f*1us) cycles of signalling, R-B cycles of electrical idle with `completed` in the last, R = ceil(f*10us) "
              "(C42_generator_held). Tie: the netlist regenerated from /repo is proved equal to the models on ALL input traces at the "
              "listed scaled clocks/windows (certified product reachability), giving the soundness/completeness/generator theorems for "
              "the netlist itself (C42_<target>_sound/_complete/_spec); correspondence + specification oracle on simulator traces at "
              "125/250 MHz and for the whole LFPSTransceiver.")
LEVEL_NOTE = ("Holds on the unchanged tree. Two observations that do not contradict the property text: (1) the detector's edge detector is "
              "instantiated inside the WAIT state, so its `delayed` register is stale (1) when WAIT is re-entered and a burst that begins in "
              "exactly the first cycle after a rejected burst / repeat time-out is skipped: detection is sound always but complete only from "
              "an armed state (proved: after reset or rmax+2 idle cycles), not 'iff' on every envelope. (2) While generate is held the "
              "generator's period is R+1 cycles (one IDLE cycle between patterns), i.e. one clock cycle more than the typical period "
              "(10.008 us at 125 MHz), inside the 6..14 us repeat window. Trusted: Coq kernel + vm_compute, Amaranth elaboration, "
              "nir2coq.py/Netlist.v (validated each run against pysim). Ping/reset patterns at realistic clocks (counters of 2^23..2^25 "
              "cycles) are covered by the parametric theorems and by R ties at scaled clocks only.")
TECHNIQUE = ("Rocq proof: invariant between the FSM and the run-length encoding of the envelope (soundness, all envelopes, parametric "
             "in the windows), forward simulation through a pattern (completeness), simulation relation to a phase counter (generator); "
             "certified product-reachability against the regenerated netlists; simulator correspondence + specification oracle at "
             "realistic clocks")
