"""C26 -- stream arbiters (luna/gateware/stream/arbiter.py: StreamArbiter; usb3/link/header.py: HeaderQueueArbiter;
usb/stream.py: SuperSpeedStreamArbiter)."""
from harness.core import Target
from harness import tie

PID = "C26"
ASSUMPTIONS = [
    "streams with a 1-bit `valid` (StreamInterface default, USBRawSuperSpeedStream, HeaderQueue -- every stream type LUNA "
    "arbitrates); StreamArbiter's `~source.valid` test is not meaningful for a multi-bit valid and that case is outside C26",
    "the reset value of the selection is input 0; n >= 1 inputs (the theorems are parametric in n and in the block width)",
    "R-tie configurations: StreamArbiter over StreamInterface(payload_width=1) with n = 1..4 inputs (all 2^(4n+1) input words per "
    "cycle), and the real HeaderQueueArbiter class with n = 2 (thorough: 1..5) producers whose header inputs other than "
    "`delayed`/`deferred` are left undriven (0); correspondence at full width: HeaderQueueArbiter (128-bit headers) n = 2 (LUNA's use; "
    "thorough 1..4), SuperSpeedStreamArbiter n = 4 (LUNA's use); thorough adds StreamArbiter with 8/32-bit payloads, n = 2..8",
    "for n = 1 Amaranth drops the zero-width index register; the target wraps the arbiter together with an unrelated toggling "
    "flip-flop only so that the clock stays a netlist input (the translator requires one)",
    "no fairness is claimed: a low-priority input can wait forever behind higher-priority traffic; one bubble cycle on every switch",
]
TIE_IMPORTS = "From LunaModel Require Import Arbiter Arbiter_proofs.\n"

HEADER_FIELDS = [("dw0", 32), ("dw1", 32), ("dw2", 32), ("crc16", 16), ("sequence_number", 3), ("dw3_reserved", 3),
                 ("hub_depth", 3), ("delayed", 1), ("deferred", 1), ("crc5", 5)]


def _wrap_keep_clock(d, domain):
    from amaranth import Elaboratable, Module, Signal
    class KeepClock(Elaboratable):
        def elaborate(self, platform):
            m = Module(); m.submodules.arb = d
            keep = Signal(name="keep_clk"); m.d[domain] += keep.eq(~keep)
            return m
    return KeepClock()


def mk(kind, n, pw=1):
    """kind: 'si' StreamArbiter over StreamInterface(payload_width=pw); 'ss' SuperSpeedStreamArbiter;
    'hq' HeaderQueueArbiter with the full header; 'hqs' HeaderQueueArbiter, only delayed/deferred header bits driven."""
    if kind == "si":
        fields = [("first", 1), ("last", 1), ("payload", pw)]
    elif kind == "ss":
        fields = [("first", 1), ("last", 1), ("payload", 32), ("ctrl", 4)]
    elif kind == "hq":
        fields = list(HEADER_FIELDS)
    else:
        fields = [("delayed", 1), ("deferred", 1)]

    def build():
        from luna.gateware.stream import StreamInterface
        from luna.gateware.stream.arbiter import StreamArbiter
        from luna.gateware.usb.stream import SuperSpeedStreamArbiter, USBRawSuperSpeedStream
        from luna.gateware.usb.usb3.link.header import HeaderQueueArbiter, HeaderQueue
        if kind == "si":
            st = lambda: StreamInterface(payload_width=pw)
            d = StreamArbiter(stream_type=st); dom = "sync"
        elif kind == "ss":
            st = USBRawSuperSpeedStream
            d = SuperSpeedStreamArbiter(); dom = "ss"
        else:
            st = HeaderQueue
            d = HeaderQueueArbiter(); dom = "ss"
        sinks = [st() for _ in range(n)]
        for s in sinks:
            d.add_stream(s)
        get = (lambda s, f: getattr(s.header, f)) if kind in ("hq", "hqs") else (lambda s, f: getattr(s, f))
        ins = []
        for k, s in enumerate(sinks):
            ins.append((f"valid{k}", s.valid))
            ins += [(f"{f}{k}", get(s, f)) for f, _ in fields]
        ins.append(("ready", d.source.ready))
        outs = [("valid", d.source.valid)] + [(f, get(d.source, f)) for f, _ in fields]
        outs += [(f"ready{k}", s.ready) for k, s in enumerate(sinks)]
        outs.append(("idle", d.idle))
        top = _wrap_keep_clock(d, dom) if n == 1 else d
        return top, ins, outs
    t = Target(f"arb_{kind}{pw if kind == 'si' else ''}_n{n}", build)
    t.params = dict(kind=kind, n=n, fields=fields, bw=1 + sum(w for _, w in fields))
    t.in_bits = n * t.params["bw"] + 1
    return t


def targets(tier):
    small = [mk("si", n, 1) for n in (1, 2, 3, 4)] + [mk("hqs", 2)]
    if tier != "quick":
        small += [mk("hqs", n) for n in (1, 3, 4, 5)] + [mk("si", 3, 2)]
    for t in small: t.big = False
    big = [mk("hq", 2), mk("ss", 4)]
    if tier != "quick":
        big += [mk("si", 3, 8), mk("hq", 1), mk("hq", 3), mk("hq", 4), mk("ss", 2), mk("si", 5, 8), mk("si", 2, 32), mk("si", 4, 32),
                mk("si", 4, 8), mk("si", 8, 8)]
    for t in big: t.big = True
    return small + big


def traces(target, rng, tier):
    """Per input an independent burst source (valid held for a burst, random gaps), random back-pressure;
    plus fully random (contract-free) histories."""
    n = target.params["n"]; fields = target.params["fields"]
    ntr = 24 if tier == "quick" else 120
    out = []
    for t in range(ntr):
        length = rng.choice([1, 2, 5, 17, 40, 80])
        adversarial = (t % 4 == 3)
        p_start = [rng.choice([0.05, 0.3, 0.7, 1.0]) for _ in range(n)]
        p_ready = rng.choice([0.0, 0.3, 0.8, 1.0])
        left = [0] * n
        tr = []
        for c in range(length):
            cyc = {"ready": int(rng.random() < p_ready)}
            for k in range(n):
                if adversarial:
                    v = rng.getrandbits(1)
                else:
                    if left[k] == 0 and rng.random() < p_start[k]:
                        left[k] = rng.choice([1, 1, 2, 3, 8])
                    v = int(left[k] > 0)
                    # a burst word is consumed only when this input could have been served; sometimes drop early
                    if left[k] and (rng.random() < 0.6):
                        left[k] -= 1
                cyc[f"valid{k}"] = v
                for f, w in fields:
                    cyc[f"{f}{k}"] = rng.getrandbits(w)
            tr.append(cyc)
        out.append(tr)
    return out


def _model(t):
    return f"{t.params['n']}%nat {t.params['bw']}"


def obligations(targets, tier):
    obs = []
    for t in targets:
        n = t.params["n"]
        if t.big:
            obs.append(tie.corr(f"corr_{t.name}", t, mstep=f"arb_step {_model(t)}", m0="0",
                                describe=f"arbiter model vs simulator: {t.name} (n={n}, {t.params['bw']}-bit blocks)"))
            continue
        obs.append(tie.rlock(
            f"ob_{t.name}", t,
            St="N", mstep=f"arb_step {_model(t)}", enc="(fun s : N => s)", dec="(fun s : N => s)",
            wf="(fun _ : N => True)", dec_enc="(fun s _ => eq_refl)", wf_step="(fun _ _ _ => I)",
            m0="0", wf_m0="exact I.", alpha_bits=t.in_bits, fuel=100000,
            describe=f"{t.name}: netlist == arbiter model (n={n}, {t.params['bw']}-bit blocks) on all input histories, "
                     f"all {t.in_bits}-bit input words per cycle"))
    return obs


def tie_theorems(targets, tier):
    s = ""
    for t in targets:
        if t.big: continue
        s += f"""
Theorem C26_{t.name} : forall tr, Forall (fun i => i < 2 ^ N.of_nat {t.in_bits}) tr ->
  run {t.modname}.step {t.modname}.init tr = run (sp_step {_model(t)}) 0%nat tr.
Proof.
  intros tr H. rewrite (ob_{t.name}_T.tie tr H (env_ok_true _ _ _ _)).
  apply arb_from_reset. lia.
Qed.
"""
    return s


def tie_theorem_names(targets, tier):
    return [f"C26_{t.name}" for t in targets if not t.big]


LEVEL_TEXT = ("Machine-checked proof. (1) For every number of inputs n >= 1, every block width and every input history (any valid/payload "
              "pattern on every input, any output back-pressure) the code-shaped model of StreamArbiter equals the owner-based "
              "specification (C26_arbiter_refines), and the specification is proved to have each clause of the property: the output "
              "carries the selected input's signals unmodified and ready goes to that input alone (C26_forward_selected_only, on the "
              "packed outputs), no switch while the selected input holds valid (C26_hold), lowest-numbered waiting input next "
              "(C26_priority/C26_stay), idle iff no input valid (C26_idle_iff), the sequence of words accepted from producers equals the "
              "sequence delivered to the consumer (C26_exactly_once), no interleaving inside a burst (C26_no_interleave). "
              "(2) For each R-tie configuration the netlist regenerated from /repo equals the model on all input histories "
              "(certified product reachability), giving C26_<cfg>: netlist run = specification run.")
LEVEL_NOTE = ("Trusted: Coq kernel + vm_compute, Amaranth elaboration, nir2coq.py/Netlist.v (validated each run against pysim). "
              "The netlist tie is per configuration: StreamArbiter/StreamInterface with 1-bit payload n=1..4, and HeaderQueueArbiter n=2 "
              "(thorough: 1..5) with only two header bits driven; full-width HeaderQueueArbiter / SuperSpeedStreamArbiter / 8- and 32-bit "
              "StreamArbiter are covered by simulator correspondence (differential test), not by proof. 1-bit valid only. "
              "No liveness/fairness claim.")
TECHNIQUE = ("Rocq proof: parametric refinement of a code-shaped model to an owner-based specification + trace theorems on the "
             "specification; certified product-reachability (lock-step) against the netlist regenerated from source; simulator correspondence at full widths")
