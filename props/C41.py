"""C41 -- LTSSM (luna/gateware/usb/usb3/link/ltssm.py: LTSSMController)."""
import os
from fractions import Fraction as F
from harness.core import Target
from harness import tie
from harness.tie_explicit import rlock_alpha

PID = "C41"
TIE_IMPORTS = "From LunaModel Require Import Ltssm Ltssm_proofs.\n"

IN_PORTS = ["in_usb_reset", "trigger_link_recovery", "phy_ready", "disable_scrambling", "link_partner_detected",
            "no_link_partner_detected", "lfps_polling_detected", "ts1_detected", "inverted_ts1_detected", "ts2_detected",
            "hot_reset_requested", "loopback_requested", "no_scrambling_requested", "ts_burst_complete",
            "idle_handshake_complete", "lfps_cycles_sent"]
OUT_PORTS = ["link_ready", "entering_u0", "enable_scrambling", "tx_electrical_idle", "engage_terminations",
             "invert_rx_polarity", "train_equalizer", "perform_rx_detection", "send_lfps_polling", "send_tseq_burst",
             "send_ts1_burst", "send_ts2_burst", "request_hot_reset", "request_no_scrambling", "perform_idle_handshake",
             "act_as_loopback", "emit_compliance_pattern"]


def ceil_(x):
    return -((-x.numerator) // x.denominator)


def timeouts(f):
    """(T12, T2, T360) in cycles, exact: ceil(t * f) for integer f [Hz]."""
    return tuple(ceil_(F(f) * t) for t in (F(12, 1000), F(2, 1000), F(360, 1000)))


def mk(f, loosen=True, big=False):
    def build():
        os.environ.pop("LUNA_COMPLIANCE", None)
        from luna.gateware.usb.usb3.link.ltssm import LTSSMController
        d = LTSSMController(ss_clock_frequency=float(f), loosen_requirements=loosen)
        return d, [(n, getattr(d, n)) for n in IN_PORTS], [(n, getattr(d, n)) for n in OUT_PORTS]
    t = Target(f"ltssm_{f}{'' if loosen else '_strict'}", build)
    t.f = f; t.loosen = loosen; t.big = big
    t.T12, t.T2, t.T360 = timeouts(f)
    return t


def cfg(t):
    return (f"{{| T12 := {t.T12}; T2 := {t.T2}; T360 := {t.T360}; cw := N.size {t.T360}; "
            f"loosen := {'true' if t.loosen else 'false'} |}}")


def targets(tier):
    ts = [mk(25), mk(1000, big=True), mk(125_000_000, big=True)]
    if tier != "quick":
        ts += [mk(100), mk(25, loosen=False), mk(250, big=True), mk(1000, loosen=False, big=True), mk(62_500_000, big=True)]
    return ts


# ---------------------------------------------------------------------------------------------
# Scripted stimulus: the events of a link bring-up in their usual order, separated by random gaps (sometimes longer
# than the timeouts), with warm resets injected alone and coinciding with the scripted events, and the optional
# requests (hot reset, loopback, scrambling, inverted TS1) sprinkled in.
BRINGUP = ["link_partner_detected", ("lfps_polling_detected", 16), ("", 21), "ts_burst_complete", "ts_burst_complete",
           "ts1_detected", "ts2_detected", "ts_burst_complete", "ts_burst_complete", "idle_handshake_complete"]
RECOVERY = ["ts1_detected", "ts_burst_complete", "ts2_detected", "ts_burst_complete", "ts_burst_complete",
            "idle_handshake_complete"]


def scripted(t, rng, n_cycles):
    tr = []
    sent = 0
    script = []

    def word(**kw):
        d = {n: 0 for n in IN_PORTS}
        d["phy_ready"] = 1
        d["lfps_cycles_sent"] = sent
        d.update(kw)
        return d
    long_gap = min(t.T12 + 3, 40)
    p_reset = rng.choice([0.0, 0.01, 0.05])
    p_coinc = rng.choice([0.0, 0.3, 0.6])
    p_opt = rng.choice([0.0, 0.02, 0.1])
    while len(tr) < n_cycles:
        if not script:
            script = list(BRINGUP if rng.random() < 0.6 else RECOVERY)
            if rng.random() < 0.3:
                script.insert(rng.randrange(len(script)), rng.choice(
                    ["trigger_link_recovery", "no_link_partner_detected", "inverted_ts1_detected", "hot_reset_requested",
                     "loopback_requested", "no_scrambling_requested"]))
        ev = script.pop(0)
        gap = rng.choice([0, 0, 1, 2, 3, rng.randint(0, 6), long_gap if rng.random() < 0.15 else 1])
        for _ in range(gap):
            w = word()
            if rng.random() < p_reset: w["in_usb_reset"] = 1
            if rng.random() < p_opt: w[rng.choice(IN_PORTS[:-1])] = 1
            if rng.random() < 0.2: w["disable_scrambling"] = rng.getrandbits(1)
            tr.append(w)
        if isinstance(ev, tuple):
            name, sent = ev
            w = word()
            if name: w[name] = 1
        else:
            w = word(); w[ev] = 1
        if rng.random() < p_coinc and ev in ("idle_handshake_complete", "ts_burst_complete", "ts1_detected", "link_partner_detected"):
            w["in_usb_reset"] = 1
        if rng.random() < 0.15: w["disable_scrambling"] = 1
        tr.append(w)
        if rng.random() < 0.05: sent = rng.choice([0, 12, 13, 17, 65535, rng.randrange(65536)])
    return tr[:n_cycles]


def traces(target, rng, tier):
    n = 14 if tier == "quick" else 60
    out = []
    for k in range(n):
        L = rng.randint(40, 260) if k % 5 else rng.randint(300, 300 + 3 * min(target.T360, 400))
        if k % 7 == 6:      # pure noise
            tr = []
            for c in range(L):
                d = {nm: int(rng.random() < 0.15) for nm in IN_PORTS[:-1]}
                d["phy_ready"] = 1
                d["lfps_cycles_sent"] = rng.choice([0, 12, 13, 16, 17, 20, 21, rng.randrange(65536)])
                tr.append(d)
            out.append(tr)
        else:
            out.append(scripted(target, rng, L))
    return out


# ---------------------------------------------------------------------------------------------
def rl(t, alpha, tag, fuel=400000):
    c = cfg(t)
    return rlock_alpha(
        f"ob_{t.name}_{tag}", t, St="lt_state", mstep=f"lt_step {c}", enc="lt_enc", dec="lt_dec", wf="lt_wf",
        dec_enc="lt_dec_enc", wf_step=f"lt_wf_step {c}", m0="lt_init", wf_m0="apply lt_wf_init.",
        alphabet=alpha, fuel=fuel,
        describe=f"LTSSMController({t.f} Hz, loosen={t.loosen}) == model (T12,T2,T360 = {t.T12},{t.T2},{t.T360}) in lock step, "
                 f"every trace over the input alphabet {alpha}")


def obligations(targets, tier):
    obs = []
    for t in targets:
        c = cfg(t)
        if t.big:
            obs.append(tie.cmon(f"spec_{t.name}", t, mon=f"(gh_mon {c})", m0="(gh_enc gh_init)",
                                describe=f"ghost-history specification (training order, reset, time-outs, scrambling) evaluated "
                                         f"over simulator traces of LTSSMController({t.f} Hz, loosen={t.loosen})"))
            obs.append(tie.corr(f"corr_{t.name}", t, mstep=f"lt_step {c}", m0="lt_init",
                                describe=f"LTSSM model vs simulator at {t.f} Hz, full-width random/scripted inputs"))
            continue
        small = tier == "quick" or t.f != 25 or not t.loosen
        # 1. the specification itself, as a reachability monitor over the regenerated netlist
        if t.f == 25 and t.loosen:
            a = "lt_alpha_small" if tier == "quick" else "lt_alpha_core"
            obs.append(tie.rmon(f"spec_{t.name}", t, mon=f"gh_mon {c}", m0="gh_enc gh_init", alpha_bits=31,
                                alphabet=a, fuel=400000,
                                describe=f"LTSSMController({t.f} Hz) satisfies the ghost-history specification on every "
                                         f"trace over {a} (certified reachability of netlist x monitor)"))
        # 2. netlist == model
        if tier == "quick":
            obs.append(rl(t, "lt_alpha_small", "small"))
        elif t.f == 25 and t.loosen:
            obs.append(rl(t, "lt_alpha_core", "core")); obs.append(rl(t, "lt_alpha_opt", "opt"))
        else:
            obs.append(rl(t, "lt_alpha_core", "core"))
    return obs


def tie_theorems(targets, tier):
    s = ""
    for o_t in obligations(targets, tier):
        if not o_t.kind.startswith("R-lockstep"):
            continue
        t = o_t.target; c = cfg(t); G = t.modname; nm = o_t.name
        s += f"""
Theorem C41_{nm}_meets_spec : forall tr, Forall (fun i => In i {nm}.alpha) tr ->
  gh_accepts_w {c} gh_init tr (run {G}.step {G}.init tr) = true.
Proof.
  intros tr H. rewrite ({nm}_T.tie tr H (env_ok_true _ _ _ _)).
  apply lt_meets_spec_w; vm_compute; reflexivity.
Qed.
"""
    return s


def tie_theorem_names(targets, tier):
    return [f"C41_{o.name}_meets_spec" for o in obligations(targets, tier) if o.kind.startswith("R-lockstep")]


ASSUMPTIONS = []
LEVEL_TEXT = "in progress"
LEVEL_NOTE = ""
TECHNIQUE = ""
