"""C41 -- LTSSM (luna/gateware/usb/usb3/link/ltssm.py: LTSSMController)."""
import os
from fractions import Fraction as F
from harness.core import Target
from harness import tie
from harness.tie_explicit import rlock_alpha

PID = "C41"
TIE_IMPORTS = "From LunaModel Require Import Ltssm Ltssm_proofs.\n"

IN_PORTS = ["in_usb_reset", "trigger_link_recovery", "phy_ready", "disable_scrambling", "link_partner_detected",
            "no_link_partner_detected", "lfps_polling_detected", "ts1_detected", "inverted_ts1_detected", "ts2_detected",
            "hot_reset_requested", "loopback_requested", "no_scrambling_requested", "ts_burst_complete",
            "idle_handshake_complete", "lfps_cycles_sent"]
OUT_PORTS = ["link_ready", "entering_u0", "enable_scrambling", "tx_electrical_idle", "engage_terminations",
             "invert_rx_polarity", "train_equalizer", "perform_rx_detection", "send_lfps_polling", "send_tseq_burst",
             "send_ts1_burst", "send_ts2_burst", "request_hot_reset", "request_no_scrambling", "perform_idle_handshake",
             "act_as_loopback", "emit_compliance_pattern"]


def ceil_(x):
    return -((-x.numerator) // x.denominator)


def timeouts(f):
    """(T12, T2, T360) in cycles, exact: ceil(t * f) for integer f [Hz]."""
    return tuple(ceil_(F(f) * t) for t in (F(12, 1000), F(2, 1000), F(360, 1000)))


def mk(f, loosen=True, big=False):
    def build():
        os.environ.pop("LUNA_COMPLIANCE", None)
        from luna.gateware.usb.usb3.link.ltssm import LTSSMController
        d = LTSSMController(ss_clock_frequency=float(f), loosen_requirements=loosen)
        return d, [(n, getattr(d, n)) for n in IN_PORTS], [(n, getattr(d, n)) for n in OUT_PORTS]
    t = Target(f"ltssm_{f}{'' if loosen else '_strict'}", build)
    t.f = f; t.loosen = loosen; t.big = big
    t.T12, t.T2, t.T360 = timeouts(f)
    return t


def cfg(t):
    return (f"{{| T12 := {t.T12}; T2 := {t.T2}; T360 := {t.T360}; cw := N.size {t.T360}; "
            f"loosen := {'true' if t.loosen else 'false'} |}}")


def targets(tier):
    # 177 Hz: ceil(0.36 f) = 64 = 2^6 -- the 360 ms compare value needs one bit more than 360 ms - 1 (a counter sized
    # range(T360) instead of range(T360 + 1) can never reach it); 300 Hz: ceil(0.012 f) = 4 = 2^2.
    ts = [mk(25), mk(177, big=True), mk(300, big=True), mk(1000, big=True), mk(125_000_000, big=True)]
    if tier != "quick":
        ts += [mk(177), mk(100), mk(25, loosen=False), mk(250, big=True), mk(1000, loosen=False, big=True), mk(62_500_000, big=True)]
        # the thorough tier ties 177 Hz by lock-step: drop the correspondence-only target of the same name
        small = {t.name for t in ts if not t.big}
        ts = [t for t in ts if not (t.big and t.name in small)]
    return ts


# ---------------------------------------------------------------------------------------------
# Scripted stimulus: the events of a link bring-up in their usual order, separated by random gaps (sometimes longer
# than the timeouts), with warm resets injected alone and coinciding with the scripted events, and the optional
# requests (hot reset, loopback, scrambling, inverted TS1) sprinkled in.
BRINGUP = ["link_partner_detected", ("lfps_polling_detected", 16), ("", 21), "ts_burst_complete", "ts_burst_complete",
           "ts1_detected", "ts2_detected", "ts_burst_complete", "ts_burst_complete", "idle_handshake_complete"]
RECOVERY = ["ts1_detected", "ts_burst_complete", "ts2_detected", "ts_burst_complete", "ts_burst_complete",
            "idle_handshake_complete"]


def scripted(t, rng, n_cycles):
    tr = []
    sent = 0
    script = []

    def word(**kw):
        d = {n: 0 for n in IN_PORTS}
        d["phy_ready"] = 1
        d["lfps_cycles_sent"] = sent
        d.update(kw)
        return d
    long_gap = min(t.T12 + 3, 40)
    p_reset = rng.choice([0.0, 0.01, 0.05])
    p_coinc = rng.choice([0.0, 0.3, 0.6])
    p_opt = rng.choice([0.0, 0.02, 0.1])
    while len(tr) < n_cycles:
        if not script:
            script = list(BRINGUP if rng.random() < 0.6 else RECOVERY)
            if rng.random() < 0.3:
                script.insert(rng.randrange(len(script)), rng.choice(
                    ["trigger_link_recovery", "no_link_partner_detected", "inverted_ts1_detected", "hot_reset_requested",
                     "loopback_requested", "no_scrambling_requested"]))
        ev = script.pop(0)
        gap = rng.choice([0, 0, 1, 2, 3, rng.randint(0, 6), long_gap if rng.random() < 0.15 else 1])
        for _ in range(gap):
            w = word()
            if rng.random() < p_reset: w["in_usb_reset"] = 1
            if rng.random() < p_opt: w[rng.choice(IN_PORTS[:-1])] = 1
            if rng.random() < 0.2: w["disable_scrambling"] = rng.getrandbits(1)
            tr.append(w)
        if isinstance(ev, tuple):
            name, sent = ev
            w = word()
            if name: w[name] = 1
        else:
            w = word(); w[ev] = 1
        if rng.random() < p_coinc and ev in ("idle_handshake_complete", "ts_burst_complete", "ts1_detected", "link_partner_detected"):
            w["in_usb_reset"] = 1
        if rng.random() < 0.15: w["disable_scrambling"] = 1
        tr.append(w)
        if rng.random() < 0.05: sent = rng.choice([0, 12, 13, 17, 65535, rng.randrange(65536)])
    return tr[:n_cycles]


def quiet_word(**kw):
    d = {n: 0 for n in IN_PORTS}
    d["phy_ready"] = 1
    d.update(kw)
    return d


def timeout_traces(t):
    """Silent-partner histories that sit in a timed state until its time-out must fire (only at scaled clocks)."""
    if t.T360 > 600:
        return []
    bring = [quiet_word(), quiet_word(link_partner_detected=1)]
    out = []
    # Polling.LFPS, partner never answers: 360 ms -> Compliance -> Rx.Detect; once more after polling was seen -> SS.Disabled
    out.append(bring + [quiet_word()] * (t.T360 + 6) + [quiet_word(link_partner_detected=1)] + [quiet_word()] * 4)
    out.append(bring + [quiet_word(lfps_polling_detected=1)] + [quiet_word()] * (t.T360 + 6))
    # Rx.Detect.Quiet (12 ms), Polling.Active (12 ms), Polling.Configuration (12 ms), Polling.Idle (2 ms)
    out.append([quiet_word(), quiet_word(no_link_partner_detected=1)] + [quiet_word()] * (t.T12 + 4))
    train = bring + [quiet_word(lfps_polling_detected=1, lfps_cycles_sent=16), quiet_word(lfps_cycles_sent=21),
                     quiet_word(ts_burst_complete=1)]
    out.append(train + [quiet_word()] * (t.T12 + 4))
    train2 = train + [quiet_word(ts_burst_complete=1), quiet_word(ts1_detected=1)]
    out.append(train2 + [quiet_word()] * (t.T12 + 4))
    train3 = train2 + [quiet_word(ts2_detected=1), quiet_word(ts_burst_complete=1), quiet_word(ts_burst_complete=1)]
    out.append(train3 + [quiet_word()] * (t.T2 + 4))
    return out


def traces(target, rng, tier):
    n = 14 if tier == "quick" else 30
    out = timeout_traces(target)
    for k in range(n):
        L = rng.randint(40, 260) if k % 5 else rng.randint(300, 300 + 3 * min(target.T360, 400))
        if k % 7 == 6:      # pure noise
            tr = []
            for c in range(L):
                d = {nm: int(rng.random() < 0.15) for nm in IN_PORTS[:-1]}
                d["phy_ready"] = 1
                d["lfps_cycles_sent"] = rng.choice([0, 12, 13, 16, 17, 20, 21, rng.randrange(65536)])
                tr.append(d)
            out.append(tr)
        else:
            out.append(scripted(target, rng, L))
    return out


# ---------------------------------------------------------------------------------------------
def rl(t, alpha, tag, fuel=400000):
    c = cfg(t)
    return rlock_alpha(
        f"ob_{t.name}_{tag}", t, St="lt_state", mstep=f"lt_step {c}", enc="lt_enc", dec="lt_dec", wf="lt_wf",
        dec_enc="lt_dec_enc", wf_step=f"lt_wf_step {c}", m0="lt_init", wf_m0="apply lt_wf_init.",
        alphabet=alpha, fuel=fuel,
        describe=f"LTSSMController({t.f} Hz, loosen={t.loosen}) == model (T12,T2,T360 = {t.T12},{t.T2},{t.T360}) in lock step, "
                 f"every trace over the input alphabet {alpha}")


def obligations(targets, tier):
    obs = []
    for t in targets:
        c = cfg(t)
        if t.big:
            obs.append(tie.cmon(f"spec_{t.name}", t, mon=f"(gh_mon {c})", m0="(gh_enc gh_init)",
                                describe=f"ghost-history specification (training order, reset, time-outs, scrambling) evaluated "
                                         f"over simulator traces of LTSSMController({t.f} Hz, loosen={t.loosen})"))
            obs.append(tie.corr(f"corr_{t.name}", t, mstep=f"lt_step {c}", m0="lt_init",
                                describe=f"LTSSM model vs simulator at {t.f} Hz, full-width random/scripted inputs"))
            continue
        # 1. the specification itself, as a reachability monitor over the regenerated netlist
        if t.f == 25 and t.loosen:
            a = "lt_alpha_small" if tier == "quick" else "lt_alpha_core"
            obs.append(tie.rmon(f"spec_{t.name}", t, mon=f"gh_mon {c}", m0="gh_enc gh_init", alpha_bits=31,
                                alphabet=a, fuel=400000,
                                describe=f"LTSSMController({t.f} Hz) satisfies the ghost-history specification on every "
                                         f"trace over {a} (certified reachability of netlist x monitor)"))
        # 2. netlist == model
        if tier == "quick" or t.f != 25 or not t.loosen:
            obs.append(rl(t, "lt_alpha_small", "small"))
        else:
            obs.append(rl(t, "lt_alpha_core", "core"))
            obs.append(rl(t, "lt_alpha_opt_a", "opt_a")); obs.append(rl(t, "lt_alpha_opt_b", "opt_b"))
    return obs


def tie_theorems(targets, tier):
    s = ""
    for o_t in obligations(targets, tier):
        if not o_t.kind.startswith("R-lockstep"):
            continue
        t = o_t.target; c = cfg(t); G = t.modname; nm = o_t.name
        s += f"""
Theorem C41_{nm}_meets_spec : forall tr, Forall (fun i => In i {nm}.alpha) tr ->
  gh_accepts_w {c} gh_init tr (run {G}.step {G}.init tr) = true.
Proof.
  intros tr H. rewrite ({nm}_T.tie tr H (env_ok_true _ _ _ _)).
  apply lt_meets_spec_w; vm_compute; reflexivity.
Qed.
"""
    return s


def tie_theorem_names(targets, tier):
    return [f"C41_{o.name}_meets_spec" for o in obligations(targets, tier) if o.kind.startswith("R-lockstep")]


ASSUMPTIONS = [
    "one list element = one ss clock cycle; 'reset' = a cycle with in_usb_reset = 1 (the link layer drives it with "
    "lfps_reset_detected | ~vbus_present; the power_on_reset port of LTSSMController is not connected to anything)",
    "phases are read off the outputs: receiver detection = perform_rx_detection, polling = send_lfps_polling, TS1 phase = "
    "send_ts1_burst, TS2 phase = send_ts2_burst, idle handshake = perform_idle_handshake; training entry = first cycle of "
    "send_ts1_burst (Polling.Active / Recovery.Active) or of request_hot_reset (Hot Reset.Active)",
    "'TS2 exchange completed' = ts_burst_complete while sending TS2 after ts2_detected was seen since the training entry; "
    "'polling LFPS exchanged' = lfps_polling_detected (or ts1_detected when loosen_requirements) while sending polling LFPS",
    "time-outs: T = ceil(t * f) recomputed exactly and compared with the code through the tie; a state entered in cycle t and "
    "timed with T cycles is occupied during cycles t..t+T at most, i.e. it is left T+1 cycles = timeout + one clock period after "
    "entry (8 ns at 125 MHz): stated as such in the theorems",
    "LUNA_COMPLIANCE is unset (Compliance falls through to Rx.Detect.Reset, as in normal builds)",
    "R ties at f = 25 Hz (T12,T2,T360 = 1,1,9; counter 4 bits; quick + thorough) and 100 Hz (2,1,36; thorough) over explicit input "
    "alphabets (Model/Ltssm.v: lt_alpha_small 16 words: quick, and 100 Hz / strict mode in thorough; lt_alpha_core 28 words, lt_alpha_opt_a 15 words, lt_alpha_opt_b 16 words at 25 Hz: thorough): every event "
    "alone, warm reset alone and coinciding with each event, lfps_cycles_sent around the Polling.LFPS thresholds, optional requests; "
    "input words outside the alphabets: correspondence + specification oracle on simulator traces at 1 kHz, 125 MHz (quick) + "
    "250 Hz, 62.5 MHz, strict mode (thorough); 177 Hz (T360 = 64 = 2^6: the compare value needs the counter's top bit) and "
    "300 Hz (T12 = 4) with silent-partner histories that cross every time-out (quick: correspondence + oracle; 177 Hz R tie in thorough)",
]
LEVEL_TEXT = ("Machine-checked proof about a code-shaped model, tied to the code. For every time-out configuration that fits the "
              "counter, both loosen modes and EVERY input history, the model's input/output trace is accepted by the ghost-history "
              "specification monitor (C41_ltssm_meets_spec): link_ready implies that since the last reset cycle a partner was "
              "detected, polling LFPS (or TS1 when loosened) and TS1/TS2 were exchanged and a TS2 burst completed after TS2 was "
              "seen, and that since the last training entry the TS2 exchange and then the idle handshake completed; link_ready is "
              "never asserted in the cycle after a reset cycle (so it falls within one cycle and U0 is not entered while reset "
              "lasts; C41_reset_honoured: a reset cycle always leads to Rx.Detect.Reset); TS1 / idle-handshake / polling / quiet "
              "phases last at most T12+1 / T2+1 / T360+1 / T12+1 cycles and every timed FSM state is occupied for at most T+1 "
              "consecutive cycles (C41_timeouts, state level, covers the TS2 phases); in U0 enable_scrambling is exactly 'neither "
              "side requested otherwise'. Tie: the netlist regenerated from /repo is (i) checked directly against the specification "
              "monitor by certified reachability and (ii) proved equal to the model in lock step, on all traces over the listed "
              "input alphabets at scaled clocks, giving C41_<target>_meets_spec for the netlist; correspondence and the specification "
              "oracle on simulator traces with full-width inputs at 1 kHz .. 125 MHz.")
LEVEL_NOTE = ("The UNCHANGED tree VIOLATES the property; ./check C41 exits 1 on it and 0 with findings/C41-warm-reset-priority.diff. "
              "handle_warm_resets() is the FIRST statement of each state, so any later transition of the same cycle overrides it, and "
              "Rx.Detect.Active/Quiet and Polling.LFPS do not handle warm reset at all: (1) in Polling.Idle / Recovery.Idle / Hot "
              "Reset.Exit, idle_handshake_complete together with in_usb_reset enters U0: link_ready is asserted while reset is held "
              "(findings/C41-u0-entered-during-reset.json); (2) a reset cycle that coincides with another transition (or falls into "
              "Polling.LFPS) is lost, the link reaches U0 without re-detection/re-training since that reset "
              "(findings/C41-reset-lost-when-coinciding.json; lfps_reset_detected is a one-cycle strobe, so this is realistic). The "
              "model gives reset priority in every state. With the patch, entering_u0 can pulse in a reset cycle without U0 being "
              "entered (it has no consumer). R ties cover explicit input alphabets at 25/100 Hz, not all 2^31 input words; time-outs "
              "are 'T+1 cycles', one clock period more than the nominal value. Trusted: Coq kernel + vm_compute, Amaranth elaboration, "
              "nir2coq.py/Netlist.v (validated each run against pysim).")
TECHNIQUE = ("Rocq proof: inductive invariant between the 22-state FSM model and a ghost-history specification monitor over "
             "inputs/outputs (all histories, parametric in the time-outs); certified reachability of netlist x monitor and netlist x "
             "model against the regenerated netlist; simulator correspondence + specification oracle")
