"""C08 -- address / configuration change only when SET_ADDRESS / SET_CONFIGURATION completes
(luna/gateware/usb/usb2/device.py, luna/gateware/usb/request/control.py, luna/gateware/usb/request/standard.py)."""
import os
from harness.core import Target
from harness.slice import SlicedTarget
from harness import tie, tie_alpha

PID = "C08"
ASSUMPTIONS = [
    "interface-event level (DESIGN.md section 3): the model consumes, per usb-domain cycle, SetupPacket.received/type/request/value, "
    "TokenDetectorInterface.new_token, RequestHandlerInterface.status_requested, handshakes_in.ack and USBResetSequencer.bus_reset. "
    "That these strobes are raised exactly for well-formed packets / in the right stage is the subject of C01, C04, C06 and C07",
    "environment of model = specification: the setup decoder's type/request/value outputs change only in a cycle in which `received` "
    "is high (true of USBSetupDecoder by construction: one statement block assigns them all); checked at run time on the complete "
    "device (the specification monitor reports a broken assumption as `None`, and the model-as-monitor needs no assumption)",
    "`the status stage of the request has been answered` is the control endpoint's status_requested strobe reaching the handler while the "
    "SET_ADDRESS / SET_CONFIGURATION request is pending (the handler then sends the zero-length status packet in that very cycle) AND "
    "while the token being answered is addressed to the control endpoint (tokenizer.endpoint = 0): the monitors on the control-endpoint "
    "and complete-device targets do not count a status_requested strobe raised for another endpoint's token; "
    "`no other transaction since` is: no TokenDetectorInterface.new_token since (tokens are filtered by device address before they reach "
    "this interface, so traffic addressed to OTHER DEVICES on a shared full-speed bus is outside this statement)",
    "request handlers other than the standard one: none may drive address_changed/config_changed (USBRequestHandlerMultiplexer selects "
    "the claiming handler; other LUNA endpoints never drive these strobes)",
    "tie configurations: (handler) StandardRequestHandler(descriptors = one device + one configuration descriptor, max_packet_size 64), sliced to "
    "the cone of address_changed/new_address/config_changed/new_config, with its GET_DESCRIPTOR sub-handler (a ROM reader whose byte counters make "
    "explicit-state closure infeasible) replaced by an empty stub whose `stall` output is a free input (subclass overriding "
    "get_descriptor_handler_submodule; the FSM elaborated is /repo's); R over an explicit product alphabet of its inputs (listed in the "
    "obligation); (handler_full) the unmodified class, correspondence and specification monitor on simulator traces only; (regs) the real USBDevice with two stub endpoints and a stub reset "
    "sequencer (so that the endpoints' write strobes and bus_reset are free inputs), sliced to the registers; (device_utmi) the complete "
    "real USBDevice with standard control endpoint, a USBSignalInEndpoint on endpoint 1 (always has data), a USBStreamInEndpoint on endpoint 2 "
    "(no data: NAKs) and a USBStreamOutEndpoint on endpoint 3, driven over UTMI by a scripted host that runs every kind of foreign transaction "
    "(IN+ACK, IN without ACK, NAKed IN, OUT+DATA ACKed / NAKed, PING) between the SETUP and the status stage and after a lost status ACK",
    "the model is the behaviour that satisfies the property; the unchanged tree commits the register write on ANY handshakes_in.ack "
    "(findings/C08-ack-any-endpoint.*) and keeps a stale request pending across a new SETUP (C07's finding, findings/C07-fresh-setup.diff)",
]
TIE_IMPORTS = "From LunaModel Require Import C08_AddrCfg C08_AddrCfg_proofs.\n"


# ------------------------------------------------------------------------------------------------------
# targets
# ------------------------------------------------------------------------------------------------------
def descriptors():
    from usb_protocol.emitters import DeviceDescriptorCollection
    desc = DeviceDescriptorCollection()
    with desc.DeviceDescriptor() as dd:
        dd.idVendor = 0x1209; dd.idProduct = 1; dd.bNumConfigurations = 1
    with desc.ConfigurationDescriptor() as c:
        with c.InterfaceDescriptor() as i:
            i.bInterfaceNumber = 0
            with i.EndpointDescriptor() as e:
                e.bEndpointAddress = 0x81; e.wMaxPacketSize = 64
    return desc


H_INS = ["s_recv", "s_type", "s_req", "s_value", "new_token", "status_req", "ack", "data_req", "s_len", "s_recipient", "tx_ready"]


def mk_handler(stub):
    """stub=True: the GET_DESCRIPTOR sub-handler (a ROM reader with byte counters, irrelevant here) is replaced by an empty module
    whose `stall` output is a free input, by overriding StandardRequestHandler.get_descriptor_handler_submodule in a subclass;
    elaborate() -- the FSM under test -- is /repo's.  stub=False: the class exactly as in /repo."""
    def build():
        from amaranth import Elaboratable, Module, Signal
        from luna.gateware.usb.request.standard import StandardRequestHandler
        from luna.gateware.usb.stream import USBInStreamInterface

        class StubDescriptorHandler(Elaboratable):
            def __init__(self):
                self.value = Signal(16); self.length = Signal(16); self.start = Signal(); self.start_position = Signal(11)
                self.tx = USBInStreamInterface(); self.stall = Signal()
            def elaborate(self, platform):
                return Module()
        gd = StubDescriptorHandler()

        class Handler(StandardRequestHandler):
            def get_descriptor_handler_submodule(self):
                return gd
        h = (Handler if stub else StandardRequestHandler)(descriptors(), max_packet_size=64)
        i = h.interface
        ins = [("s_recv", i.setup.received), ("s_type", i.setup.type), ("s_req", i.setup.request), ("s_value", i.setup.value),
               ("new_token", i.tokenizer.new_token), ("status_req", i.status_requested), ("ack", i.handshakes_in.ack),
               # inputs read by the handler's other states; they must not influence the write strobes
               ("data_req", i.data_requested), ("s_len", i.setup.length), ("s_recipient", i.setup.recipient), ("tx_ready", i.tx.ready),
               ("gd_stall", gd.stall)]
        outs = [("address_changed", i.address_changed), ("new_address", i.new_address),
                ("config_changed", i.config_changed), ("new_config", i.new_config)]
        return h, ins, outs
    t = SlicedTarget("handler" if stub else "handler_full", build); t.kind = "handler" if stub else "handler_full"
    return t


C_LAYOUT = [("s_recv", 1), ("s_type", 2), ("s_req", 8), ("s_value", 16), ("new_token", 1), ("ack", 1),
            ("rfr", 1), ("is_in", 1), ("is_out", 1), ("is_setup", 1), ("is_ping", 1), ("endpoint", 4),
            ("s_len", 16), ("s_isin", 1), ("s_recipient", 5), ("rx_rfr", 1), ("gd_stall", 1), ("tx_ready", 1)]


def mk_ctl():
    """the real USBControlEndpoint(endpoint 0) with one StandardRequestHandler (and the multiplexer's StallOnly fallback); USBSetupDecoder
    and the GET_DESCRIPTOR sub-handler replaced by port-only stubs (SetupPacket and `stall` become inputs).  Inputs on the control
    endpoint's EndpointInterface, i.e. BEFORE its forwarding of tokens / handshakes to the request handlers."""
    def build():
        from amaranth import Elaboratable, Module, Signal
        import luna.gateware.usb.usb2.control as ctlmod
        from luna.gateware.usb.usb2.control import USBControlEndpoint
        from luna.gateware.usb.request.standard import StandardRequestHandler
        from luna.gateware.usb.request import SetupPacket
        from luna.gateware.usb.stream import USBInStreamInterface
        from luna.gateware.usb.usb2.packet import DataCRCInterface, TokenDetectorInterface, InterpacketTimerInterface
        from luna.gateware.interface.utmi import UTMIInterface

        class StubDecoder(Elaboratable):
            def __init__(self):
                self.data_crc = DataCRCInterface(); self.tokenizer = TokenDetectorInterface()
                self.timer = InterpacketTimerInterface(); self.speed = Signal(2)
                self.packet = SetupPacket(); self.ack = Signal()
            def elaborate(self, platform): return Module()

        class StubDesc(Elaboratable):
            def __init__(self):
                self.value = Signal(16); self.length = Signal(16); self.start = Signal(); self.start_position = Signal(11)
                self.tx = USBInStreamInterface(); self.stall = Signal()
            def elaborate(self, platform): return Module()
        dec = StubDecoder(); desc = StubDesc()

        class Std(StandardRequestHandler):
            def get_descriptor_handler_submodule(self): return desc

        class Ctl(USBControlEndpoint):
            def elaborate(self, platform):
                o = ctlmod.USBSetupDecoder; ctlmod.USBSetupDecoder = lambda *a, **k: dec
                try: return super().elaborate(platform)
                finally: ctlmod.USBSetupDecoder = o
        std = Std(descriptors(), max_packet_size=64)
        d = Ctl(utmi=UTMIInterface(), endpoint_number=0, max_packet_size=64)
        d.add_request_handler(std)
        i = d.interface; tk = i.tokenizer; sp = dec.packet
        ins = [("s_recv", sp.received), ("s_type", sp.type), ("s_req", sp.request), ("s_value", sp.value),
               ("new_token", tk.new_token), ("ack", i.handshakes_in.ack),
               ("rfr", tk.ready_for_response), ("is_in", tk.is_in), ("is_out", tk.is_out), ("is_setup", tk.is_setup),
               ("is_ping", tk.is_ping), ("endpoint", tk.endpoint), ("s_len", sp.length), ("s_isin", sp.is_in_request),
               ("s_recipient", sp.recipient), ("rx_rfr", i.rx_ready_for_response), ("gd_stall", desc.stall), ("tx_ready", i.tx.ready)]
        assert [n for n, _ in ins] == [n for n, _ in C_LAYOUT]
        outs = [("address_changed", i.address_changed), ("new_address", i.new_address), ("config_changed", i.config_changed),
                ("new_config", i.new_config), ("status_requested", std.interface.status_requested)]
        return d, ins, outs
    t = SlicedTarget("ctl", build); t.kind = "ctl"
    return t


def mk_regs():
    def build():
        from amaranth import Elaboratable, Module, Signal
        from luna.gateware.usb.usb2.device import USBDevice
        import luna.gateware.usb.usb2.device as devmod
        from luna.gateware.usb.usb2.endpoint import EndpointInterface
        from luna.gateware.interface.utmi import UTMIInterface, UTMITransmitInterface
        class StubEndpoint(Elaboratable):
            def __init__(self):
                self.interface = EndpointInterface()
            def elaborate(self, platform):
                return Module()

        class StubResetSequencer(Elaboratable):
            def __init__(self):
                self.low_speed_only = Signal(); self.full_speed_only = Signal()
                self.bus_busy = Signal(); self.vbus_connected = Signal(); self.line_state = Signal(2)
                self.disconnect = Signal(); self.bus_reset = Signal(); self.suspended = Signal()
                self.current_speed = Signal(2, init=1); self.operating_mode = Signal(2); self.termination_select = Signal(init=1)
                self.tx = UTMITransmitInterface()
            def elaborate(self, platform):
                return Module()
        rs = StubResetSequencer()

        class Dev(USBDevice):
            def elaborate(self, platform):
                orig = devmod.USBResetSequencer
                devmod.USBResetSequencer = lambda: rs
                try:
                    return super().elaborate(platform)
                finally:
                    devmod.USBResetSequencer = orig
        d = Dev(bus=UTMIInterface())
        a = StubEndpoint(); b = StubEndpoint()
        d.add_endpoint(a); d.add_endpoint(b)
        ins = [("a_address_changed", a.interface.address_changed), ("a_new_address", a.interface.new_address),
               ("a_config_changed", a.interface.config_changed), ("a_new_config", a.interface.new_config),
               ("b_address_changed", b.interface.address_changed), ("b_new_address", b.interface.new_address),
               ("b_config_changed", b.interface.config_changed), ("b_new_config", b.interface.new_config),
               ("bus_reset", rs.bus_reset)]
        outs = [("active_address", b.interface.active_address), ("active_config", b.interface.active_config)]
        return d, ins, outs
    t = SlicedTarget("regs", build); t.kind = "regs"
    return t


DEV_INS = ["rx_active", "rx_valid", "rx_data", "line_state", "session_end", "connect", "tx_ready", "signal", "out_ready"]


def build_device():
    from luna.gateware.usb.usb2.device import USBDevice
    from luna.gateware.interface.utmi import UTMIInterface
    from luna.gateware.usb.usb2.endpoints.status import USBSignalInEndpoint
    u = UTMIInterface()
    d = USBDevice(bus=u)
    ctl = d.add_standard_control_endpoint(descriptors())
    from luna.gateware.usb.usb2.endpoints.stream import USBStreamInEndpoint, USBStreamOutEndpoint
    sig = USBSignalInEndpoint(width=8, endpoint_number=1, endianness="little")      # IN endpoint that always has data queued
    nak_in = USBStreamInEndpoint(endpoint_number=2, max_packet_size=8)               # IN endpoint without data: NAKs
    out_ep = USBStreamOutEndpoint(endpoint_number=3, max_packet_size=8)              # OUT endpoint (ACK / NAK / PING)
    for e in (sig, nak_in, out_ep):
        d.add_endpoint(e)
    h = ctl._request_handlers[0]
    ins = [("rx_active", u.rx_active), ("rx_valid", u.rx_valid), ("rx_data", u.rx_data), ("line_state", u.line_state),
           ("session_end", u.session_end), ("connect", d.connect), ("tx_ready", u.tx_ready), ("signal", sig.signal),
           ("out_ready", out_ep.stream.ready)]
    outs = [("active_address", ctl.interface.active_address), ("active_config", ctl.interface.active_config),
            ("s_recv", h.interface.setup.received), ("s_type", h.interface.setup.type), ("s_req", h.interface.setup.request),
            # tokens and handshakes as the DEVICE delivers them to the control endpoint (EndpointInterface), not as the control
            # endpoint forwards them to its request handlers: the forwarding is part of what is checked
            ("s_value", h.interface.setup.value), ("new_token", ctl.interface.tokenizer.new_token),
            ("status_req", h.interface.status_requested), ("ack", ctl.interface.handshakes_in.ack), ("bus_reset", d.reset_detected),
            # wire level, for the host script and for the reader of a replay (not read by the monitors)
            ("tx_valid", u.tx_valid), ("tx_data", u.tx_data),
            # the endpoint of the token being answered: status_requested counts as the status stage only for endpoint 0
            ("tok_endpoint", ctl.interface.tokenizer.endpoint)]
    return d, ins, outs


def mk_device():
    t = SlicedTarget("device_utmi", build_device); t.kind = "device"
    return t


def targets(tier):
    if os.environ.get("C08_ONLY"):
        want = os.environ["C08_ONLY"].split(",")
        return [t for t in (mk_handler(True), mk_handler(False), mk_ctl(), mk_regs(), mk_device()) if t.kind in want]
    if tier == "quick":
        return [mk_handler(True), mk_ctl(), mk_regs(), mk_device()]
    return [mk_handler(True), mk_handler(False), mk_ctl(), mk_regs(), mk_device()]


# ------------------------------------------------------------------------------------------------------
# generators
# ------------------------------------------------------------------------------------------------------
def crc5(x, n=11):
    crc = 0x1f
    for k in range(n):
        top = ((crc >> 4) & 1) ^ ((x >> k) & 1)
        crc = (crc << 1) & 0x1f
        if top: crc ^= 0x05
    crc ^= 0x1f
    return int('{:05b}'.format(crc)[::-1], 2)


def crc16(data):
    crc = 0xffff
    for b in data:
        for k in range(8):
            top = ((crc >> 15) & 1) ^ ((b >> k) & 1)
            crc = (crc << 1) & 0xffff
            if top: crc ^= 0x8005
    crc ^= 0xffff
    r = int('{:016b}'.format(crc)[::-1], 2)
    return [r & 0xff, r >> 8]


P = dict(OUT=0x1, IN=0x9, SOF=0x5, SETUP=0xD, DATA0=0x3, DATA1=0xB, ACK=0x2, NAK=0xA, STALL=0xE, PING=0x4)


def pidb(p):
    return p | ((p ^ 0xF) << 4)


def token(pid, addr, ep):
    x = (addr & 0x7f) | (ep << 7)
    return [pidb(pid), x & 0xff, (x >> 8) | (crc5(x) << 3)]


def datapkt(pid, data):
    return [pidb(pid)] + list(data) + crc16(data)


class Host:
    """Scripted USB host driving the complete device over UTMI in closed loop on Amaranth's simulator; records the
    per-cycle input words, which the harness then replays open-loop (the device is deterministic)."""
    def __init__(self, rng):
        self.rng = rng
        self.trace = []
        self.addr = 0            # the address the host believes the device has
        self.base = dict(rx_active=0, rx_valid=0, rx_data=0, line_state=1, session_end=0, connect=1, tx_ready=1, signal=0x5a, out_ready=1)
        self.out_tog = 0         # the host's DATA toggle for OUT endpoint 3

    def run(self, script):
        from amaranth.sim import Simulator
        d, ins, outs = build_device()
        insig = dict(ins); outsig = dict(outs)
        sim = Simulator(d)
        sim.add_clock(1e-6, domain="usb")
        host = self

        async def tb(ctx):
            async def cyc(**k):
                c = dict(host.base); c.update(k)
                for n, v in c.items():
                    ctx.set(insig[n], v)
                host.trace.append(c)
                txv = ctx.get(outsig["tx_valid"]); txd = ctx.get(outsig["tx_data"])
                await ctx.tick("usb")
                return txv, txd
            host.cyc = cyc
            await script(host)
        sim.add_testbench(tb)
        sim.run()
        return self.trace

    async def idle(self, n=1, **k):
        for _ in range(n):
            await self.cyc(**k)

    async def send(self, data, gap=2):
        await self.cyc(rx_active=1, rx_valid=0, rx_data=self.rng.randrange(256))
        for b in data:
            await self.cyc(rx_active=1, rx_valid=1, rx_data=b)
        await self.idle(gap)

    async def recv(self, timeout=40):
        out = []
        for _ in range(timeout):
            v, dta = await self.cyc()
            if v:
                out.append(dta)
                break
        else:
            return out
        while True:
            v, dta = await self.cyc()
            if not v:
                break
            out.append(dta)
        return out

    # ---- transactions --------------------------------------------------------------------------
    async def setup(self, bm, req, value=0, index=0, length=0, addr=None, ep=0, corrupt=False):
        a = self.addr if addr is None else addr
        await self.send(token(P["SETUP"], a, ep))
        pkt = datapkt(P["DATA0"], [bm, req, value & 0xff, value >> 8, index & 0xff, index >> 8, length & 0xff, length >> 8])
        if corrupt:
            pkt[3] ^= 0x10
        await self.send(pkt)
        return await self.recv()

    async def in_xact(self, ep, ack=True, addr=None):
        a = self.addr if addr is None else addr
        await self.send(token(P["IN"], a, ep))
        data = await self.recv()
        got_data = len(data) >= 3 and (data[0] & 0x3) == 0x3
        if got_data and ack:
            await self.idle(self.rng.choice([1, 2, 3]))
            await self.send([pidb(P["ACK"])])
        return data

    async def out_xact(self, ep, data, pid="DATA1", addr=None):
        a = self.addr if addr is None else addr
        await self.send(token(P["OUT"], a, ep))
        await self.send(datapkt(P[pid], data))
        return await self.recv()

    async def out3(self, data, out_ready=1):
        """OUT + DATA on endpoint 3 with the host's running toggle; the toggle advances on ACK"""
        self.base["out_ready"] = out_ready
        r = await self.out_xact(3, data, pid="DATA1" if self.out_tog else "DATA0")
        if r and r[0] == pidb(P["ACK"]):
            self.out_tog ^= 1
        return r

    async def ping(self, ep, addr=None):
        a = self.addr if addr is None else addr
        await self.send(token(P["PING"], a, ep))
        return await self.recv()

    async def bus_reset(self):
        if self.rng.random() < 0.5:
            await self.idle(self.rng.choice([1, 2, 5]), session_end=1)
        else:
            await self.idle(305, line_state=0)
        await self.idle(3)
        self.addr = 0


def device_script(rng, kind):
    """One host script.  kind selects the emphasis; every script mixes endpoint-1 IN transfers into control transfers."""
    async def other_traffic(h, p=0.6):
        while rng.random() < p:
            r = rng.random()
            if r < 0.45:
                await h.in_xact(1, ack=rng.random() < 0.85)              # IN with queued data (+ ACK)
            elif r < 0.58:
                await h.in_xact(2, ack=True)                            # IN on an endpoint without data: NAK
            elif r < 0.74:
                await h.out3([rng.randrange(256) for _ in range(rng.choice([0, 1, 8]))], out_ready=int(rng.random() < 0.7))   # OUT + DATA + handshake
            elif r < 0.82:
                await h.ping(3)                                         # PING
            elif r < 0.88:
                await h.in_xact(rng.choice([5, 9]), ack=True)           # endpoint without a function: no answer
            else:
                await h.send([pidb(P["ACK"])])                         # stray handshake
            await h.idle(rng.choice([0, 1, 3]))

    async def every_kind(h):
        """one transaction of every kind on the other endpoints, in random order"""
        kinds = ["in_ack", "in_noack", "in_nak", "out", "out_nak", "ping"]
        rng.shuffle(kinds)
        for kd in kinds:
            if kd == "in_ack": await h.in_xact(1, ack=True)
            elif kd == "in_noack": await h.in_xact(1, ack=False)
            elif kd == "in_nak": await h.in_xact(2, ack=True)
            elif kd == "out": await h.out3([rng.randrange(256) for _ in range(rng.choice([1, 8]))], out_ready=1)
            elif kd == "out_nak": await h.out3([rng.randrange(256) for _ in range(8)], out_ready=0)
            else: await h.ping(3)
            await h.idle(rng.choice([0, 1, 3]))

    async def set_request(h, req, value, interleave=True, lose_ack=False, length=0, force=False):
        await h.setup(0x00, req, value=value, length=length)
        await h.idle(rng.choice([1, 2, 4]))
        if force:
            await every_kind(h)
        if interleave:
            await other_traffic(h)
        data = await h.in_xact(0, ack=not lose_ack)
        done = (len(data) >= 3) and not lose_ack
        if done and req == 5:
            h.addr = value & 0x7f
        await h.idle(rng.choice([1, 2, 4]))
        return done

    async def get_request(h, bm, req, value, length, finish=True):
        await h.setup(bm, req, value=value, length=length)
        await h.idle(2)
        for _ in range(rng.choice([1, 1, 2])):
            data = await h.in_xact(0, ack=True)
            if rng.random() < 0.5:
                await other_traffic(h, 0.4)
            if len(data) < 3 + 64:
                break
        if finish:
            await h.out_xact(0, [], pid="DATA1")
        await h.idle(2)

    async def script(h):
        await h.idle(rng.choice([2, 4]))
        if kind == "lostack":             # status ZLP sent, the host's ACK lost, and the very next transaction is an ACKed IN elsewhere
            reqs = [(5, rng.choice([0x31, 0x1B1, 0x55])), (9, rng.choice([1, 0xB1, 0x1FF]))]
            if rng.random() < 0.5: reqs.reverse()
            for req, value in reqs:
                await set_request(h, req, value, interleave=rng.random() < 0.5, lose_ack=True)
                await h.in_xact(1, ack=True)
                await h.idle(rng.choice([1, 3]))
                await every_kind(h)                 # STATUS_IN lingers after the lost ACK: every kind of foreign transaction
                await other_traffic(h, 0.4)
                if rng.random() < 0.5:    # the host retries the status stage and this time its ACK arrives
                    data = await h.in_xact(0, ack=True)
                    if len(data) >= 3 and req == 5: h.addr = value & 0x7f
            return
        if kind == "interleave":          # the case the unit tests never produce
            await set_request(h, 5, rng.choice([0x31, 0x1B1, 0x7F, 0x01]), force=True)
            await other_traffic(h, 0.5)
            await set_request(h, 9, rng.choice([1, 0xB1, 0x1FF]), force=True)
            await other_traffic(h, 0.5)
            return
        for _ in range(rng.randint(2, 5)):
            r = rng.random()
            if r < 0.30:
                await set_request(h, 5, rng.randrange(1 << rng.choice([7, 8, 16])), lose_ack=rng.random() < 0.25)
            elif r < 0.55:
                await set_request(h, 9, rng.randrange(1 << rng.choice([1, 8, 16])), lose_ack=rng.random() < 0.25)
            elif r < 0.65:
                await get_request(h, 0x80, 6, 0x0100, 18, finish=rng.random() < 0.8)       # GET_DESCRIPTOR(device)
            elif r < 0.72:
                await get_request(h, 0x80, 0, 0, 2, finish=rng.random() < 0.8)             # GET_STATUS
            elif r < 0.78:
                await get_request(h, 0x80, 8, 0, 1, finish=rng.random() < 0.8)             # GET_CONFIGURATION
            elif r < 0.84:
                await set_request(h, 1, 0, lose_ack=rng.random() < 0.3)                    # CLEAR_FEATURE(ENDPOINT_HALT), device recipient
            elif r < 0.90:
                await h.setup(0x40, rng.choice([5, 9, 0x23]), value=rng.randrange(65536))  # vendor request with the same codes
                await other_traffic(h, 0.5)
                await h.in_xact(0, ack=True)
            elif r < 0.94:
                await h.setup(0x00, rng.choice([5, 9]), value=rng.randrange(65536), corrupt=True)   # bad CRC: never received
                await other_traffic(h, 0.5)
                await h.in_xact(0, ack=True)
            else:
                await h.bus_reset()
            await other_traffic(h, 0.4)
            if rng.random() < 0.15:
                await h.bus_reset()
    return script


def device_traces(rng, n):
    out = []
    for k in range(n):
        h = Host(rng)
        out.append(h.run(device_script(rng, "interleave" if k % 4 == 0 else "lostack" if k % 4 == 1 else "mixed")))
    return out


H_VALUES = [0x01B1, 0x0100, 0x0000, 0xFF4E]
H_REQS = [5, 9, 0, 6, 1, 8, 3]


def handler_traces(rng, n):
    out = []
    for k in range(n):
        tr = []
        cur = dict(s_type=0, s_req=0, s_value=0, s_len=0, s_recipient=0)
        for _ in range(rng.randint(10, 80)):
            c = dict(s_recv=0, new_token=0, status_req=0, ack=0, data_req=0, tx_ready=rng.randrange(2), gd_stall=int(rng.random() < 0.1))
            r = rng.random()
            if r < 0.2:
                cur = dict(s_type=rng.choice([0, 0, 0, 2, 1]), s_req=rng.choice(H_REQS + [rng.randrange(256)]),
                           s_value=rng.choice(H_VALUES + [rng.randrange(65536)]), s_len=rng.choice([0, 2, 18, 64]),
                           s_recipient=rng.choice([0, 1, 2]))
                c["s_recv"] = 1
            elif r < 0.4: c["new_token"] = 1
            elif r < 0.55: c["status_req"] = 1
            elif r < 0.75: c["ack"] = 1
            elif r < 0.85: c["data_req"] = 1
            if k % 5 == 4:          # adversarial: coinciding strobes
                for f in ("new_token", "status_req", "ack", "data_req"):
                    if rng.random() < 0.2: c[f] = 1
            c.update(cur)
            tr.append(c)
        out.append(tr)
    return out


PIDF = {"IN": dict(is_in=1), "OUT": dict(is_out=1), "SETUP": dict(is_setup=1), "PING": dict(is_ping=1)}


def ctl_traces(rng, n):
    """event-level control transfers with foreign tokens / ACKs in between (setup fields stable between `received` strobes)"""
    out = []
    for k in range(n):
        tr = []
        cur = dict(s_type=0, s_req=0, s_value=0, s_len=0, s_isin=0, s_recipient=0)
        tok = dict(endpoint=0)
        def cyc(**kw):
            c = dict(s_recv=0, new_token=0, ack=0, rfr=0, is_in=0, is_out=0, is_setup=0, is_ping=0, rx_rfr=0,
                     gd_stall=int(rng.random() < 0.05), tx_ready=rng.randrange(2))
            c.update(cur); c.update(tok); c.update(kw); return c
        def token(pid, ep, respond=True):
            nonlocal tok
            tok = dict(endpoint=ep); tok.update(PIDF[pid])
            tr.append(cyc(new_token=1))
            for _ in range(rng.randint(1, 3)): tr.append(cyc())
            if respond: tr.append(cyc(rfr=1))
            for _ in range(rng.randint(0, 2)): tr.append(cyc())
        for _ in range(rng.randint(2, 6)):
            token("SETUP", rng.choice([0, 0, 0, 2]), respond=False)
            cur = dict(s_type=rng.choice([0, 0, 0, 2]), s_req=rng.choice([5, 9, 5, 9, 6, 0, 3, rng.randrange(256)]),
                       s_value=rng.choice(H_VALUES + [rng.randrange(65536)]), s_len=rng.choice([0, 0, 0, 2, 18]),
                       s_isin=rng.randrange(2), s_recipient=rng.choice([0, 2]))
            tr.append(cyc(s_recv=1))
            for _ in range(rng.randint(1, 6)):
                r = rng.random()
                if r < 0.45:
                    token("IN", 0)
                    if rng.random() < 0.7: tr.append(cyc(ack=1))
                elif r < 0.75:
                    token("IN", rng.choice([1, 2]))
                    if rng.random() < 0.8: tr.append(cyc(ack=1))
                elif r < 0.9:
                    token("OUT", rng.choice([0, 0, 1]), respond=False)
                    for _ in range(rng.randint(1, 3)): tr.append(cyc())
                    tr.append(cyc(rx_rfr=1))
                else:
                    tr.append(cyc(ack=1))
        tr.append(cyc())
        out.append(tr)
    return out


def regs_traces(rng, n):
    out = []
    for k in range(n):
        tr = []
        for _ in range(rng.randint(5, 60)):
            c = {}
            for e in "ab":
                c[f"{e}_address_changed"] = int(rng.random() < 0.2); c[f"{e}_new_address"] = rng.randrange(128)
                c[f"{e}_config_changed"] = int(rng.random() < 0.2); c[f"{e}_new_config"] = rng.randrange(256)
            c["bus_reset"] = int(rng.random() < 0.1)
            tr.append(c)
        out.append(tr)
    return out


def traces(target, rng, tier):
    q = tier == "quick"
    if target.kind in ("handler", "handler_full"):
        return handler_traces(rng, 30 if q else 200)
    if target.kind == "regs":
        return regs_traces(rng, 20 if q else 100)
    if target.kind == "ctl":
        return ctl_traces(rng, 20 if q else 100)
    return device_traces(rng, 16 if q else 120)


# ------------------------------------------------------------------------------------------------------
# obligations
# ------------------------------------------------------------------------------------------------------
def pack(layout_names_widths, c):
    w = 0; sh = 0
    for n, wd in layout_names_widths:
        w |= (c.get(n, 0) & ((1 << wd) - 1)) << sh; sh += wd
    return w


H_LAYOUT = [("s_recv", 1), ("s_type", 2), ("s_req", 8), ("s_value", 16), ("new_token", 1), ("status_req", 1), ("ack", 1),
            ("data_req", 1), ("s_len", 16), ("s_recipient", 5), ("tx_ready", 1), ("gd_stall", 1)]


def handler_alphabet(tier, spec=False):
    """explicit product alphabet of the handler's inputs.  spec=True: the thinner alphabet of the specification-monitor obligation
    (its monitor also remembers the previous cycle's setup fields, which multiplies the product states)."""
    import itertools
    if spec:
        types = [0, 2]; reqs = [5, 9, 3]; vals = [0x01B1, 0x0100] if tier == "quick" else [0x01B1, 0x0100, 0xFF4E]; lens = [0]; recs = [0]
        nbits = 5
    elif tier == "quick":
        types = [0, 2]; reqs = [5, 9, 6, 3, 1, 0]; vals = [0x01B1, 0x0100]; lens = [18]; recs = [0]
        nbits = 7
    else:
        types = [0, 1, 2]; reqs = H_REQS; vals = [0x01B1, 0x0100, 0xFF4E]; lens = [18]; recs = [0]     # 8064 words (much longer lists overflow coqc's stack)
        nbits = 7
    fparts = [pack(H_LAYOUT, dict(s_type=ty, s_req=rq, s_value=vl, s_len=ln, s_recipient=rc))
              for ty, rq, vl, ln, rc in itertools.product(types, reqs, vals, lens, recs)]
    bparts = [pack(H_LAYOUT, dict(s_recv=bits & 1, new_token=(bits >> 1) & 1, status_req=(bits >> 2) & 1, ack=(bits >> 3) & 1,
                                  data_req=(bits >> 4) & 1, tx_ready=(bits >> 5) & 1, gd_stall=(bits >> 6) & 1))
              for bits in range(1 << nbits)]
    # the two parts occupy disjoint bit positions: their sum is the packed word
    letters = f"flat_map (fun f => map (fun b => f + b) {nl(bparts)}) {nl(fparts)}"
    names = "received/new_token/status_requested/ack/data_requested/tx.ready/get_descriptor.stall".split("/")[:nbits]
    desc = (f"setup.type in {types}, request in {reqs}, value in {[hex(v) for v in vals]}, length in {lens}, recipient in {recs}, "
            f"all {1 << nbits} combinations of {'/'.join(names)}" + ("" if nbits == 7 else " (other inputs 0)"))
    return letters, desc


def ctl_alphabet(tier):
    """explicit product alphabet for the control-endpoint target: setup fields x token state x strobes"""
    import itertools
    vals = [0x01B1] if tier == "quick" else [0x01B1, 0x0100]
    fparts = [pack(C_LAYOUT, dict(s_type=ty, s_req=rq, s_value=vl)) for ty, rq, vl in itertools.product([0, 2], [5, 9, 3], vals)]
    pids = ["IN", "SETUP"] if tier == "quick" else ["IN", "OUT", "SETUP"]
    tparts = []
    for (nt, rf), pid, ep in itertools.product([(0, 0), (1, 0), (0, 1)], pids, [0, 1]):
        c = dict(new_token=nt, rfr=rf, endpoint=ep); c.update(PIDF[pid]); tparts.append(pack(C_LAYOUT, c))
    bparts = [pack(C_LAYOUT, dict(s_recv=b & 1, ack=(b >> 1) & 1)) for b in range(4)]
    expr = (f"flat_map (fun f => flat_map (fun t => map (fun b => f + t + b) {nl(bparts)}) {nl(tparts)}) {nl(fparts)}")
    desc = (f"setup.type in [0, 2], request in [5, 9, 3], value in {[hex(v) for v in vals]}, wLength 0; token {pids} for endpoint 0 / 1 with "
            f"new_token, ready_for_response or neither; every received / ack combination (other inputs 0)")
    return expr, desc


R_LAYOUT = [("a_address_changed", 1), ("a_new_address", 7), ("a_config_changed", 1), ("a_new_config", 8),
            ("b_address_changed", 1), ("b_new_address", 7), ("b_config_changed", 1), ("b_new_config", 8), ("bus_reset", 1)]


def regs_alphabet(tier):
    import itertools
    av = [0x7F, 0x2A, 0x55] if tier == "quick" else [0, 0x7F, 0x2A, 0x55, 0x31, 0x01, 0x40]
    cv = [0xFF, 0xAA, 0x55] if tier == "quick" else [0, 0xFF, 0xAA, 0x55, 0xB1, 0x01, 0x80]
    ep = [(0, av[0], 0, cv[0])] + [(1, a, 0, cv[1]) for a in av] + [(0, av[1], 1, c) for c in cv] + [(1, a, 1, c) for a, c in zip(av, cv)]
    letters = []
    for (a, b, r) in itertools.product(ep, ep, [0, 1]):
        c = dict(a_address_changed=a[0], a_new_address=a[1], a_config_changed=a[2], a_new_config=a[3],
                 b_address_changed=b[0], b_new_address=b[1], b_config_changed=b[2], b_new_config=b[3], bus_reset=r)
        letters.append(pack(R_LAYOUT, c))
    return letters, (f"per endpoint: no strobe / address_changed with new_address in {[hex(x) for x in av]} / config_changed with "
                     f"new_config in {[hex(x) for x in cv]} / both; both endpoints independently; bus_reset 0/1")


def nl(xs):
    return "[" + "; ".join(str(x) for x in xs) + "]"


def obligations(targets, tier):
    obs = []
    for t in targets:
        if t.kind == "handler":
            sletters, sdesc = handler_alphabet(tier, spec=True)
            letters, desc = handler_alphabet(tier)
            obs.append(tie.rmon("ob_handler_spec", t, mon="hd_spec_mon", m0="dev_spec_m0", alpha_bits=0, alphabet=sletters, fuel=3000,
                                describe="StandardRequestHandler (sliced netlist): its address/configuration write strobes are exactly the commits "
                                         "of the SPECIFICATION (pending request, armed by the status-stage answer, disarmed by any token), value = "
                                         "wValue truncated; all traces over the alphabet: " + sdesc + "; environment: setup fields stable unless received"))
            obs.append(tie_alpha.rlock_alpha(
                "ob_handler", t, St="hstate", mstep="hd_step", enc="h_enc", dec="h_dec", wf="(fun _ => True)",
                dec_enc="(fun h _ => h_dec_enc h)", wf_step="(fun _ _ _ => I)", m0="h_init", wf_m0="exact I.",
                alphabet=letters, fuel=3000,
                describe="StandardRequestHandler (sliced netlist) == request-handler model (3 merged states + two expecting_ack registers), "
                         "all traces over the alphabet: " + desc + " (no environment assumption)"))
            obs.append(tie.corr("corr_handler", t, mstep="hd_step", m0="h_init",
                                describe="StandardRequestHandler (stub GET_DESCRIPTOR sub-handler) vs request-handler model on simulator traces with unrestricted field values"))
        elif t.kind == "handler_full":
            obs.append(tie.cmon("cmon_handler_full_spec", t, mon="hd_spec_mon", m0="dev_spec_m0",
                                describe="specification monitor over simulator traces of the unmodified StandardRequestHandler (real GET_DESCRIPTOR "
                                         "sub-handler, unrestricted field values)"))
            obs.append(tie.corr("corr_handler_full", t, mstep="hd_step", m0="h_init",
                                describe="unmodified StandardRequestHandler (real GET_DESCRIPTOR sub-handler) vs request-handler model on simulator traces"))
        elif t.kind == "ctl":
            cexpr, cdesc = ctl_alphabet(tier)
            obs.append(tie.rmon("ob_ctl_spec", t, mon="ctl_spec_mon", m0="dev_spec_m0", alpha_bits=0, alphabet=cexpr, fuel=3000,
                                describe="USBControlEndpoint + StandardRequestHandler (sliced netlist; inputs on the control endpoint's EndpointInterface, "
                                         "so its forwarding of tokens / handshakes to the request handlers is inside): the address/configuration "
                                         "write strobes leaving the control endpoint are exactly the commits of the SPECIFICATION, where `token` is "
                                         "ANY new_token the device delivers (whatever its endpoint) and status_requested is observed; all traces "
                                         "over: " + cdesc + "; environment: setup fields stable unless received"))
            obs.append(tie.cmon("cmon_ctl_spec", t, mon="ctl_spec_mon", m0="dev_spec_m0",
                                describe="the same specification monitor over event-level simulator traces of that target with unrestricted field "
                                         "values, data stages, OUT/PING tokens, rx_ready_for_response"))
        elif t.kind == "regs":
            letters, desc = regs_alphabet(tier)
            obs.append(tie_alpha.rlock_alpha(
                "ob_regs", t, St="(N * N)%type", mstep="rg_step", enc="rg_enc", dec="rg_dec", wf="rg_wf",
                dec_enc="rg_dec_enc", wf_step="rg_wf_step", m0="(0, 0)", wf_m0="exact rg_wf_init.",
                alphabet=nl(letters), fuel=3000,
                describe="address/configuration registers of the real USBDevice (two stub endpoints, stub reset sequencer; sliced) == register model "
                         "(endpoint added first has priority; bus reset wins); all traces over: " + desc))
            if tier != "quick":
              obs.append(tie.corr("corr_regs", t, mstep="rg_step", m0="(0, 0)",
                                describe="USBDevice registers vs register model on simulator traces with unrestricted values"))
        else:
            obs.append(tie.cmon("cmon_device_spec", t, mon="dev_spec_mon", m0="dev_spec_m0",
                                describe="SPECIFICATION evaluated over the complete USBDevice (control endpoint + IN endpoint 1) driven over UTMI by a "
                                         "scripted host: SET_ADDRESS / SET_CONFIGURATION with endpoint-1 IN transfers and their ACKs inserted before "
                                         "the status stage, lost status-stage ACKs, abandoned transfers, vendor requests with the same codes, "
                                         "corrupted setup packets, bus resets; events read from the exported interface signals, registers compared every cycle"))
            obs.append(tie.cmon("cmon_device_model", t, mon="dev_mon", m0="(m_enc m_init)",
                                describe="composite model (handler FSM + registers) evaluated over the same runs of the complete USBDevice"))
    return obs


def tie_theorems(targets, tier):
    s = ""
    names = {t.kind: t for t in targets}
    if "handler" in names:
        t = names["handler"]
        s += f"""
Theorem C08_handler_netlist_is_model : forall tr, Forall (fun i => In i ob_handler.alpha) tr ->
  run {t.modname}.step {t.modname}.init tr = run hd_step h_init tr.
Proof. intros tr H. apply ob_handler_T.tie; [exact H | apply env_ok_true]. Qed.
"""
    if "regs" in names:
        t = names["regs"]
        s += f"""
Theorem C08_regs_netlist_is_model : forall tr, Forall (fun i => In i ob_regs.alpha) tr ->
  run {t.modname}.step {t.modname}.init tr = run rg_step (0, 0) tr.
Proof. intros tr H. apply ob_regs_T.tie; [exact H | apply env_ok_true]. Qed.
"""
    return s


def tie_theorem_names(targets, tier):
    kinds = [t.kind for t in targets]
    return (["C08_handler_netlist_is_model"] if "handler" in kinds else []) + (["C08_regs_netlist_is_model"] if "regs" in kinds else [])


LEVEL_TEXT = ("Machine-checked proof at the interface-event level, plus ties. (1) For every event history of any length in which the setup "
              "decoder's fields change only together with `received`, the code-shaped model (request-handler FSM with one expecting_ack register "
              "per register-write state, frozen while the setup packet is not a standard request; device registers with bus-reset priority) shows "
              "in every cycle exactly the address/configuration of a four-field specification machine (C08_model_meets_spec). (2) About that "
              "specification, for all histories: a bus reset clears both registers (C08_bus_reset); a register changes otherwise only in a cycle "
              "with an ACK, and then the history ends with the setup packet of a standard SET_ADDRESS/SET_CONFIGURATION carrying the adopted value "
              "(low 7 / 8 bits of wValue), no later setup packet, the answer to its status stage, and no token since "
              "(C08_change_only_on_completion); an ACK after a token since which no status stage was answered changes nothing "
              "(C08_foreign_handshake); the request does take effect whatever other endpoints' tokens/ACKs/bus resets precede the status stage "
              "(C08_takes_effect); after completion nothing but a bus reset changes the registers until the next setup packet "
              "(C08_exactly_once). (3) Ties: the sliced netlist of StandardRequestHandler is proved equal to the handler model, and proved to "
              "satisfy the specification monitor directly, on all traces over an explicit product alphabet; the registers of the real USBDevice "
              "(stub endpoints / reset sequencer) are proved equal to the register model over an explicit alphabet. (4) Not proved, checked on "
              "simulator runs: the complete USBDevice (control endpoint + IN endpoint) driven over UTMI by a scripted host satisfies the "
              "specification monitor and agrees with the composite model in every cycle; unrestricted field values for handler and registers.")
LEVEL_NOTE = ("The unchanged /repo VIOLATES the property (confirmed on the simulator, findings/C08-ack-any-endpoint.json: the ACK of an endpoint-1 IN "
              "transfer commits a pending SET_ADDRESS before its status stage; the device then no longer answers at the old address). The model "
              "is the repaired behaviour: findings/C08-ack-any-endpoint.diff (request/control.py: expecting_ack flag) stacked on C07's "
              "findings/C07-fresh-setup.diff (request/standard.py: every state re-dispatches on a new setup packet); ./check C08 passes only with "
              "both applied. Not covered: that status_requested is raised only in the status stage of the transfer addressed to endpoint 0 "
              "(C07), that the strobes correspond to well-formed packets (C01/C04/C06), and ACKs of transactions addressed to other devices on "
              "a shared bus (no new_token reaches the interface for those). The wiring USBControlEndpoint -> USBRequestHandlerMultiplexer -> "
              "USBEndpointMultiplexer between the two R-tied pieces is covered only by the complete-device runs. Trusted: Coq kernel + "
              "vm_compute, Amaranth elaboration, nir2coq.py/Netlist.v/slice.py (validated each run against pysim).")
TECHNIQUE = ("Rocq proof: simulation relation model <-> four-field specification machine + history invariants by snoc-induction (unbounded); "
             "certified product-reachability of the sliced handler and register netlists over explicit alphabets (R-monitor on the specification "
             "and R-lockstep on the model); specification and model as runtime monitors over exported interface signals of the complete device "
             "driven over UTMI by a closed-loop scripted host")
