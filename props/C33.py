"""C33 -- transmit CTC inserts SKPs only in place of idle, and often enough
(luna/gateware/usb/usb3/physical/ctc.py: CTCSkipInserter; physical/layer.py: Scrambler -> CTCSkipInserter -> PHY
with scrambler.hold := sending_skip; link/layer.py: can_send_skp := arbiter.idle)."""
from harness.core import Target
from harness.slice import SlicedTarget
from harness import tie
from harness import tie_explicit

PID = "C33"
TIE_IMPORTS = "From LunaModel Require Import Crc Scrambler TxCtc TxCtc_proofs.\n"

SKP_WORD = 0x3C3C3C3C
WS = 3                                  # bits of skips_to_send = Signal(range(5))


def _we(L):                             # bits of data_bytes_elapsed = Signal(range(L))
    return max(1, (L - 1).bit_length())


# ------------------------------------------------------------------------------------------------
# targets
# ------------------------------------------------------------------------------------------------
def mk_ski(L):
    """CTCSkipInserter alone; SKIP_BYTE_LIMIT is a class attribute, overridden on the instance for small L."""
    def build():
        from luna.gateware.usb.usb3.physical.ctc import CTCSkipInserter
        d = CTCSkipInserter()
        if L != 354:
            d.SKIP_BYTE_LIMIT = L
        ins = [("valid", d.sink.valid), ("data", d.sink.data), ("ctrl", d.sink.ctrl),
               ("can_send_skip", d.can_send_skip), ("source_ready", d.source.ready)]
        outs = [("source_valid", d.source.valid), ("source_data", d.source.data), ("source_ctrl", d.source.ctrl),
                ("sink_ready", d.sink.ready), ("sending_skip", d.sending_skip)]
        return d, ins, outs
    t = Target(f"ski_L{L}", build)
    t.params = dict(kind="ski", L=L)
    return t


class _FakePhy:
    """The attributes of a PIPE PHY that USB3PhysicalLayer touches, as free signals."""
    def __init__(self):
        from amaranth import Signal
        for n, w in [("reset", 1), ("phy_status", 1), ("phy_mode", 2), ("rate", 1), ("elas_buf_mode", 1), ("tx_swing", 1),
                     ("tx_margin", 3), ("tx_deemph", 2), ("tx_ones_zeros", 1), ("rx_termination", 1), ("rx_polarity", 1),
                     ("rx_eq_training", 1), ("power_present", 1), ("rx_status", 3), ("power_down", 2), ("tx_data", 32),
                     ("tx_datak", 4), ("rx_data", 32), ("rx_datak", 4), ("rx_elec_idle", 1), ("tx_elec_idle", 1),
                     ("tx_detrx_lpbk", 1), ("rx_valid", 1)]:
            setattr(self, n, Signal(w, name="phy_" + n))


def _physical_layer(L):
    """The real USB3PhysicalLayer around a fake PHY; returns (wrapper elaboratable, layer, phy, tx_ctc, scrambler)."""
    from amaranth import Elaboratable
    from luna.gateware.usb.usb3.physical.layer import USB3PhysicalLayer
    phy = _FakePhy()
    pl = USB3PhysicalLayer(phy=phy, sync_frequency=50e6)
    m = pl.elaborate(None)                       # the layer's own elaborate(); submodules are elaborated later

    class Wrapper(Elaboratable):
        def elaborate(self, platform):
            return m
    ctc = m._named_submodules["tx_ctc"][0]
    scr = m._named_submodules["scrambler"][0]
    if L != 354:
        ctc.SKIP_BYTE_LIMIT = L
    return Wrapper(), pl, phy, ctc, scr


def mk_phytx(L):
    """Transmit path of the real USB3PhysicalLayer (cone of influence of the PHY transmit pins)."""
    def build():
        w, pl, phy, ctc, scr = _physical_layer(L)
        ins = [("sink_data", pl.sink.data), ("sink_ctrl", pl.sink.ctrl), ("can_send_skp", pl.can_send_skp),
               ("enable_scrambling", pl.enable_scrambling), ("tx_electrical_idle", pl.tx_electrical_idle)]
        outs = [("tx_data", phy.tx_data), ("tx_datak", phy.tx_datak), ("sink_ready", pl.sink.ready),
                ("hold", ctc.sending_skip), ("lfsr_state", scr.lfsr_state)]
        return w, ins, outs
    t = SlicedTarget(f"phytx_L{L}", build)
    t.params = dict(kind="phytx", L=L)
    return t


def mk_linkwire():
    """The real USB3LinkLayer with its four transmit stream producers (compliance emitter, training-set generator,
    header-packet receiver [link commands], packet transmitter) and the physical layer replaced by objects whose
    attributes are free signals; cone of influence of physical_layer.sink / can_send_skp / the producers' ready:
    the arbiter and the idle multiplexer of link/layer.py."""
    def build():
        from amaranth import Elaboratable, Module, Signal
        import luna.gateware.usb.usb3.link.layer as ll
        from luna.gateware.usb.stream import USBRawSuperSpeedStream
        from luna.gateware.usb.usb3.link.header import HeaderQueue

        class Stub(Elaboratable):
            def __init__(self, *a, **k):
                object.__setattr__(self, "_made", {})
            def __getattr__(self, name):
                if name.startswith("_"):
                    raise AttributeError(name)
                made = self._made
                if name not in made:
                    if name in ("sink", "source", "data_sink", "data_source", "raw_source"):
                        made[name] = USBRawSuperSpeedStream()
                    elif name in ("queue",):
                        made[name] = HeaderQueue()
                    else:
                        made[name] = Signal(name=name)
                return made[name]
            def elaborate(self, platform):
                return Module()

        names = ("CompliancePatternEmitter", "TSTransceiver", "HeaderPacketReceiver", "PacketTransmitter")
        saved = {n: getattr(ll, n) for n in names}
        stubs = {}
        def mkstub(n):
            def f(*a, **k):
                stubs[n] = Stub(); return stubs[n]
            return f
        try:
            for n in names: setattr(ll, n, mkstub(n))
            phys = Stub()
            link = ll.USB3LinkLayer(physical_layer=phys)
            m = link.elaborate(None)
        finally:
            for n, v in saved.items(): setattr(ll, n, v)

        class Wrapper(Elaboratable):
            def elaborate(self, platform):
                return m
        prods = [stubs[n].source for n in names]          # in arbiter priority order (layer.py add_stream order)
        ins = []
        for k, p in enumerate(prods):
            ins += [(f"p{k}_valid", p.valid), (f"p{k}_data", p.data), (f"p{k}_ctrl", p.ctrl)]
        ins.append(("phy_ready", phys.sink.ready))
        outs = [("sink_data", phys.sink.data), ("sink_ctrl", phys.sink.ctrl), ("sink_valid", phys.sink.valid),
                ("can_send_skp", phys.can_send_skp)] + [(f"p{k}_ready", p.ready) for k, p in enumerate(prods)]
        return Wrapper(), ins, outs
    t = SlicedTarget("linkwire", build)
    t.params = dict(kind="linkwire", L=0)
    return t


def targets(tier):
    if tier == "quick":
        return [mk_phytx(354), mk_ski(354), mk_phytx(6), mk_linkwire()]
    return [mk_phytx(354), mk_ski(354), mk_phytx(6), mk_phytx(10), mk_ski(10), mk_ski(6), mk_ski(7), mk_linkwire()]


# ------------------------------------------------------------------------------------------------
# traces
# ------------------------------------------------------------------------------------------------
def _link_stream(rng, n, L, p_idle_run=0.5):
    """bursts of packet/command words interleaved with idle filler: list of (data, ctrl, idle)"""
    out = []
    while len(out) < n:
        if rng.random() < p_idle_run:
            out += [(0, 0, 1)] * rng.choice([0, 1, 1, 2, 3, 5, 8, 20])
        blen = rng.choice([1, 2, 5, 10, L // 4, L // 4 + 1, L // 2, L, 2 * L + 3])
        for k in range(blen):
            ctrl = rng.choice([0, 0, 0, 0, 0, 15, 1, rng.getrandbits(4)])
            data = rng.getrandbits(32)
            if rng.random() < 0.03:
                data = (data & ~0xFF) | 0xBC; ctrl |= 1            # COM first: restarts the LFSR
            if rng.random() < 0.05:
                data, ctrl = 0, 0                                  # a data word that looks like idle filler
            out.append((data, ctrl, 0))
    return out[:n]


def traces(target, rng, tier):
    L = target.params["L"]; kind = target.params["kind"]
    q = tier == "quick"
    out = []
    if kind == "phytx":
        for k in range(5 if q else 16):
            en = int(rng.random() < 0.8)
            length = rng.choice([3, 50, 20 * L]) if L < 100 else rng.choice([3, 200, 600] if q else [3, 200, 800, 1500])
            out.append([dict(sink_data=d, sink_ctrl=c, can_send_skp=idle, enable_scrambling=en, tx_electrical_idle=0)
                        for d, c, idle in _link_stream(rng, length, L, p_idle_run=rng.choice([0.2, 0.6, 1.0]))])
        # long busy stretches followed by a few idle cycles: debts of 3..7 ordered sets
        for k in range(1 if q else 3):
            busy = rng.choice([3, 5, 7]) * (L // 4 + 1)
            tr = []
            for rep in range(2):
                tr += [dict(sink_data=rng.getrandbits(32), sink_ctrl=0, can_send_skp=0, enable_scrambling=1,
                            tx_electrical_idle=0) for _ in range(busy)]
                tr += [dict(sink_data=0, sink_ctrl=0, can_send_skp=1, enable_scrambling=1, tx_electrical_idle=0)
                       for _ in range(rng.choice([1, 2, 5]))]
            out.append(tr)
        # outside the environment (electrical idle toggling, can_send_skp next to data, starvation): correspondence only
        for k in range(2 if q else 8):
            tr = []
            e = 1
            for _ in range(rng.choice([20, 6 * L if L < 100 else (400 if q else 1500)])):
                if rng.random() < 0.02: e = 1 - e
                tr.append(dict(sink_data=rng.getrandbits(32), sink_ctrl=rng.choice([0, 0, 15, 3]),
                               can_send_skp=int(rng.random() < 0.3), enable_scrambling=int(rng.random() < 0.9),
                               tx_electrical_idle=e))
            out.append(tr)
        if not q and L == 354:                                     # starvation: the 3-bit counter wraps (model = code)
            out.append([dict(sink_data=rng.getrandbits(32), sink_ctrl=0, can_send_skp=int(t > 730), enable_scrambling=1,
                             tx_electrical_idle=0) for t in range(760)])
    elif kind == "ski":
        for k in range(5 if q else 16):
            p_v = rng.choice([1.0, 1.0, 0.9, 0.5]); p_r = rng.choice([1.0, 1.0, 0.95, 0.6]); p_c = rng.choice([0.02, 0.3, 0.9])
            length = rng.choice([3, 50, 20 * L]) if L < 100 else rng.choice([3, 300, 700] if q else [3, 300, 1500])
            out.append([dict(valid=int(rng.random() < p_v), data=rng.getrandbits(32), ctrl=rng.getrandbits(4),
                             can_send_skip=int(rng.random() < p_c), source_ready=int(rng.random() < p_r))
                        for _ in range(length)])
    else:
        for k in range(6 if q else 40):
            tr = []
            for _ in range(rng.choice([5, 40, 120])):
                c = dict(phy_ready=int(rng.random() < 0.85))
                for j in range(4):
                    c[f"p{j}_valid"] = int(rng.random() < rng.choice([0.05, 0.3, 0.8]))
                    c[f"p{j}_data"] = rng.choice([0, rng.getrandbits(32)])
                    c[f"p{j}_ctrl"] = rng.choice([0, 15, rng.getrandbits(4)])
                tr.append(c)
            out.append(tr)
    return out


# ------------------------------------------------------------------------------------------------
# obligations
# ------------------------------------------------------------------------------------------------
INIT = "(lfsr_init 65535)"
# link words of the R alphabets: idle filler, a COM-first word (LFSR restart), all-ones data, a word mixing data and K symbols
TX_WORDS_Q = "[(0, 0); (188, 1); (4294967295, 0)]"
TX_WORDS_T = "[(0, 0); (188, 1); (4294967295, 0); (305419896, 4)]"
SKI_WORDS = "[(0, 0); (4294967295, 15); (2779096485, 5)]"
LW_VARIANTS = ("[[(16843009, 1); (33686018, 2); (50529027, 3); (67372036, 4)]; "
               "[(4294967295, 15); (4294967294, 14); (0, 0); (4294967292, 12)]]")


def _phytx_cfg(t, tier):
    """(alphabet, window K) of the lock-step obligation on a small-L transmit path"""
    if tier == "quick" or t.params["L"] != 6:
        return f"tx_alphabet {TX_WORDS_Q} [true] [false; true]", 3
    return f"tx_alphabet {TX_WORDS_T} [false; true] [false; true]", 5


def _ski_cfg(t, tier):
    L = t.params["L"]
    if L == 354 and tier == "quick":
        return f"ski_alphabet 4 [(0, 0); (4294967295, 15)] [true] [true]"
    if L == 354:
        return f"ski_alphabet 4 [(0, 0); (4294967295, 15)] [false; true] [true]"
    return f"ski_alphabet 4 {SKI_WORDS} [false; true] [false; true]"


def obligations(targets, tier):
    obs = []
    for t in targets:
        L = t.params["L"]; we = _we(L); kind = t.params["kind"]
        if kind == "phytx" and L == 354:
            obs.append(tie.cmon(f"spec_{t.name}", t, mon=f"(c33_mon {L} {WS} 65535)", m0="65535",
                                describe=f"{t.name}: the specification (SKP schedule, replacement of idle filler only, keystream frozen "
                                         f"over inserted SKPs, transmitted word = SKP | scrambled previous link word) over simulator traces"))
            obs.append(tie.corr(f"corr_{t.name}", t, mstep=f"txp_step {L} {we} {WS} {INIT}", m0=f"txp_init {INIT}",
                                describe=f"{t.name}: cycle model of the transmit path vs simulator (full-width words, also outside the environment)"))
        elif kind == "phytx":
            alpha, K = _phytx_cfg(t, tier)
            obs.append(tie_explicit.rlock_alpha(
                f"ob_{t.name}", t, St="txp_st", mstep=f"txp_step {L} {we} {WS} {INIT}", enc=f"txp_enc {we} {WS}",
                dec=f"txp_dec {we} {WS}", wf=f"txp_wf {we} {WS}", dec_enc=f"txp_dec_enc {we} {WS}",
                wf_step=f"txp_wf_step {L} {we} {WS} {INIT} (lfsr_init_length 65535)", m0=f"txp_init {INIT}",
                wf_m0=f"apply txp_wf_init. apply lfsr_init_length.", alphabet=alpha, env=f"tx_env_win {INIT} {K}",
                fuel=100000,
                describe=f"transmit path of USB3PhysicalLayer with SKIP_BYTE_LIMIT={L} == path model on all traces over the word "
                         f"alphabet in which at most {K} words follow each COM-first word (keeps the LFSR product finite)"))
            obs.append(tie.cmon(f"spec_{t.name}", t, mon=f"(c33_mon {L} {WS} 65535)", m0="65535",
                                describe=f"{t.name}: specification monitor over simulator traces"))
            obs.append(tie.corr(f"corr_{t.name}", t, mstep=f"txp_step {L} {we} {WS} {INIT}", m0=f"txp_init {INIT}",
                                describe=f"{t.name}: cycle model vs simulator, full-width words"))
        elif kind == "ski":
            obs.append(tie_explicit.rlock_alpha(
                f"ob_{t.name}", t, St="ski_st", mstep=f"ski_mstep {L} 4 {we} {WS}", enc=f"ski_enc 4 {we} {WS}",
                dec=f"ski_dec 4 {we} {WS}", wf=f"ski_wf 4 {we} {WS}", dec_enc=f"ski_dec_enc 4 {we} {WS}",
                wf_step=f"ski_wf_step {L} 4 {we} {WS}", m0="ski_init", wf_m0="apply ski_wf_init.",
                alphabet=_ski_cfg(t, tier), fuel=100000,
                describe=f"CTCSkipInserter with SKIP_BYTE_LIMIT={L} == module model on all traces over the alphabet "
                         f"{_ski_cfg(t, tier)} (words x can_send_skip x sink.valid x source.ready)"))
            obs.append(tie.corr(f"corr_{t.name}", t, mstep=f"ski_mstep {L} 4 {we} {WS}", m0="ski_init",
                                describe=f"{t.name}: cycle model of CTCSkipInserter vs simulator (valid gaps, back-pressure, full-width words)"))
        else:
            obs.append(tie.rmon(f"ob_{t.name}", t, mon="lw_mon", m0="0", alpha_bits=0, alphabet=f"lw_alphabet {LW_VARIANTS}",
                                fuel=1000,
                                describe="USB3LinkLayer wiring: can_send_skp only with the idle filler on physical_layer.sink and no producer "
                                         "valid or ready; otherwise the sink carries the word of the one producer that sees ready "
                                         "(all valid patterns of the four producers x PHY ready x two data variants)"))
            obs.append(tie.cmon(f"spec_{t.name}", t, mon="lw_mon", m0="0",
                                describe="the same wiring predicate over simulator traces with random full-width producer words"))
    return obs


def tie_theorems(targets, tier):
    s = ""
    for t in targets:
        L = t.params["L"]; we = _we(L); kind = t.params["kind"]; G = t.modname
        if kind == "phytx" and L != 354:
            alpha, K = _phytx_cfg(t, tier)
            ob = f"ob_{t.name}"
            s += f"""
(* netlist-level statements for the transmit path at SKIP_BYTE_LIMIT = {L}: tie + model theorems *)
Theorem C33_{t.name} : forall tr, Forall (fun i => In i {ob}.alpha) tr ->
  env_ok txp_st (txp_step {L} {we} {WS} {INIT}) (tx_env_win {INIT} {K}) (txp_init {INIT}) tr = true ->
  let outs := run {G}.step {G}.init tr in
  tx_hold_can tr outs /\\
  (Forall (fun i => tx_ieidle i = false) tr -> tx_follow tr outs) /\\
  (forall en, forallb (tx_env en) tr = true -> tx_real outs = scramble_words {INIT} en {INIT} (link_real tr outs)) /\\
  (Forall (fun i => tx_ieidle i = false) tr -> sched_safe {L} 4 (2 ^ {WS}) 0 0 (map tx_ican tr) = true ->
     map tx_ohold outs = sched {L} 4 0 0 (map tx_ican tr) /\\ map tx_oready outs = ready_sched 0 (length tr)).
Proof.
  intros tr H HE. cbv zeta. rewrite ({ob}_T.tie tr H HE).
  pose proof (lfsr_init_length 65535) as HI.
  split; [apply tx_hold_can_from_reset; exact HI|].
  split; [intro He; apply tx_follow_from_reset; assumption|].
  split; [intros en Hen; apply tx_stream_from_reset; assumption|].
  intros He Hs. apply tx_schedule; try assumption; vm_compute; (reflexivity || discriminate).
Qed.
"""
        elif kind == "ski":
            ob = f"ob_{t.name}"
            s += f"""
(* netlist of CTCSkipInserter (SKIP_BYTE_LIMIT = {L}) = unbounded-accounting specification, while the debt stays below 8 *)
Theorem C33_{t.name} : forall tr, Forall (fun i => In i {ob}.alpha) tr ->
  ssp_safe {L} 4 {WS} ssp_init tr = true ->
  run {G}.step {G}.init tr = run (ssp_mstep {L} 4) ssp_init tr.
Proof.
  intros tr H Hs. rewrite ({ob}_T.tie tr H (env_ok_true _ _ _ _)).
  apply ski_refines_from_reset; try exact Hs; vm_compute; (reflexivity || discriminate).
Qed.
"""
        elif kind == "linkwire":
            s += f"""
(* link-layer wiring, every cycle of every trace over the alphabet *)
Theorem C33_{t.name} : forall tr, Forall (fun i => In i ob_{t.name}.alpha) tr ->
  Forall (fun io => lw_ok (fst io) (snd io) = true) (combine tr (run {G}.step {G}.init tr)).
Proof. intros tr H. apply (lw_check_all {G}.step tr {G}.init 0). apply ob_{t.name}_T.tie. exact H. Qed.
"""
    return s


def tie_theorem_names(targets, tier):
    return [f"C33_{t.name}" for t in targets
            if not (t.params["kind"] == "phytx" and t.params["L"] == 354)]


ASSUMPTIONS = [
    "environment of the stream/schedule theorems: tx_electrical_idle = 0 (the PHY accepts a word every cycle, as wired in "
    "physical/layer.py), enable_scrambling constant, and can_send_skp only together with the idle filler word 00000000/0000 "
    "(proved for the link-layer wiring by ob_linkwire); the refinement theorems (A),(B) and statements (C),(D) need none of these",
    "'idle time permits' = the SKP debt floor(symbols/354) - (SKP ordered sets sent) never reaches 2^3 = 8: skips_to_send is "
    "Signal(range(5)), three bits, and wraps to 0 at 8 owed sets (708 consecutive busy words); stated as sched_safe / ssp_safe, "
    "a decidable condition on the can_send_skp history alone; the models reproduce the wrap (widths are parameters)",
    "sink.ready of CTCSkipInserter is a REGISTER (source.stream_eq(sink) sits in m.d.ss): it is 0 in the first cycle after reset "
    "(the word of that cycle is transmitted without being handed over) and 1 afterwards, also during SKP cycles, so the idle word "
    "of a SKP cycle is taken and replaced, and SKP cycles count as 4 transmitted symbols in the 354-symbol accounting",
    "the link layer's stream = the word on physical_layer.sink in each cycle with sink.ready; the physical layer forces valid = 1, so "
    "the one-cycle arbitration bubble of SuperSpeedStreamArbiter (can_send_skp = 0, sink.valid = 0) is transmitted like any other "
    "word; it is never replaced by a SKP (ob_linkwire)",
    "tie configurations: CTCSkipInserter at SKIP_BYTE_LIMIT 354 (real; quick) and additionally 6, 7, 10 (thorough); transmit path of the real "
    "USB3PhysicalLayer (fake PIPE PHY, cone of influence of the transmit pins) at SKIP_BYTE_LIMIT 6 (quick) / 6, 10 (thorough) with the "
    "LFSR window restriction, and at 354 by correspondence + specification monitor; USB3LinkLayer with its four stream producers "
    "replaced by free inputs (cone of influence of physical_layer.sink/can_send_skp: arbiter + idle multiplexer)",
    "SKIP_BYTE_LIMIT is a class attribute; small limits are set on the instance (no change to /repo)",
]

LEVEL_TEXT = (
    "Machine-checked proof. Model theorems (all trace lengths; parametric in SKIP_BYTE_LIMIT L, counter widths, LFSR restart value; "
    "CTCSkipInserter also in the word size B <= L): (A)/(B) the code-shaped models of CTCSkipInserter and of the transmit path "
    "Scrambler(hold)->CTCSkipInserter->PHY (wrapping 9-bit remainder and 3-bit debt counters, registered sink.ready) are output-equal, on "
    "EVERY input history on which the SKP debt stays below 2^ws, to a specification machine with unbounded accounting that inserts a SKP "
    "word exactly when can_send_skp holds and floor(symbols/L) - 2*(SKP words sent) >= 2; (C) a SKP is inserted only in a cycle with "
    "can_send_skp (no hypothesis); (D) with the PHY ready, every PHY word is the SKP word if a SKP was inserted in the previous cycle and "
    "otherwise the previous link word xor the keystream of that cycle, and the keystream does not move over an inserted SKP; (E) under "
    "the wiring 'can_send_skp only with idle filler', the PHY words following handed-over, non-replaced link words are exactly "
    "Scrambler.scramble_words of those link words in order -- nothing but idle filler is replaced, nothing dropped, duplicated or "
    "reordered, every real word keeps its keystream position; (F) closed-form schedule: hold(t) = can_send_skp(t) && "
    "floor(4(t-1)/L) - 2*#SKP-words-before-t >= 2, sink.ready low in the first cycle only; (G) SKPs are never sent ahead of the debt. "
    "Ties to /repo, re-proved on every run by certified product reachability: CTCSkipInserter netlist == model (real limit 354 and small "
    "limits) giving netlist = specification machine; transmit path of the real USB3PhysicalLayer == path model at small limits giving "
    "(C)-(F) for the netlist; USB3LinkLayer wiring: can_send_skp only with the idle filler on the sink and no producer valid or ready, "
    "otherwise the sink carries the word of the one producer that sees ready. At the real limit the transmit path is tied by simulator "
    "correspondence and by the specification evaluated as a monitor over simulator traces.")
LEVEL_NOTE = (
    "Trusted: Coq kernel + vm_compute, Amaranth elaboration, nir2coq.py/Netlist.v and the cone-of-influence slicer (validated each run "
    "against Amaranth's simulator of the unsliced design). Netlist ties are theorems only over explicit word alphabets (idle filler, a "
    "COM-first word, all-ones data, a mixed data/K word; all can_send_skp/valid/ready/electrical-idle patterns) and, for the transmit path, "
    "only for histories in which at most 3 (5 for SKIP_BYTE_LIMIT 6 in the thorough tier) words follow each COM-first word (the free-running 16-bit LFSR would "
    "otherwise make the product infinite for practical purposes) and only at SKIP_BYTE_LIMIT 6/10; full-width data, long LFSR runs and "
    "the real limit 354 on the transmit path are covered by correspondence and the specification monitor, not by proof; the link-wiring "
    "theorem covers all 16 valid patterns of the four producers x PHY ready x two sets of producer words. The LFSR equations "
    "themselves are C31's affine proof. The composition link layer + physical layer is by hypothesis matching (tx_env's wiring clause = "
    "ob_linkwire's conclusion), not a single netlist. Starvation (>= 8 owed ordered sets, i.e. 2832 symbols without idle) is outside the "
    "theorems: the 3-bit counter wraps and 8 ordered sets are forgotten (models and code agree, see the thorough-tier starvation trace).")
TECHNIQUE = ("Rocq proof: simulation relation code-shaped counters -> unbounded accounting (all L, B, widths), induction for stream/"
             "schedule theorems on top of the C31 scrambler model; certified product-reachability (lock-step over explicit alphabets, "
             "monitor for the link wiring) against netlists regenerated from source with cone-of-influence slicing; simulator "
             "correspondence + specification monitor at the real configuration")
