"""C43 -- training ordered-set detector and emitter (luna/gateware/usb/usb3/link/ordered_sets.py:
TSBurstDetector, TSEmitter)."""
from harness.core import Target
from harness import tie

PID = "C43"

# Some emitter traces are long single list literals (a full TSEQ burst); give coqc's parser stack room.
try:
    import resource
    _soft, _hard = resource.getrlimit(resource.RLIMIT_STACK)
    resource.setrlimit(resource.RLIMIT_STACK, (_hard, _hard))
except Exception:      # pragma: no cover
    pass

# The ordered sets as the USB 3.2 specification defines them (section 6.4.1, tables 6-3..6-6), written down here
# independently of /repo; four symbols per 32-bit word, first symbol in the low byte.
K28_5, D10_2, D5_2 = 0xBC, 0x4A, 0x45
def _words(symbols):
    return [symbols[k] | symbols[k + 1] << 8 | symbols[k + 2] << 16 | symbols[k + 3] << 24 for k in range(0, len(symbols), 4)]
SPEC_SETS = {
    "ts1":  _words([K28_5] * 4 + [0x00, 0x00] + [D10_2] * 10),
    "ts1i": _words([K28_5] * 4 + [0x00, 0x00] + [D10_2 ^ 0xFF] * 10),      # TS1 as seen with inverted polarity
    "ts2":  _words([K28_5] * 4 + [0x00, 0x00] + [D5_2] * 10),
    "tseq": _words([K28_5, 0xFF, 0x17, 0xC0, 0x14, 0xB2, 0xE7, 0x02, 0x82, 0x72, 0x6E, 0x28, 0xA6, 0xBE, 0x6D, 0xBF]
                   + [D10_2] * 16),
}
SPEC_FCTRL = {"ts1": 0b1111, "ts1i": 0b1111, "ts2": 0b1111, "tseq": 0b0001}   # which symbols of word 0 are K symbols
REPO_NAME = {"ts1": "TS1_SET_DATA", "ts1i": "INVERTED_TS1_SET_DATA", "ts2": "TS2_SET_DATA", "tseq": "TSEQ_SET_DATA"}

ASSUMPTIONS = [
    "ordered-set contents (TS1, inverted TS1, TS2, TSEQ) are written down from the USB 3.2 tables in props/C43.py and the models "
    "are instantiated with THOSE; the targets are built with /repo's constants, so a wrong symbol in /repo breaks the tie",
    "'well-formed' word k of a set: ctrl = K flags of word 0 (else 0) and data equal to the set's word, except that with "
    "include_config the two low symbols of word 1 (reserved + link-configuration symbol) are not compared (as in the code)",
    "'consecutive (allowing idle gaps)': sets follow each other in the stream of VALID words; cycles with sink.valid = 0 are "
    "skipped; any other valid word in between restarts the count",
    "completeness (C43_detector_complete) is stated for a detector in sync (waiting for a first word, count 0) and a burst of "
    "exactly sets_in_burst sets; after foreign valid data the code needs one cycle (NONE_DETECTED) to resynchronise and may miss "
    "the set that starts in that cycle -- not claimed otherwise",
    "detector R tie: explicit alphabets (per configuration, 50-70 words): valid x {each set word with right / wrong ctrl, with a "
    "flipped data bit, word 1 with 7 different configuration symbols, three foreign words}; random words: correspondence only",
    "emitter R tie: ALL inputs (start, ready, three request bits), at TS1 x16 and TS2 x16 (the bursts LUNA uses) and small bursts incl. "
    "non-powers-of-two (TS1 x3 quick; TS2 x6, TS1 x5 thorough: the set counter must not be sized for powers of two only); "
    "TSEQ at burst 64 (quick) / 300 (thorough) instead of LUNA's 65536 (covered by the parametric theorem only)",
    "emitter config bits are not latched: word 1 carries the request inputs of the cycle in which it is offered (as in the code)",
]
TIE_IMPORTS = ("From LunaLib Require Import SsWords.\n"
               "From LunaModel Require Import TsDet TsDet_proofs TsEmit TsEmit_proofs.\n")


def coq_list(xs):
    return "[" + "; ".join(str(int(x)) for x in xs) + "]"


# ---------------------------------------------------------------------------------------------
def mk_det(setname, n, cfg, big=False):
    def build():
        from luna.gateware.usb.usb3.link import ordered_sets as osets
        d = osets.TSBurstDetector(set_data=getattr(osets, REPO_NAME[setname]), first_word_ctrl=SPEC_FCTRL[setname],
                                  sets_in_burst=n, include_config=cfg)
        outs = [("detected", d.detected)]
        if cfg:
            outs += [("hot_reset", d.hot_reset), ("loopback_requested", d.loopback_requested),
                     ("scrambling_disabled", d.scrambling_disabled)]
        return d, [("valid", d.sink.valid), ("data", d.sink.data), ("ctrl", d.sink.ctrl)], outs
    t = Target(f"det_{setname}_n{n}{'_cfg' if cfg else ''}", build)
    t.kind = "det"; t.big = big
    t.params = dict(set=setname, n=n, cfg=cfg)
    t.coq_cfg = ("{| TsDet.set_data := %s; TsDet.fctrl := %d; TsDet.thr := %d; TsDet.inc_cfg := %s; TsDet.lax := false |}"
                 % (coq_list(SPEC_SETS[setname]), SPEC_FCTRL[setname], n, "true" if cfg else "false"))
    return t


def mk_em(setname, n, cfg, big=False):
    def build():
        from luna.gateware.usb.usb3.link import ordered_sets as osets
        d = osets.TSEmitter(set_data=getattr(osets, REPO_NAME[setname]), first_word_ctrl=SPEC_FCTRL[setname],
                            transmit_burst_length=n, include_config=cfg)
        ins = [("start", d.start), ("ready", d.source.ready)]
        if cfg:
            ins += [("request_hot_reset", d.request_hot_reset), ("request_loopback", d.request_loopback),
                    ("request_no_scrambling", d.request_no_scrambling)]
        s = d.source
        return d, ins, [("valid", s.valid), ("data", s.data), ("ctrl", s.ctrl), ("first", s.first), ("last", s.last),
                        ("done", d.done)]
    t = Target(f"em_{setname}_n{n}{'_cfg' if cfg else ''}", build)
    t.kind = "em"; t.big = big
    t.params = dict(set=setname, n=n, cfg=cfg)
    t.coq_cfg = ("{| TsEmit.e_set := %s; TsEmit.e_fctrl := %d; TsEmit.e_total := %d; TsEmit.e_inc := %s |}"
                 % (coq_list(SPEC_SETS[setname]), SPEC_FCTRL[setname], n, "true" if cfg else "false"))
    return t


def targets(tier):
    ts = [mk_det("ts1", 2, False), mk_det("ts2", 2, True), mk_det("ts2", 1, True), mk_det("tseq", 3, False),
          mk_det("ts1", 8, False, big=True), mk_det("ts2", 8, True, big=True), mk_det("tseq", 32, False, big=True),
          mk_em("ts1", 16, False), mk_em("ts2", 16, True), mk_em("ts2", 1, True), mk_em("tseq", 64, False),
          mk_em("ts1", 3, False)]      # burst length that is not a power of two (counter width boundary)
    if tier != "quick":
        ts += [mk_det("ts1i", 3, False), mk_det("ts2", 3, True), mk_det("ts1", 1, False), mk_det("tseq", 2, False),
               mk_det("ts1i", 8, False, big=True),
               mk_em("ts2", 6, True), mk_em("ts1", 5, False), mk_em("ts2", 2, True), mk_em("tseq", 300, False),
               mk_em("tseq", 1000, False, big=True)]
    return ts


# ---------------------------------------------------------------------------------------------
CFG_SYMS = [0x0100, 0x0400, 0x0800, 0x0D00, 0xFFFF, 0x00FF, 0x0001]


def det_alphabet(t):
    """Representative (valid, data, ctrl) words for one detector configuration."""
    ws = SPEC_SETS[t.params["set"]]; fc = SPEC_FCTRL[t.params["set"]]
    words = []
    for k, w in enumerate(ws):
        c = fc if k == 0 else 0
        cand = [(w, c), (w, c ^ 1), (w, c ^ 8), (w ^ 1, c), (w ^ 0x80000000, c), (w ^ 0x00010000, c)]
        if k == 1:
            cand += [(w | s, c) for s in CFG_SYMS]
        for x in cand:
            if x not in words: words.append(x)
    for x in [(0, 0), (0xFFFFFFFF, 15), (0xDEADBEEF, 0)]:
        if x not in words: words.append(x)
    alpha = [(1, d, c) for d, c in words] + [(0, d, c) for d, c in words[:6]] + [(0, 0, 0)]
    return [v | d << 1 | c << 33 for v, d, c in alpha]


def det_traces(t, rng, tier):
    ws = SPEC_SETS[t.params["set"]]; fc = SPEC_FCTRL[t.params["set"]]; n = t.params["n"]; cfg = t.params["cfg"]
    count = (30 if tier == "quick" else 200) if not t.big else (12 if tier == "quick" else 60)
    def word(v, d, c): return {"valid": v, "data": d, "ctrl": c}
    def junk(): return word(0, rng.choice([0, rng.getrandbits(32), ws[0]]), rng.choice([0, fc, rng.randrange(16)]))
    def foreign():
        return word(1, rng.choice([rng.getrandbits(32), 0, ws[-1], ws[0]]), rng.choice([0, 0, rng.randrange(16)]))
    def a_set(pgap, perr):
        out = []
        sym = rng.choice([0] + CFG_SYMS + [rng.getrandbits(16)]) if cfg else 0
        for k, w in enumerate(ws):
            while rng.random() < pgap: out.append(junk())
            d, c = (w | sym if k == 1 else w), (fc if k == 0 else 0)
            if rng.random() < perr:
                if rng.random() < 0.5: d ^= 1 << rng.randrange(32)
                else: c ^= 1 << rng.randrange(4)
            out.append(word(1, d, c))
        return out
    out = []
    for k in range(count):
        style = k % 4
        tr = [junk() for _ in range(rng.randint(0, 2))]
        if style == 0:        # clean bursts with idle gaps
            for _ in range(rng.randint(1, 2 * n + 2)): tr += a_set(rng.choice([0, 0.2]), 0)
        elif style == 1:      # bursts with occasional corrupt words
            for _ in range(rng.randint(1, 2 * n + 2)): tr += a_set(0.1, 0.04)
        elif style == 2:      # sets separated by gaps and foreign valid data (the defect pattern)
            for _ in range(rng.randint(1, 2 * n + 2)):
                tr += a_set(0.1, 0)
                r = rng.random()
                if r < 0.35: tr += [junk()] + [foreign() for _ in range(rng.randint(1, 3))]
                elif r < 0.5: tr += [foreign()]
        else:                 # random words
            tr += [rng.choice([junk, foreign])() for _ in range(rng.randint(1, 40))]
        tr += [junk() for _ in range(3)]
        out.append(tr)
    return out


def em_traces(t, rng, tier):
    n = t.params["n"]; L = len(SPEC_SETS[t.params["set"]]); cfg = t.params["cfg"]
    burst = L * n
    if burst <= 80:
        count = 12 if tier == "quick" else 40
        lengths = [3, burst, burst + 2, 2 * burst + 5, 3 * burst]
    else:      # long bursts: a few traces that cover at least one full burst and the restart
        count = 3 if tier == "quick" else 5
        lengths = [int(burst * 1.1), int(burst * 1.6), int(burst * 2.2)]
    out = []
    for k in range(count):
        length = lengths[k % len(lengths)] if burst > 80 else rng.choice(lengths)
        ps = rng.choice([0.05, 0.3, 1.0]); pr = rng.choice([0.3, 0.8, 1.0]) if burst <= 80 else rng.choice([0.8, 1.0])
        tr = []
        for _ in range(length):
            c = {"start": int(rng.random() < ps), "ready": int(rng.random() < pr)}
            if cfg:
                c.update(request_hot_reset=rng.getrandbits(1), request_loopback=rng.getrandbits(1),
                         request_no_scrambling=rng.getrandbits(1))
            tr.append(c)
        out.append(tr)
    return out


def traces(target, rng, tier):
    return det_traces(target, rng, tier) if target.kind == "det" else em_traces(target, rng, tier)


# ---------------------------------------------------------------------------------------------
def det_pieces(t):
    c = f"({t.coq_cfg})"
    L = f"(TsDet.set_len {c})"
    return c, L


def obligations(targets, tier):
    obs = []
    for t in targets:
        if t.kind == "det":
            c, L = det_pieces(t)
            if t.big:
                obs.append(tie.corr(f"corr_{t.name}", t, mstep=f"TsDet.ts_step {c}", m0="TsDet.ts_init",
                                    describe=f"detector model vs simulator, {t.params['set']} x{t.params['n']} (LUNA's configuration)"))
                continue
            obs.append(tie.rmon(
                f"ob_{t.name}", t,
                mon=f"rl_mon TsDet.ts_state (TsDet.ts_step {c}) TsDet.ts_enc TsDet.ts_dec (fun _ _ => true)",
                m0="TsDet.ts_enc TsDet.ts_init", alpha_bits=37, alphabet=coq_list(det_alphabet(t)), fuel=5000,
                describe=f"TSBurstDetector({t.params['set']}, sets_in_burst={t.params['n']}, include_config={t.params['cfg']}) == "
                         f"model in lock step, every trace over {len(det_alphabet(t))} representative words"))
            obs.append(tie.corr(f"corr_{t.name}", t, mstep=f"TsDet.ts_step {c}", m0="TsDet.ts_init",
                                describe="detector model vs simulator, random / corrupted / gapped streams"))
        else:
            c = f"({t.coq_cfg})"; L = f"(TsEmit.e_len {c})"
            if t.big:
                obs.append(tie.corr(f"corr_{t.name}", t, mstep=f"TsEmit.em_step {c}", m0="TsEmit.em_init",
                                    describe=f"emitter model vs simulator, {t.params['set']} x{t.params['n']}"))
                continue
            bits = 5 if t.params["cfg"] else 2
            obs.append(tie.rlock(
                f"ob_{t.name}", t, St="TsEmit.em_state", mstep=f"TsEmit.em_step {c}",
                enc="TsEmit.em_enc", dec="TsEmit.em_dec", wf=f"TsEmit.em_wf {L}",
                dec_enc=f"TsEmit_proofs.em_dec_enc {L} ltac:(cbn; lia)",
                wf_step=f"TsEmit_proofs.em_wf_step {c} ltac:(cbn; lia)",
                m0="TsEmit.em_init", wf_m0="exact I.", alpha_bits=bits, fuel=5000,
                describe=f"TSEmitter({t.params['set']}, transmit_burst_length={t.params['n']}, include_config={t.params['cfg']}) == "
                         f"model, all start/ready/request traces"))
    return [o for o in obs if o is not None]


def tie_theorems(targets, tier):
    s = ""
    for t in targets:
        if t.big: continue
        G = t.modname
        if t.kind == "det":
            c, L = det_pieces(t)
            s += f"""
Definition cfg_{t.name} : TsDet.ts_cfg := {c}.
Theorem C43_{t.name}_model : forall tr, Forall (fun i => In i ob_{t.name}.alpha) tr ->
  run {G}.step {G}.init tr = run (TsDet.ts_step cfg_{t.name}) TsDet.ts_init tr.
Proof.
  intros tr H.
  exact (R_lockstep {G}.step TsDet.ts_state (TsDet.ts_step cfg_{t.name}) TsDet.ts_enc TsDet.ts_dec
           (TsDet.ts_wf (TsDet.set_len cfg_{t.name})) (fun _ _ => true)
           (TsDet_proofs.ts_dec_enc (TsDet.set_len cfg_{t.name}) ltac:(cbn; lia))
           (TsDet_proofs.ts_wf_step cfg_{t.name} ltac:(cbn; lia))
           ob_{t.name}.alpha ob_{t.name}_T.L {G}.init TsDet.ts_init
           ob_{t.name}_T.L_closed ob_{t.name}_T.init_in I tr H (env_ok_true _ _ _ _)).
Qed.
Theorem C43_{t.name}_sound : forall tr, Forall (fun i => In i ob_{t.name}.alpha) tr ->
  TsDet.sound cfg_{t.name} [] None (combine tr (run {G}.step {G}.init tr)) = true.
Proof.
  intros tr H. rewrite (C43_{t.name}_model tr H).
  apply TsDet_proofs.ts_sound; [cbn; lia | reflexivity | cbn; lia].
Qed.
"""
        else:
            c = f"({t.coq_cfg})"; bits = 5 if t.params["cfg"] else 2
            s += f"""
Theorem C43_{t.name}_spec : forall tr, Forall (fun i => i < 2 ^ N.of_nat {bits}) tr ->
  run {G}.step {G}.init tr = run (TsEmit.sp_step {c}) None tr.
Proof.
  intros tr H. rewrite (ob_{t.name}_T.tie tr H (env_ok_true _ _ _ _)).
  apply TsEmit_proofs.em_refines; cbn; lia.
Qed.
"""
    return s


def tie_theorem_names(targets, tier):
    names = []
    for t in targets:
        if t.big: continue
        names += [f"C43_{t.name}_model", f"C43_{t.name}_sound"] if t.kind == "det" else [f"C43_{t.name}_spec"]
    return names


LEVEL_TEXT = ("Machine-checked proof about models, tied to the code. Detector: for every ordered set (>= 2 words), threshold >= 1, "
              "include_config and EVERY input history, each `detected` pulse is justified by sets_in_burst complete back-to-back "
              "well-formed sets among the valid words since the previous report, with the reported config bits those of the last set "
              "(C43_detector_sound: never on other data, no set used twice); a clean burst received in sync gives exactly one "
              "one-cycle pulse two cycles after its last word (C43_detector_complete). Emitter: for every set, burst length >= 1 and "
              "every start/ready/request history the FSM equals a one-counter specification (C43_emitter_refines) and the words "
              "taken by the sink are plan words 0,1,2,... mod T*L -- bursts are never cut, extended, reordered (C43_emitter_taken). "
              "Tie: emitter netlists regenerated from /repo proved equal to the specification on ALL input traces at TS1 x16, "
              "TS2 x16 (+config), TS2 x1, TSEQ x64 (more in thorough); detector netlists proved equal to the model -- hence sound -- on "
              "all traces over per-configuration representative alphabets (TS1 x2, TS2 x2/x1 +config, TSEQ x3; more in thorough); "
              "correspondence (not a proof) at LUNA's burst sizes (TS1/TS2 x8, TSEQ x32) on random, corrupted and gapped streams. "
              "Set contents are taken from the USB 3.2 tables, not from /repo.")
LEVEL_NOTE = ("Until the candidate patch is applied the tree VIOLATES the detector half: in WAIT_FOR_FIRST a valid non-matching word does not clear "
              "consecutive_set_count, so sets separated by an idle cycle and arbitrary other valid data are counted as consecutive "
              "(findings/C43-consecutive.json, candidate patch findings/C43-consecutive.diff); the check exits 1 without the "
              "patch and 0 with it. The emitter half holds on the unchanged tree. Completeness is proved for a detector in "
              "sync and one burst; resynchronisation after foreign data costs one word (stated, not claimed). Detector R tie over "
              "finite representative alphabets. transmit_burst_length = 65536 (TSEQ) is covered by the parametric theorem and ties "
              "at 64 / 300 only. Trusted: Coq kernel + vm_compute, Amaranth elaboration, nir2coq.py/Netlist.v (validated each run).")
TECHNIQUE = ("Rocq proof: trace checker + invariant induction (detector soundness), induction over an inductive burst predicate "
             "(completeness), simulation relation to a one-counter machine + closed form of accepted word indices (emitter); "
             "certified product-reachability against the regenerated netlists; simulator correspondence at LUNA's configurations")
