"""C31 -- SuperSpeed scrambling uses the USB3 LFSR and descrambling inverts it."""
from harness.core import Target
from harness import tie
from tools import xtgen, nir2coq

PID = "C31"
ASSUMPTIONS = [
    "LFSR reference: 16-bit Galois LFSR x^16+x^5+x^4+x^3+1, output bit = register MSB, 8 shifts per symbol, LSB of each symbol first (USB 3.2 Appendix B)",
    "cycle-level theorem C31_scrambler_cycles assumes: no explicit clear, constant enable, and a word whose first symbol is COM is transferred in the "
    "cycle it is presented (the LFSR restart is triggered by presentation, not by transfer; LUNA's physical layer presents with valid=1 and the link layer "
    "only sends COM in training/SKP sets) -- stated as cyc_env",
    "words are 32 data bits + 4 control flags; descramble_scramble requires data < 2^32",
    "module wrappers (Scrambler/Descrambler) are tied to the model by simulator correspondence; the LFSR equations by affine reflection (all 2^16 states)",
    "'not while held for SKP insertion' also depends on how USB3PhysicalLayer wires scrambler.hold to the SKP inserter: the transmit path of the real "
    "layer (C33's target phytx_L354 and its specification monitor c33_mon: transmitted word = SKP | scrambled previous link word with the keystream "
    "frozen over inserted SKPs) is checked here as well over simulator traces; the kernel-checked lock-step for that path is C33's",
]
TIE_IMPORTS = ("From LunaLib Require Import Affine.\nFrom LunaModel Require Import Crc Scrambler Scrambler_proofs TxCtc.\n"
               "Require Import Run.Gen_lfsr.\n")


def _lfsr():
    from luna.gateware.usb.usb3.physical.scrambling import ScramblerLFSR
    d = ScramblerLFSR()
    return d, [("clear", d.clear), ("advance", d.advance)], [("value", d.value)]


def _scr(cls, init):
    def build():
        from luna.gateware.usb.usb3.physical import scrambling
        d = getattr(scrambling, cls)(initial_value=init) if init is not None else getattr(scrambling, cls)()
        ins = [("clear", d.clear), ("enable", d.enable), ("hold", d.hold), ("sink_data", d.sink.data),
               ("sink_ctrl", d.sink.ctrl), ("sink_valid", d.sink.valid), ("source_ready", d.source.ready)]
        outs = [("source_data", d.source.data), ("source_ctrl", d.source.ctrl), ("source_valid", d.source.valid),
                ("sink_ready", d.sink.ready)]
        return d, ins, outs
    return build


def targets(tier):
    ts = [Target("scrambler_ffff", _scr("Scrambler", 0xffff)), Target("descrambler", _scr("Descrambler", None)),
          Target("scrambler_default", _scr("Scrambler", None))]
    ts[0].init = 0xffff; ts[1].init = 0xffff; ts[2].init = 0x7dbd
    from props import C33 as _c33                    # the layer's transmit path: scrambler + SKP inserter as wired in layer.py
    ts.append(_c33.mk_phytx(354))
    return ts


def traces(target, rng, tier):
    if getattr(target, "params", {}).get("kind") == "phytx":
        from props import C33 as _c33
        return _c33.traces(target, rng, tier)
    n = 25 if tier == "quick" else 200
    out = []
    for _ in range(n):
        tr = []
        en = int(rng.random() < 0.8)
        for k in range(rng.randint(1, 50)):
            ctrl = rng.choice([0, 0, 0, 0, 1, 15, rng.getrandbits(4)])
            data = rng.getrandbits(32)
            if rng.random() < 0.15:
                data = (data & ~0xff) | 0xbc; ctrl |= 1          # COM in the first symbol
            if rng.random() < 0.05:
                data = (data & ~0xff00) | 0xbc00; ctrl |= 2      # COM elsewhere: must not restart
            tr.append(dict(clear=int(rng.random() < 0.01), enable=en if rng.random() < 0.95 else 1 - en,
                           hold=int(rng.random() < 0.2), sink_data=data, sink_ctrl=ctrl,
                           sink_valid=int(rng.random() < 0.85), source_ready=int(rng.random() < 0.8)))
        out.append(tr)
    return out


def obligations(targets, tier):
    obs = []
    for t in targets:
        if getattr(t, "params", {}).get("kind") == "phytx":
            from props import C33 as _c33
            obs.append(tie.cmon(f"layer_{t.name}", t, mon=f"(c33_mon {t.params['L']} {_c33.WS} 65535)", m0="65535",
                                describe="transmit path of the real USB3PhysicalLayer (scrambler.hold as wired to the SKP inserter): every "
                                         "transmitted word is SKP or the scrambling of the previous link word with the keystream frozen over "
                                         "inserted SKPs (C33's specification monitor) over simulator traces"))
            continue
        obs.append(tie.cmon(f"spec_{t.name}", t, mon=f"(scr_mon {t.init})", m0=f"{t.init}",
                            describe=f"{t.name}: word-level scrambling specification evaluated over simulator traces"))
        obs.append(tie.corr(f"corr_{t.name}", t, mstep=f"scr_step (lfsr_init {t.init})", m0=f"lfsr_init {t.init}",
                            describe=f"{t.name}: cycle model (per-symbol XOR, COM restart, hold/stall) vs simulator"))
    return obs


def extra_gen(bdir, tier):
    elab, ins, outs = _lfsr()
    ports = {n: (s, 'i') for n, s in ins}; ports.update({n: (s, 'o') for n, s in outs})
    nl = nir2coq.elaborate(elab, ports)
    ci, cell = xtgen.ff_of_signal(nl, "current_value", 16)
    consts = dict(clear=0, advance=1)
    for nm in nl.top.ports_i:
        if nm == "rst" or nm.endswith("_rst"): consts[nm] = 0
    var = lambda n: (n.bit if (not n.is_const and n.cell == ci) else None)
    nxt = xtgen.nir_cone(nl, consts, cell.data, var)
    val = xtgen.nir_cone(nl, consts, dict(nl.top.ports_o)["value"], var)
    hold = xtgen.nir_cone(nl, dict(consts, advance=0), cell.data, var)
    L = ["(* GENERATED from /repo by props/C31.py + tools/xtgen.py -- do not edit *)",
         "From Coq Require Import List Bool. Import ListNotations.", "From LunaLib Require Import Affine.", ""]
    for name, terms in (("lfsr_next", nxt), ("lfsr_value", val), ("lfsr_hold", hold)):
        L.append(f"Definition {name}_xt : list xt := [\n  " + ";\n  ".join(terms) + "\n].")
    p = bdir / "Gen_lfsr.v"
    p.write_text("\n".join(L) + "\n")
    return [p]


def tie_theorems(targets, tier):
    return """
Definition lfsr_aff := lfsr_run aff axor (aconst 16 false) lfsr_taps 32 (map (avar 16) (seq 0 16), []).
Lemma lfsr_next_wf : forallb (wf 16) lfsr_next_xt = true. Proof. vm_compute. reflexivity. Qed.
Lemma lfsr_value_wf : forallb (wf 16) lfsr_value_xt = true. Proof. vm_compute. reflexivity. Qed.
Lemma lfsr_hold_wf : forallb (wf 16) lfsr_hold_xt = true. Proof. vm_compute. reflexivity. Qed.
Lemma lfsr_next_forms : map (nf 16) lfsr_next_xt = fst lfsr_aff. Proof. vm_compute. reflexivity. Qed.
Lemma lfsr_value_forms : map (nf 16) lfsr_value_xt = snd lfsr_aff. Proof. vm_compute. reflexivity. Qed.
Lemma lfsr_hold_forms : map (nf 16) lfsr_hold_xt = map (avar 16) (seq 0 16). Proof. vm_compute. reflexivity. Qed.

Lemma lfsr_aff_eval : forall env : nat -> bool,
  (map (eva env) (fst lfsr_aff), map (eva env) (snd lfsr_aff)) = lfsr_bits 32 (map env (seq 0 16)).
Proof.
  intro env. unfold lfsr_aff, lfsr_bits.
  rewrite (lfsr_run_hom aff bool axor (aconst 16 false) xorb false (eva env) (eva_axor env) (eva_aconst 16 env false)).
  unfold fst at 1, snd at 1. change (map (eva env) []) with (@nil bool).
  rewrite map_eva_avar by lia. reflexivity.
Qed.
Global Opaque lfsr_aff.

(* for all 2^16 LFSR states: the register after an advancing cycle is the state after 32 serial shifts *)
Theorem C31_lfsr_next : forall env : nat -> bool,
  map (ev env) lfsr_next_xt = lfsr_next (map env (seq 0 16)).
Proof.
  intro env. rewrite (affine_reflect 16 _ _ lfsr_next_wf lfsr_next_forms env).
  unfold lfsr_next. pose proof (lfsr_aff_eval env) as H. apply (f_equal fst) in H. exact H.
Qed.
(* ... and the 32-bit `value` output is the next 32 keystream bits (4 scrambling bytes, LSB first) *)
Theorem C31_lfsr_value : forall env : nat -> bool,
  map (ev env) lfsr_value_xt = snd (lfsr_bits 32 (map env (seq 0 16))).
Proof.
  intro env. rewrite (affine_reflect 16 _ _ lfsr_value_wf lfsr_value_forms env).
  pose proof (lfsr_aff_eval env) as H. apply (f_equal snd) in H. exact H.
Qed.
(* without `advance` the register holds *)
Theorem C31_lfsr_hold : forall env : nat -> bool,
  map (ev env) lfsr_hold_xt = map env (seq 0 16).
Proof.
  intro env. rewrite (affine_reflect 16 _ _ lfsr_hold_wf lfsr_hold_forms env).
  apply map_eva_avar. lia.
Qed.
"""


def tie_theorem_names(targets, tier):
    return ["C31_lfsr_next", "C31_lfsr_value", "C31_lfsr_hold"]


LEVEL_TEXT = ("Machine-checked proof. (1) For all 2^16 LFSR states, the next-state and 32-bit value equations re-extracted from the elaborated "
              "ScramblerLFSR netlist on every run equal 32 shifts / the next 32 output bits of the bit-serial x^16+x^5+x^4+x^3+1 LFSR (affine reflection). "
              "(2) For every LFSR state, restart value, enable setting and every word sequence, descrambling the scrambled sequence from the same state "
              "returns the original (C31_descramble_scramble); control symbols pass unchanged. (3) For every cycle history satisfying cyc_env, the words "
              "handed over in transferring cycles (valid & ready & ~hold) are exactly the word-level scrambling of the offered words, i.e. the keystream "
              "advances only on transfer and restarts after a COM in symbol 0 (C31_scrambler_cycles, induction over cycles).")
LEVEL_NOTE = ("Trusted: Coq kernel + vm_compute; Amaranth elaboration; tools/xtgen.py cone extraction; the Scrambler/Descrambler wrappers are tied to the "
              "cycle model by simulator correspondence (random data/control mixes, COM positions, hold/stall patterns), not by proof.")
TECHNIQUE = "Rocq proof: affine reflection of regenerated LFSR equations; induction for involution and cycle/word refinement; simulator correspondence"
