"""C51 -- SPI register interface (luna/gateware/interface/spi.py: SPICommandInterface + SPIRegisterInterface)."""
from harness.core import Target
from harness import tie

PID = "C51"
TIE_IMPORTS = "From LunaModel Require Import SpiReg SpiReg_proofs.\n"


def cfg_expr(p):
    ro = "[" + "; ".join(f"({a}, {v})" for a, v in p["ro"]) + "]"
    rw = "[" + "; ".join(str(a) for a in p["rw"]) + "]"
    return f"{{| asz := {p['asz']}; rsz := {p['rsz']}; rw := {rw}; ro := {ro}; dflt := {p['dflt']} |}}"


def mk(name, asz, rsz, rw, autoneg, dflt, ro_extra=(), big=False):
    ro = ([(0, (1 << rsz) - 1)] if autoneg else []) + list(ro_extra)

    def build():
        from amaranth import Signal
        from luna.gateware.interface.spi import SPIRegisterInterface
        d = SPIRegisterInterface(address_size=asz, register_size=rsz, default_read_value=dflt,
                                 support_size_autonegotiation=autoneg)
        for a, v in ro_extra:
            d.add_read_only_register(a, read=v)
        vals, strobes = [], []
        for a in rw:
            s = Signal(name=f"strobe_{a:x}")
            vals.append((f"reg_{a:x}", d.add_register(a, write_strobe=s)))
            strobes.append((f"strobe_{a:x}", s))
        return d, [("sck", d.spi.sck), ("sdi", d.spi.sdi), ("cs", d.spi.cs)], \
                  [("sdo", d.spi.sdo), ("idle", d.idle), ("stalled", d.stalled)] + vals + strobes
    t = Target(name, build)
    t.params = dict(asz=asz, rsz=rsz, rw=list(rw), ro=ro, dflt=dflt, big=big)
    return t


def targets(tier):
    ts = [mk("spireg_a1_r2", 1, 2, [1], True, 1),
          mk("spireg_a7_r8", 7, 8, [2, 3, 0x7f], True, 0xA5, ro_extra=[(5, 0x3C)], big=True),
          mk("spireg_a15_r32", 15, 32, [1, 0x1234, 0x7fff], True, 0, ro_extra=[(7, 0xDEADBEEF)], big=True),
          # command wider than the data word: the bit counter must be sized for max(word_size, command_size)
          mk("spireg_a2_r1", 2, 1, [3], True, 1),
          mk("spireg_a15_r8", 15, 8, [1, 0x7ffe], True, 0x5A, ro_extra=[(9, 0xC3)], big=True)]
    if tier != "quick":
        ts += [mk("spireg_a1_r1_two", 1, 1, [0, 1], False, 1),
               mk("spireg_a3_r2", 3, 2, [5], False, 2),
               mk("spireg_a2_r3", 2, 3, [1, 2], True, 5, big=True),
               mk("spireg_a3_r5", 3, 5, [4, 6], False, 0x15, ro_extra=[(1, 9)], big=True),
               mk("spireg_a7_r32", 7, 32, [0x10, 0x11], True, 0xFFFFFFFF, big=True)]
    return ts


def transaction(p, rng, write, addr, value, abort_after=None, hp=None, gap=None):
    """cycles of one register transaction; abort_after = number of clock pulses after which CS is dropped"""
    cs_bits = p["asz"] + 1
    bits = [write] + [(addr >> (p["asz"] - 1 - k)) & 1 for k in range(p["asz"])]
    bits += [(value >> (p["rsz"] - 1 - k)) & 1 for k in range(p["rsz"])]
    tr = []
    for _ in range(rng.randint(1, 3)):
        tr.append(dict(sck=0, sdi=0, cs=1))
    for k, bit in enumerate(bits):
        if abort_after is not None and k == abort_after:
            break
        h = hp if hp is not None else rng.randint(1, 3)
        lo = h
        if k == cs_bits - 1:
            lo = max(lo, gap if gap is not None else 3)     # wait states after the command
        tr += [dict(sck=1, sdi=bit, cs=1)] * h
        tr += [dict(sck=0, sdi=bit, cs=1)] * lo
    for _ in range(rng.randint(0, 2)):
        tr.append(dict(sck=0, sdi=0, cs=1))
    for _ in range(rng.randint(2, 4)):
        tr.append(dict(sck=0, sdi=0, cs=0))
    return tr


def traces(target, rng, tier):
    p = target.params
    n = 16 if tier == "quick" else 60
    addrs = sorted(set(p["rw"] + [a for a, _ in p["ro"]] + [0, (1 << p["asz"]) - 1]))
    out = []
    for k in range(n):
        tr = []
        style = rng.random()
        if style < 0.12:
            for _ in range(rng.randint(10, 40 + 4 * (p["asz"] + p["rsz"]))):
                tr.append(dict(sck=rng.getrandbits(1), sdi=rng.getrandbits(1), cs=int(rng.random() < 0.9)))
            out.append(tr); continue
        if rng.random() < 0.2:
            tr.append(dict(sck=0, sdi=0, cs=1))     # CS already asserted out of reset -> STALL
        tr.append(dict(sck=0, sdi=0, cs=0))
        for _ in range(rng.randint(1, 4)):
            addr = rng.choice(addrs) if rng.random() < 0.8 else rng.getrandbits(p["asz"])
            write = int(rng.random() < 0.6)
            value = rng.getrandbits(p["rsz"])
            total = p["asz"] + 1 + p["rsz"]
            abort = None
            r = rng.random()
            if r < 0.3:
                abort = rng.choice([0, 1, p["asz"], p["asz"] + 1, p["asz"] + 2, total - 1, rng.randint(0, total - 1)])
            gap = rng.choice([None, None, 1, 2, 3, 4])
            tr += transaction(p, rng, write, addr, value, abort_after=abort, gap=gap)
            if rng.random() < 0.2:   # extra clocks after the word (STALL)
                tr += transaction(p, rng, 1, addr, value ^ 1, abort_after=None)[3:-2]
        out.append(tr)
    return out


def obligations(targets, tier):
    obs = []
    for t in targets:
        p = t.params
        c = cfg_expr(p)
        cfgtxt = (f"address_size={p['asz']}, register_size={p['rsz']}, memory registers at {p['rw']}, read-only "
                  f"{p['ro']}, default_read_value={p['dflt']}")
        if p["big"]:
            obs.append(tie.corr(f"corr_{t.name}", t, mstep=f"r_step ({c})", m0=f"r_init ({c})",
                                describe=f"model vs Amaranth simulator on register transactions (complete, aborted, "
                                         f"over-long, random pins): {cfgtxt}"))
            continue
        obs.append(tie.rlock(
            f"ob_{t.name}", t, St="r_state", mstep=f"r_step ({c})", enc=f"r_enc ({c})", dec=f"r_dec ({c})",
            wf=f"r_wf ({c})", dec_enc=f"r_dec_enc ({c})", wf_step=f"r_wf_step ({c}) eq_refl",
            m0=f"r_init ({c})", wf_m0=f"exact (r_wf_init ({c}) eq_refl).", alpha_bits=3, fuel=100000,
            describe=f"SPIRegisterInterface({cfgtxt}) == model (sdo, idle, stalled, register values, write strobes), "
                     f"every sck/sdi/cs trace"))
    return obs


def tie_theorems(targets, tier):
    s = ""
    for t in targets:
        if t.params["big"]:
            continue
        c = cfg_expr(t.params); G = t.modname
        s += f"""
Theorem C51_{t.name} : forall tr i, Forall (fun x => x < 2 ^ N.of_nat 3) (tr ++ [i]) ->
  last (run {G}.step {G}.init (tr ++ [i])) 0 = r_out ({c}) (run_state (r_step ({c})) (r_init ({c})) tr).
Proof.
  intros tr i H. rewrite (ob_{t.name}_T.tie (tr ++ [i]) H (env_ok_true _ _ _ _)).
  rewrite run_last. reflexivity.
Qed.
"""
    return s


def tie_theorem_names(targets, tier):
    return [f"C51_{t.name}" for t in targets if not t.params["big"]]


ASSUMPTIONS = [
    "host behaviour in the transaction theorems: chip select high with the clock low for >= 1 cycle, then address_size+1 command "
    "pulses and register_size data pulses; every clock phase lasts >= 1 system cycle (arbitrary, independent durations), sdi holds the "
    "bit for the whole pulse; after the falling edge of the last command bit the clock stays low for >= 4 cycles (3 wait states of the "
    "interface + 1); chip select is released for >= 2 cycles after the transaction (>= 1 after an abort)",
    "aborts are proved at clock-pulse granularity (chip select released after any number of complete pulses short of the whole "
    "transaction); for arbitrary pin histories C51_no_write_unless_full states that nothing is written and no strobe fires unless "
    "the interface is in SHIFT_DATA with all register_size bits counted",
    "sdo is a registered output: bit k is guaranteed on sdo from the end of the high phase of data pulse k (the theorem does not "
    "claim it earlier); a host sampling on the rising edge needs the corresponding set-up margin",
    "register map: memory-backed registers created with add_register (reset value 0, size = register_size) and constant read-only "
    "registers (including the size auto-negotiation register 0); externally supplied value/strobe signals are not modelled",
    "R tie configurations: address_size 1, register_size 2, memory register at 1, auto-negotiation register 0, default 1; and address_size 2, register_size 1, register at 3 (command wider than the data word, so the shared bit counter must be sized for the command) "
    "(thorough tier: also (1,1) with two memory registers and no auto-negotiation, and (2,1) with a register at 3); correspondence at (7,8), (15,8) and (15,32) -- the sizes the docstrings and LUNA's debug interface use -- "
    "(thorough tier: also (2,3), (3,5), (7,32))",
]
LEVEL_TEXT = (
    "Machine-checked proof. For every address size, register size >= 1, register map and default value, the code-shaped model of "
    "SPIRegisterInterface/SPICommandInterface satisfies: (1) a complete register transaction (any clock-phase durations) leaves the register "
    "file equal to reg_update -- for a write exactly the addressed register takes the transmitted word, every other register, and every "
    "register for a read, is unchanged -- raises the write strobe of the written register in exactly one cycle and no other strobe, and "
    "returns to IDLE (C51_transaction, C51_read_leaves_registers); (2) by the end of data pulse k, sdo shows bit k, most significant first, "
    "of the addressed register's value at latch time, the constant of a read-only register, or default_read_value for an unassigned "
    "address (C51_read_back); (3) releasing chip select after any number of complete pulses short of the whole transaction changes no "
    "register and fires no strobe (C51_abort_in_command, C51_abort_in_data), and for arbitrary pin histories nothing is written unless "
    "all register_size bits have been counted in SHIFT_DATA (C51_no_write_unless_full). (4) For the tie configuration the netlist "
    "regenerated from /repo is proved output-equal (sdo, idle, stalled, register values, write strobes) to the model on every sck/sdi/cs "
    "trace by a kernel-checked closure of the product state space (C51_<cfg>).")
LEVEL_NOTE = (
    "Trusted: Coq kernel + vm_compute, Amaranth elaboration to NIR, nir2coq.py/Netlist.v (validated each run against Amaranth's simulator). "
    "The unbounded theorems are about the hand model; they reach the code through the lock-step tie at one small configuration (all pin "
    "histories) and through simulator correspondence at (7,8), (15,8) and (15,32). Aborts in the middle of a clock pulse are covered by the general "
    "safety theorem, the lock-step tie and correspondence, not by a transaction-shaped theorem. The unchanged tree satisfies the property.")
TECHNIQUE = ("Rocq proof: phase invariants + induction over host transactions on a parametric FSM/shift-register model, general safety "
             "invariant, certified product-reachability against the netlist regenerated from source + simulator correspondence")
