"""C07 -- control transfers follow the setup / data / status stage protocol
(luna/gateware/usb/usb2/control.py: USBControlEndpoint; luna/gateware/usb/request/standard.py: StandardRequestHandler;
 luna/gateware/usb/request/control.py; luna/gateware/usb/usb2/request.py: USBRequestHandlerMultiplexer, StallOnlyRequestHandler).

The target builder, the input alphabets and the trace generators of this file are shared with props/C10.py."""
from harness.core import Target
from harness.slice import SlicedTarget
from harness import tie, tie_explicit

PID = "C07"

# ---- ports (packing order = order of these lists; must agree with coq/Model/CtlXfer.v) -----------------------
IN_WIDTHS = [("new_token", 1), ("rfr", 1), ("is_in", 1), ("is_out", 1), ("is_setup", 1), ("is_ping", 1), ("endpoint", 4),
             ("received", 1), ("is_in_request", 1), ("type", 2), ("recipient", 5), ("request", 8), ("value", 16),
             ("index", 16), ("length", 16), ("setup_ack", 1), ("rx_rfr", 1), ("hs_ack", 1), ("desc_stall", 1),
             ("desc_valid", 1), ("desc_first", 1), ("desc_last", 1), ("ser_valid", 1), ("ser_first", 1), ("ser_last", 1)]
IN_LO = {}
_p = 0
for _n, _w in IN_WIDTHS:
    IN_LO[_n] = _p; _p += _w
IN_BITS = _p


def pack_word(c):
    w = 0
    for n, wd in IN_WIDTHS:
        w |= (int(c.get(n, 0)) & ((1 << wd) - 1)) << IN_LO[n]
    return w


def mk(name, ep=0, mps=8, spw=4, skip_req=None, kind="small"):
    """USBControlEndpoint(endpoint_number=ep) + one StandardRequestHandler(max_packet_size=mps[, skiplist]) + the
    multiplexer's own StallOnlyRequestHandler fallback.  Replaced by port-only stubs: USBSetupDecoder (its SetupPacket
    record and its ack become inputs), the GET_DESCRIPTOR handler (via get_descriptor_handler_submodule(); stall / tx
    become inputs, start / start_position outputs; start_position is spw bits wide) and the StreamSerializer of the
    constant answers (tx becomes an input, start an output)."""
    def build():
        from amaranth import Elaboratable, Module, Signal, Array
        import luna.gateware.usb.usb2.control as ctlmod
        import luna.gateware.usb.request.standard as stdmod
        from luna.gateware.usb.usb2.control import USBControlEndpoint
        from luna.gateware.usb.request.standard import StandardRequestHandler
        from luna.gateware.usb.request import SetupPacket
        from luna.gateware.usb.stream import USBInStreamInterface
        from luna.gateware.usb.usb2.packet import DataCRCInterface, TokenDetectorInterface, InterpacketTimerInterface
        from luna.gateware.interface.utmi import UTMIInterface

        class StubDecoder(Elaboratable):
            def __init__(self):
                self.data_crc = DataCRCInterface(); self.tokenizer = TokenDetectorInterface()
                self.timer = InterpacketTimerInterface(); self.speed = Signal(2)
                self.packet = SetupPacket(); self.ack = Signal()
            def elaborate(self, platform): return Module()

        class StubDesc(Elaboratable):
            def __init__(self):
                self.value = Signal(16); self.length = Signal(16)
                self.start = Signal(); self.start_position = Signal(spw)
                self.tx = USBInStreamInterface(); self.stall = Signal()
            def elaborate(self, platform): return Module()

        class StubSer(Elaboratable):
            def __init__(self):
                self.start = Signal(); self.done = Signal()
                self.data = Array(Signal(8, name=f"datum_{i}") for i in range(2))
                self.stream = USBInStreamInterface(payload_width=8)
                self.max_length = Signal(2)
            def elaborate(self, platform): return Module()

        dec = StubDecoder(); desc = StubDesc(); ser = StubSer()

        class Std(StandardRequestHandler):
            def get_descriptor_handler_submodule(self): return desc
            def elaborate(self, platform):
                o = stdmod.StreamSerializer; stdmod.StreamSerializer = lambda *a, **k: ser
                try: return super().elaborate(platform)
                finally: stdmod.StreamSerializer = o

        class Ctl(USBControlEndpoint):
            def elaborate(self, platform):
                o = ctlmod.USBSetupDecoder; ctlmod.USBSetupDecoder = lambda *a, **k: dec
                try: return super().elaborate(platform)
                finally: ctlmod.USBSetupDecoder = o

        kw = {}
        if skip_req is not None:
            kw["skiplist"] = [lambda setup: setup.request == skip_req]
        std = Std(None, max_packet_size=mps, **kw)
        d = Ctl(utmi=UTMIInterface(), endpoint_number=ep, max_packet_size=mps)
        d.add_request_handler(std)
        i = d.interface; tk = i.tokenizer; sp = dec.packet
        ins = [("new_token", tk.new_token), ("rfr", tk.ready_for_response), ("is_in", tk.is_in), ("is_out", tk.is_out),
               ("is_setup", tk.is_setup), ("is_ping", tk.is_ping), ("endpoint", tk.endpoint),
               ("received", sp.received), ("is_in_request", sp.is_in_request), ("type", sp.type),
               ("recipient", sp.recipient), ("request", sp.request), ("value", sp.value), ("index", sp.index),
               ("length", sp.length), ("setup_ack", dec.ack), ("rx_rfr", i.rx_ready_for_response),
               ("hs_ack", i.handshakes_in.ack), ("desc_stall", desc.stall), ("desc_valid", desc.tx.valid),
               ("desc_first", desc.tx.first), ("desc_last", desc.tx.last), ("ser_valid", ser.stream.valid),
               ("ser_first", ser.stream.first), ("ser_last", ser.stream.last)]
        assert [n for n, _ in ins] == [n for n, _ in IN_WIDTHS]
        outs = [("data_requested", std.interface.data_requested), ("status_requested", std.interface.status_requested),
                ("hs_out_ack", i.handshakes_out.ack), ("hs_out_nak", i.handshakes_out.nak),
                ("hs_out_stall", i.handshakes_out.stall), ("tx_valid", i.tx.valid), ("tx_first", i.tx.first),
                ("tx_last", i.tx.last), ("tx_pid", i.tx_pid_toggle), ("address_changed", i.address_changed),
                ("new_address", i.new_address), ("config_changed", i.config_changed), ("new_config", i.new_config),
                ("clear_halt", i.clear_endpoint_halt_out.as_value()), ("desc_start", desc.start), ("ser_start", ser.start),
                ("start_position", desc.start_position)]
        return d, ins, outs
    t = SlicedTarget(name, build)
    t.kind = kind
    t.params = dict(ep=ep, mps=mps, spw=spw, skip_req=skip_req)
    return t


def mk_e2e(name="dev_e2e"):
    """The complete USBDevice of /repo (real token detector, data receiver, handshake detector/generator, transmit path)
    with a control endpoint built as add_standard_control_endpoint() builds it -- real USBSetupDecoder, real
    StandardRequestHandler with its real GET_DESCRIPTOR handler (block ROM) and StreamSerializer -- driven over the UTMI
    receive bus by a host script.  The interface events (the model's inputs) are exported as OUTPUTS next to the
    endpoint's answers, so that the specification monitors and the model can be run on what really crossed the interfaces."""
    def build():
        import luna.gateware.usb.usb2.control as ctlmod
        import luna.gateware.usb.request.standard as stdmod
        from luna.gateware.usb.usb2.device import USBDevice
        from luna.gateware.usb.usb2.control import USBControlEndpoint
        from luna.gateware.usb.usb2.request import USBSetupDecoder
        from luna.gateware.usb.request.standard import StandardRequestHandler
        from luna.gateware.usb.stream import USBInStreamInterface
        from luna.gateware.stream.generator import StreamSerializer
        from luna.gateware.interface.utmi import UTMIInterface
        from usb_protocol.emitters import DeviceDescriptorCollection
        descriptors = DeviceDescriptorCollection()
        with descriptors.DeviceDescriptor() as d:
            d.idVendor = 0x16d0; d.idProduct = 0xf3b; d.iManufacturer = "LUNA"; d.iProduct = "Test Device"
            d.iSerialNumber = "1234"; d.bNumConfigurations = 1
        with descriptors.ConfigurationDescriptor() as c:
            with c.InterfaceDescriptor() as i:
                i.bInterfaceNumber = 0
                with i.EndpointDescriptor() as e:
                    e.bEndpointAddress = 0x01; e.wMaxPacketSize = 64
                with i.EndpointDescriptor() as e:
                    e.bEndpointAddress = 0x81; e.wMaxPacketSize = 64
        utmi = UTMIInterface()
        dev = USBDevice(bus=utmi)
        # the submodules USBControlEndpoint / StandardRequestHandler create inside elaborate(), created here so that
        # their signals can be named as ports (same classes, same constructor arguments)
        dec = USBSetupDecoder(utmi=dev.utmi)
        ser = StreamSerializer(data_length=2, domain="usb", stream_type=USBInStreamInterface, max_length_width=2)
        holder = {}

        class Std(StandardRequestHandler):
            def get_descriptor_handler_submodule(self): return holder["desc"]
            def elaborate(self, platform):
                o = stdmod.StreamSerializer; stdmod.StreamSerializer = lambda *a, **k: ser
                try: return super().elaborate(platform)
                finally: stdmod.StreamSerializer = o

        class Ctl(USBControlEndpoint):
            def elaborate(self, platform):
                o = ctlmod.USBSetupDecoder; ctlmod.USBSetupDecoder = lambda *a, **k: dec
                try: return super().elaborate(platform)
                finally: ctlmod.USBSetupDecoder = o

        std = Std(descriptors, max_packet_size=64)
        holder["desc"] = desc = StandardRequestHandler.get_descriptor_handler_submodule(std)
        ep = Ctl(utmi=dev.utmi)
        ep.add_request_handler(std)
        dev.add_endpoint(ep)
        i = ep.interface; tk = i.tokenizer; sp = dec.packet
        ins = [("rx_active", utmi.rx_active), ("rx_valid", utmi.rx_valid), ("rx_data", utmi.rx_data),
               ("tx_ready", utmi.tx_ready), ("line_state", utmi.line_state), ("connect", dev.connect),
               ("full_speed_only", dev.full_speed_only)]
        ev = [("new_token", tk.new_token), ("rfr", tk.ready_for_response), ("is_in", tk.is_in), ("is_out", tk.is_out),
              ("is_setup", tk.is_setup), ("is_ping", tk.is_ping), ("endpoint", tk.endpoint),
              ("received", sp.received), ("is_in_request", sp.is_in_request), ("type", sp.type),
              ("recipient", sp.recipient), ("request", sp.request), ("value", sp.value), ("index", sp.index),
              ("length", sp.length), ("setup_ack", dec.ack), ("rx_rfr", i.rx_ready_for_response),
              ("hs_ack", i.handshakes_in.ack), ("desc_stall", desc.stall), ("desc_valid", desc.tx.valid),
              ("desc_first", desc.tx.first), ("desc_last", desc.tx.last), ("ser_valid", ser.stream.valid),
              ("ser_first", ser.stream.first), ("ser_last", ser.stream.last)]
        assert [n for n, _ in ev] == [n for n, _ in IN_WIDTHS]
        outs = [("data_requested", std.interface.data_requested), ("status_requested", std.interface.status_requested),
                ("hs_out_ack", i.handshakes_out.ack), ("hs_out_nak", i.handshakes_out.nak),
                ("hs_out_stall", i.handshakes_out.stall), ("tx_valid", i.tx.valid), ("tx_first", i.tx.first),
                ("tx_last", i.tx.last), ("tx_pid", i.tx_pid_toggle), ("address_changed", i.address_changed),
                ("new_address", i.new_address), ("config_changed", i.config_changed), ("new_config", i.new_config),
                ("clear_halt", i.clear_endpoint_halt_out.as_value()), ("desc_start", desc.start), ("ser_start", ser.start),
                ("start_position", desc.start_position)]
        wire = [("utmi_tx_valid", utmi.tx_valid), ("utmi_tx_data", utmi.tx_data)]
        return dev, ins, ev + outs + wire
    t = Target(name, build)
    t.kind = "e2e"
    t.params = dict(ep=0, mps=64, spw=11, skip_req=None)
    return t


E2E_OUT_BITS = 46     # width of the endpoint's answers in the e2e target's output word (after the 85 event bits)


def e2e_traces(rng, n):
    """Host scripts over UTMI at full speed, device address 0: control transfers on endpoint 0 with arbitrary setup
    packets, abandoned at any stage, with traffic to other endpoints in between, lost / stray handshakes, corrupted
    SETUP data."""
    from props import C06 as W
    const = dict(line_state=1, tx_ready=1, connect=1, full_speed_only=1)
    def pk(b):
        return [dict(rx_active=c["rx_active"], rx_valid=c["rx_valid"], rx_data=c["rx_data"], **const) for c in W.rx_packet(rng, b, 1)]
    def idle(k):
        return [dict(rx_active=0, rx_valid=0, rx_data=0, **const)] * k
    def setup_bytes(s):
        b0 = s["recipient"] | (s["type"] << 5) | (s["is_in_request"] << 7)
        return [b0, s["request"], s["value"] & 0xFF, s["value"] >> 8, s["index"] & 0xFF, s["index"] >> 8,
                s["length"] & 0xFF, s["length"] >> 8]
    def setup_xact(s, ep=0, bad=False):
        return pk(W.token(W.SETUP, ep=ep)) + idle(rng.randint(2, 4)) + pk(W.data(setup_bytes(s), bad=1 if bad else False)) + idle(rng.randint(22, 30))
    def in_xact(ep=0, ack=True):
        t = pk(W.token(W.IN, ep=ep)) + idle(rng.choice([30, 45, 100]))
        if ack:
            t += pk([W.ACK]) + idle(rng.randint(4, 8))
        return t
    def out_xact(ep=0, payload=(), pid=None):
        return (pk(W.token(W.OUT, ep=ep)) + idle(rng.randint(2, 4)) + pk(W.data(list(payload), pid=pid or W.DATA1))
                + idle(rng.randint(22, 30)))
    def foreign():
        t = []
        while rng.random() < 0.3:
            e = rng.choice([1, 2, 3])
            k = rng.random()
            if k < 0.45: t += in_xact(ep=e, ack=rng.random() < 0.7)
            elif k < 0.8: t += out_xact(ep=e, payload=[rng.randrange(256) for _ in range(rng.randint(0, 9))])
            elif k < 0.94: t += pk(W.token(W.SETUP, ep=e)) + idle(rng.randint(3, 20))
            else: t += setup_xact(rand_setup(rng), ep=e)      # the decoder also decodes these (see ASSUMPTIONS)
        return t
    out = []
    for _ in range(n):
        tr = idle(rng.randint(12, 20))
        for _ in range(rng.randint(2, 5)):
            s = rand_setup(rng)
            if s["request"] == 5 and s["type"] == 0:
                s["value"] = 0                       # SET_ADDRESS 0: keep the script's device address valid
            tr += foreign()
            tr += setup_xact(s, bad=rng.random() < 0.1)
            tr += foreign()
            stages = []
            if s["length"]:
                stages += [("din" if s["is_in_request"] else "dout")] * rng.randint(1, 2)
                stages += ["sout" if s["is_in_request"] else "sin"]
            else:
                stages += ["sin"]
            if rng.random() < 0.1:
                rng.shuffle(stages)
            ab = rng.choice([0.0, 0.0, 0.3, 0.6])
            for st in stages:
                if rng.random() < ab / len(stages):
                    break
                if st in ("din", "sin"):
                    tr += in_xact(ack=rng.random() < 0.85)
                elif st == "dout":
                    tr += out_xact(payload=[rng.randrange(256) for _ in range(min(s["length"], rng.randint(1, 8)))])
                else:
                    tr += out_xact(payload=[])
                tr += foreign()
        out.append(tr + idle(4))
    return out


def gate_of(t):
    """Which variant of handle_register_write_request does the tree implement?  Probe the real module on the simulator:
    SET_ADDRESS decoded, then a host ACK before any status stage.  As found (and with the C07 patch alone) that ACK commits
    the address (gate = false); with C08's candidate repair it is ignored (gate = true).  C07 / C10 hold for both variants
    (all model theorems are stated for every value of `gate`); the probe only selects the variant the netlist is tied to."""
    if not hasattr(t, "_gate"):
        f = dict(TEMPLATES[1])
        probe = [dict(f, received=1), dict(f, hs_ack=1), dict(f)]
        out = t.simulate([probe])[0]
        t._gate = "false" if out[1]["address_changed"] else "true"
    return t._gate


def coq_params(t):
    p = t.params
    skip = "skip_none" if p["skip_req"] is None else f"(skip_req {p['skip_req']})"
    return f"{p['ep']} {p['mps']} {p['spw']} {skip} {gate_of(t)}"


def targets(tier):
    # quick: the small configuration (kernel-checked tie) + the complete device at the real sizes (max_packet_size 64,
    # 11-bit start_position); thorough adds the stubbed endpoint at the real sizes and two more small configurations
    ts = [mk("ctl_ep0", ep=0, mps=8, spw=4), mk_e2e()]
    if tier != "quick":
        ts += [mk("ctl_ep0_real", ep=0, mps=64, spw=11, kind="real"),
               mk("ctl_ep2_skip", ep=2, mps=8, spw=4, skip_req=9), mk("ctl_ep0_mps5", ep=0, mps=5, spw=3)]
    return ts


# ---- setup request templates ---------------------------------------------------------------------------------
def S(is_in, typ, rcpt, req, value, index, length):
    return dict(is_in_request=is_in, type=typ, recipient=rcpt, request=req, value=value, index=index, length=length)

TEMPLATES = [
    S(1, 0, 0, 6, 0x0100, 0, 18),      # GET_DESCRIPTOR(device)
    S(0, 0, 0, 5, 0x002A, 0, 0),       # SET_ADDRESS 42
    S(0, 0, 0, 9, 0x0001, 0, 0),       # SET_CONFIGURATION 1
    S(1, 0, 0, 0, 0, 0, 2),            # GET_STATUS
    S(1, 0, 0, 8, 0, 0, 1),            # GET_CONFIGURATION
    S(0, 0, 2, 1, 0, 0x0081, 0),       # CLEAR_FEATURE(ENDPOINT_HALT, ep 1 IN)
    S(0, 0, 0, 1, 1, 0, 0),            # CLEAR_FEATURE(DEVICE_REMOTE_WAKEUP): unsupported
    S(0, 0, 2, 1, 2, 0x0003, 0),       # CLEAR_FEATURE(endpoint, selector 2): unsupported
    S(0, 0, 0, 3, 1, 0, 0),            # SET_FEATURE: unsupported standard request, no data stage
    S(1, 0, 1, 10, 0, 0, 1),           # GET_INTERFACE: unsupported standard request, IN data stage
    S(0, 0, 0, 7, 0x0100, 0, 8),       # SET_DESCRIPTOR: unsupported standard request, OUT data stage
    S(1, 2, 0, 0x42, 0x1234, 0, 4),    # vendor IN request
    S(0, 1, 1, 0x20, 0, 0, 7),         # class OUT request with data (SET_LINE_CODING)
    S(0, 2, 0, 6, 0, 0, 0),            # vendor request, no data stage, request code of GET_DESCRIPTOR
]

# STANDARD requests whose bRequest is an implemented request code with bits 7:6 set (0x40 / 0x80 / 0xC0), and 0xFF:
# unsupported; a handler that decodes only the low bits of bRequest would execute them (seeded mutation C10_4)
IMPLEMENTED = [TEMPLATES[k] for k in (3, 5, 1, 0, 4, 2)]       # GET_STATUS, CLEAR_FEATURE(HALT), SET_ADDRESS, GET_DESCRIPTOR, GET_/SET_CONFIGURATION
HIGH_REQ_TEMPLATES = [dict(t, request=t["request"] | hi) for t in IMPLEMENTED for hi in (0x40, 0x80, 0xC0)] + \
                     [dict(TEMPLATES[1], request=0xFF)]


def rand_setup(rng):
    r = rng.random()
    if r < 0.12:
        s = dict(rng.choice(HIGH_REQ_TEMPLATES))
        if rng.random() < 0.3:
            s["request"] = rng.choice([s["request"], (s["request"] & 0x3F) | rng.choice([0x40, 0x80, 0xC0])])
        return s
    if r < 0.7:
        s = dict(rng.choice(TEMPLATES))
        if rng.random() < 0.2:
            s["length"] = rng.choice([0, 1, 8, 0x100, 0xFFFF])
        if rng.random() < 0.2:
            s["is_in_request"] = rng.randrange(2)
        return s
    return S(rng.randrange(2), rng.choice([0, 0, 0, 1, 2, 3]), rng.choice([0, 1, 2, 3, 31]),
             rng.choice([0, 1, 3, 5, 6, 7, 8, 9, 10, 11, 12, 0x42, 0x45, 0x86, 0xC9, 0xFF, rng.randrange(256)]),
             rng.choice([0, 1, 2, 0x0100, 0x0200, 0xFFFF, rng.randrange(1 << 16)]),
             rng.choice([0, 0x81, 0x02, rng.randrange(1 << 16)]),
             rng.choice([0, 0, 1, 2, 8, 18, 64, 0x100, 0xFFFF]))


# ---- host-script generator: interface-level event sequences --------------------------------------------------
KIND = {"in": "is_in", "out": "is_out", "setup": "is_setup", "ping": "is_ping"}


class Gen:
    """Builds a trace cycle by cycle.  Level signals (token kind / endpoint; setup fields) are registers of the
    producers: they keep their value until the producer's strobe."""
    def __init__(self, rng, ep, noise=0.0):
        self.rng = rng; self.ep = ep; self.noise = noise
        self.tok = dict(is_in=0, is_out=0, is_setup=0, is_ping=0, endpoint=0)
        self.setup = S(0, 0, 0, 0, 0, 0, 0)
        self.tr = []

    def cyc(self, **strobes):
        c = dict(new_token=0, rfr=0, received=0, setup_ack=0, rx_rfr=0, hs_ack=0, desc_stall=0, desc_valid=0, desc_first=0,
                 desc_last=0, ser_valid=0, ser_first=0, ser_last=0)
        c.update(self.tok); c.update(self.setup); c.update(strobes)
        if self.noise and self.rng.random() < self.noise:
            k = self.rng.choice(["hs_ack", "desc_stall", "desc_valid", "ser_valid", "rx_rfr", "rfr", "setup_ack", "desc_last", "ser_last"])
            c[k] = 1
        self.tr.append(c)

    def idle(self, n=None):
        for _ in range(self.rng.randint(0, 3) if n is None else n):
            self.cyc()

    def token(self, kind, ep=None, respond=True):
        ep = self.ep if ep is None else ep
        self.tok = dict(is_in=0, is_out=0, is_setup=0, is_ping=0, endpoint=ep)
        self.tok[KIND[kind]] = 1
        self.cyc(new_token=1)
        self.idle()
        if respond:
            self.cyc(rfr=1)
            self.idle()

    def setup_xact(self, s, ep=None, lost=False):
        """SETUP token + DATA0; `lost`: the data packet is corrupted, nothing is reported"""
        self.token("setup", ep=ep, respond=self.rng.random() < 0.5)
        if lost:
            return
        self.setup = dict(s)
        self.cyc(received=1, setup_ack=self.rng.randrange(2))
        self.idle()
        if self.rng.random() < 0.5:
            self.cyc(setup_ack=1)

    def in_xact(self, ep=None, acked=True, data=None):
        """IN token, response opportunity, whatever the data sources present, host handshake"""
        self.token("in", ep=ep, respond=False)
        n = self.rng.randint(0, 3)
        self.cyc(rfr=1, **(data or {}))
        for k in range(n):
            self.cyc(**(data or {}))
        self.idle()
        if acked:
            self.cyc(hs_ack=1)
            self.idle()

    def out_xact(self, ep=None, ping=False, good=True):
        self.token("ping" if ping else "out", ep=ep, respond=ping or self.rng.random() < 0.3)
        if ping:
            return
        self.idle()
        if good:
            self.cyc(rx_rfr=1)
        self.idle()


def data_stub(rng):
    r = rng.random()
    if r < 0.35: return dict(desc_valid=1, desc_first=rng.randrange(2), desc_last=rng.randrange(2))
    if r < 0.55: return dict(ser_valid=1, ser_first=rng.randrange(2), ser_last=rng.randrange(2))
    if r < 0.70: return dict(desc_stall=1)
    if r < 0.80: return dict(desc_valid=1, ser_valid=1, desc_last=1)
    return {}


def host_trace(rng, ep, n_xfers, abandon=0.35, foreign=0.3, noise=0.0):
    g = Gen(rng, ep, noise)
    other = [e for e in (0, 1, 2, 3, 15) if e != ep]
    def maybe_foreign():
        while rng.random() < foreign:
            k = rng.random()
            e = rng.choice(other)
            if k < 0.4: g.in_xact(ep=e, acked=rng.random() < 0.8, data=data_stub(rng))
            elif k < 0.7: g.out_xact(ep=e, ping=rng.random() < 0.2)
            elif k < 0.85: g.token("setup", ep=e)
            else: g.token(rng.choice(["in", "out", "ping"]), ep=e)
    g.idle()
    for _ in range(n_xfers):
        s = rand_setup(rng)
        maybe_foreign()
        g.setup_xact(s, lost=rng.random() < 0.1)
        maybe_foreign()
        stages = []
        if s["length"]:
            stages += [("din" if s["is_in_request"] else "dout")] * rng.randint(1, 3)
            stages += ["sout" if s["is_in_request"] else "sin"]
        else:
            stages += ["sin"]
        if rng.random() < 0.15:
            rng.shuffle(stages)
        for st in stages:
            if rng.random() < abandon / len(stages):
                break
            if st in ("din", "sin"):
                g.in_xact(acked=rng.random() < 0.85, data=data_stub(rng))
            else:
                if rng.random() < 0.2: g.out_xact(ping=True)
                g.out_xact(good=rng.random() < 0.9)
            maybe_foreign()
        if rng.random() < 0.2:                       # stray extra token after the transfer
            g.in_xact(acked=False) if rng.random() < 0.5 else g.out_xact()
    g.idle(2)
    return g.tr


def random_cycles(rng, n, ep):
    """adversarial: independent random input words (sparse strobes, fields from the templates or random)"""
    tr = []
    s = rand_setup(rng)
    for _ in range(n):
        if rng.random() < 0.15:
            s = rand_setup(rng)
        c = dict(s)
        kind = rng.choice(["is_in", "is_out", "is_setup", "is_ping", None])
        for k in ("is_in", "is_out", "is_setup", "is_ping"):
            c[k] = int(k == kind) if rng.random() < 0.95 else rng.randrange(2)
        c["endpoint"] = ep if rng.random() < 0.7 else rng.randrange(16)
        for k, p in (("new_token", .3), ("rfr", .3), ("received", .15), ("setup_ack", .1), ("rx_rfr", .2), ("hs_ack", .25),
                     ("desc_stall", .1), ("desc_valid", .2), ("desc_first", .1), ("desc_last", .1), ("ser_valid", .2),
                     ("ser_first", .1), ("ser_last", .1)):
            c[k] = int(rng.random() < p)
        tr.append(c)
    return tr


def traces(target, rng, tier):
    if target.kind == "e2e":
        return e2e_traces(rng, 6 if tier == "quick" else 16)
    ep = target.params["ep"]
    n = 18 if tier == "quick" else 60
    out = []
    for k in range(n):
        out.append(host_trace(rng, ep, rng.randint(1, 6), abandon=rng.choice([0.0, 0.35, 0.7]),
                              foreign=rng.choice([0.0, 0.3, 0.5]), noise=rng.choice([0.0, 0.0, 0.05])))
    for k in range(n // 3):
        out.append(random_cycles(rng, rng.randint(20, 120), ep))
    return out


TIE_IMPORTS = "From LunaLib Require Import PackN.\nFrom LunaModel Require Import CtlXfer CtlXfer_proofs.\n"
ASSUMPTIONS = [
    "interface-event level (DESIGN.md section 3, composite properties): the targets are the real USBControlEndpoint + StandardRequestHandler + "
    "USBRequestHandlerMultiplexer + StallOnlyRequestHandler of /repo, with three data producers replaced by port-only stubs -- "
    "USBSetupDecoder (SetupPacket record and its ACK request become inputs; subject of C06), the GET_DESCRIPTOR handler (via "
    "get_descriptor_handler_submodule(); stall / tx stream inputs, start / start_position outputs; C09) and the 2-byte StreamSerializer "
    "(tx stream input, start output).  The token detector (C01), data receiver (C02) and handshake detector (C04) are outside "
    "USBControlEndpoint(standalone=False) anyway; their reports are inputs.  Cone-of-influence slicing (harness/slice.py) drops the rest "
    "(rx pass-through, timer/CRC plumbing) after checking that no undeclared input can reach a declared output",
    "environment hypothesis of the trace theorems (cx_env_trace; contracts of the token detector and the SETUP decoder): tokenizer.endpoint "
    "changes only in cycles with new_token; at most one of is_in/is_out/is_setup/is_ping is high; setup.received comes at most once per "
    "SETUP token, after it, before any other token, not together with new_token.  Not assumed: timing, a protocol-abiding host, which "
    "endpoint tokens address, anything about handshakes or the data sources.  C07_foreign_tokens_invisible needs no hypothesis at all",
    "as found, USBSetupDecoder accepts SETUP tokens for ANY endpoint (it never looks at tokenizer.endpoint): after a SETUP transaction to "
    "another endpoint it overwrites the shared setup fields, reports `received` and requests an ACK.  At this level that is an input "
    "(`received` while endpoint != EP): the stage FSM ignores it (modelled, proved), the request handlers do not (modelled as in the code: "
    "they re-dispatch); the non-interference theorem therefore leaves `received` and the setup fields unchanged between the two runs it "
    "compares.  Reported as part of finding C07-foreign-setup; only devices addressed with SETUP on a non-zero endpoint are affected",
    "handshakes_in.ack is taken as in the code: ANY host ACK completes a pending SET_ADDRESS / SET_CONFIGURATION / CLEAR_FEATURE and advances "
    "GET_DESCRIPTOR (the subject of C08, not restated here)",
    "model parameter `gate` (C08's candidate repair of handle_register_write_request present or not) is chosen per run by a 3-cycle probe "
    "of the real module on the simulator (props/C07.py gate_of); every model theorem is proved for both values",
    "PING is answered with ACK in the OUT data / OUT status phases by the stage FSM regardless of the request ([USB2.0 8.5.1]; modelled)",
    "netlist = model is kernel-checked for all traces, of any length, over a finite set of input words (request templates x token contexts "
    "incl. another endpoint and non-one-hot kinds x strobe combinations, every word may follow every word: no stability of fields or context "
    "is assumed); words outside the set (other field values) are covered by correspondence on simulator traces only",
    "tie configurations: (endpoint 0, max_packet_size 8, 4-bit start_position), and in the thorough tier (endpoint 2, skiplist = "
    "SET_CONFIGURATION) and (max_packet_size 5, 3-bit start_position: wrap-around); correspondence additionally at the real sizes "
    "(max_packet_size 64, 11-bit start_position): thorough tier on the stubbed endpoint, both tiers on target dev_e2e",
    "target dev_e2e: the complete USBDevice with a control endpoint assembled as add_standard_control_endpoint() does (the submodules that "
    "USBControlEndpoint / StandardRequestHandler create inside elaborate() -- USBSetupDecoder, GET_DESCRIPTOR handler, StreamSerializer -- are "
    "created by the harness with the same classes and arguments so that their signals can be observed), full speed, device address 0, "
    "tx_ready always high, line state J; inputs are UTMI receive cycles from a host-script generator; the interface events are OUTPUT ports; "
    "the monitors read the event word and the answer word from the output word",
]


# ---- input alphabets of the kernel-checked netlist = model obligations ---------------------------------------
def alphabet(ep, tier, high_req=False):
    """Input words = (setup fields of a request template) x (token context) x (a set of strobe combinations).
    Every word may follow every other word: fields and token context are NOT assumed stable between cycles.
    high_req: additionally the HIGH_REQ_TEMPLATES (bRequest = implemented code | 0x40 / 0x80 / 0xC0, and 0xFF) x
    {IN, OUT context for this endpoint} x {none, received, answer opportunities, host ACK, new token}."""
    other = 1 if ep != 1 else 0
    if tier == "quick":
        tmpl = [TEMPLATES[k] for k in (0, 1, 3, 5, 6, 9, 10, 11)]
        ctx = [("in", ep), ("out", ep), ("setup", ep), ("ping", ep), ("in", other), ("setup", other)]
        strobes = [{}, {"new_token": 1}, {"rfr": 1}, {"received": 1}, {"rx_rfr": 1}, {"hs_ack": 1}, {"desc_stall": 1},
                   {"rfr": 1, "hs_ack": 1}, {"received": 1, "setup_ack": 1, "hs_ack": 1},
                   {"rfr": 1, "rx_rfr": 1, "desc_valid": 1, "ser_valid": 1, "desc_first": 1, "ser_last": 1},
                   {"new_token": 1, "rx_rfr": 1, "desc_stall": 1, "desc_last": 1, "ser_first": 1}]
    else:
        tmpl = TEMPLATES
        ctx = [(k, e) for e in (ep, other) for k in ("in", "out", "setup", "ping")] + [("in+setup", ep)]
        strobes = [{}, {"new_token": 1}, {"rfr": 1}, {"received": 1}, {"rx_rfr": 1}, {"hs_ack": 1}, {"desc_stall": 1},
                   {"rfr": 1, "hs_ack": 1}, {"rfr": 1, "desc_stall": 1}, {"new_token": 1, "received": 1},
                   {"received": 1, "setup_ack": 1, "hs_ack": 1, "rx_rfr": 1},
                   {"rfr": 1, "rx_rfr": 1, "desc_valid": 1, "ser_valid": 1, "desc_first": 1, "ser_last": 1},
                   {"new_token": 1, "rx_rfr": 1, "desc_stall": 1, "desc_last": 1, "ser_first": 1},
                   {"new_token": 1, "rfr": 1, "hs_ack": 1, "setup_ack": 1}]
    words = []
    for t in tmpl:
        for kind, e in ctx:
            for s in strobes:
                c = dict(t); c["endpoint"] = e
                if kind:
                    for k in kind.split("+"):
                        c[KIND[k]] = 1
                c.update(s)
                w = pack_word(c)
                if w not in words:
                    words.append(w)
    if high_req:
        for t in HIGH_REQ_TEMPLATES:
            for kind in ("in", "out"):
                for st in ({}, {"received": 1}, {"rfr": 1}, {"rx_rfr": 1}, {"hs_ack": 1}, {"new_token": 1}):
                    c = dict(t); c["endpoint"] = ep; c[KIND[kind]] = 1; c.update(st)
                    w = pack_word(c)
                    if w not in words:
                        words.append(w)
    return words


def skip_expr(t):
    return "skip_none" if t.params["skip_req"] is None else f"(skip_req {t.params['skip_req']})"


def e2e_obligations(t, small, which):
    """monitors over the e2e target: the interface events are bits 0..84 of ITS OUTPUT word, the endpoint's answers the
    next E2E_OUT_BITS bits"""
    gate = gate_of(small)
    obs = []
    W, A = f"(bits o 0 {IN_BITS})", f"(bits o {IN_BITS} {E2E_OUT_BITS})"
    if "spec" in which:
        obs.append(tie.cmon(f"spec_{t.name}", t, mon=f"(fun m i o => cx_mon 0 skip_none m {W} {A})", m0="(mon_enc mon0)",
                            describe="C07 specification monitor on the complete USBDevice driven over UTMI (real token detector, SETUP "
                                     "decoder, descriptor handler, serializer): interface events and answers read off the implementation run"))
    if "stall" in which:
        obs.append(tie.cmon(f"stall_{t.name}", t, mon=f"(fun m i o => c10_mon 0 skip_none m {W} {A})", m0="(st10_enc st10_0)",
                            describe="C10 specification monitor on the complete USBDevice driven over UTMI"))
    obs.append(tie.cmon(f"model_{t.name}", t,
                        mon=f"(fun m i o => let (s', a) := cx_stepN 0 64 11 skip_none {gate} (cx_dec m) {W} in Some (cx_enc s', a =? {A}))",
                        m0="(cx_enc cx_init)",
                        describe="model vs complete USBDevice driven over UTMI: the model, fed with the interface events of the implementation "
                                 "run, must produce the implementation's answers in every cycle"))
    return obs


def obligations(targets, tier):
    obs = []
    for t in targets:
        if t.kind == "e2e":
            obs += e2e_obligations(t, targets[0], ("spec",))
            continue
        P = coq_params(t)
        if t.kind == "small":
            al = alphabet(t.params["ep"], tier)
            obs.append(tie_explicit.rlock_alpha(
                f"ob_{t.name}", t, St="cx_state", mstep=f"cx_stepN {P}", enc="cx_enc", dec="cx_dec",
                wf="(fun _ => True)", dec_enc="(fun s _ => cx_dec_enc s)", wf_step="(fun _ _ _ => I)",
                m0="cx_init", wf_m0="exact I.", alphabet="[" + "; ".join(str(w) for w in al) + "]", fuel=100000,
                describe=f"USBControlEndpoint(endpoint {t.params['ep']}) + StandardRequestHandler(max_packet_size {t.params['mps']}"
                         f"{', skiplist request ' + str(t.params['skip_req']) if t.params['skip_req'] is not None else ''}) + multiplexer + "
                         f"fallback (sliced netlist, decoder / descriptor handler / serializer as ports) == model, all traces over "
                         f"{len(al)} input words"))
        obs.append(tie.cmon(f"spec_{t.name}", t, mon=f"(cx_mon {t.params['ep']} {skip_expr(t)})", m0="(mon_enc mon0)",
                            describe="specification (stage protocol, causes of answers, first answer of a fresh transfer) evaluated over "
                                     "simulator traces of the real module, while the environment hypothesis holds"))
        obs.append(tie.corr(f"corr_{t.name}", t, mstep=f"cx_stepN {P}", m0="cx_init",
                            describe="model vs simulator of the real module: host scripts (abandoned transfers, traffic to other endpoints, "
                                     "arbitrary requests) and unconstrained random input words, every output of every cycle"))
    return obs


def tie_theorems(targets, tier):
    s = ""
    for t in targets:
        if t.kind != "small":
            continue
        ep = t.params["ep"]; sk = skip_expr(t)
        ext = "exact skip_none_ext" if t.params["skip_req"] is None else f"exact (skip_req_ext {t.params['skip_req']})"
        s += f"""
Theorem C07_{t.name} : forall tr, Forall (fun i => In i ob_{t.name}.alpha) tr -> cx_env_trace cx_env0 tr = true ->
  let outs := map cx_unpack (run {t.modname}.step {t.modname}.init tr) in
  holds_along {ep} sp0 tr outs /\\ fresh_along {ep} {sk} sp0 false tr outs = true.
Proof.
  intros tr H He. cbv zeta. rewrite (ob_{t.name}_T.tie tr H (env_ok_true _ _ _ _)), unpack_run.
  split; [apply stage_protocol; exact He | apply first_answers_fresh; [{ext} | exact He]].
Qed.
"""
    return s


def tie_theorem_names(targets, tier):
    return [f"C07_{t.name}" for t in targets if t.kind == "small"]


LEVEL_TEXT = ("Machine-checked proof, at the level of LUNA's own interfaces (token / SETUP / rx / handshake reports in, requests to the "
              "request handler and answers out). (1) Parametric model theorems (all endpoint numbers, packet sizes, skiplists; unbounded "
              "histories; under the stated producer contracts): C07_stage_protocol -- data is requested exactly in the data stage of a "
              "device-to-host request with wLength <> 0 at an IN answer opportunity for this endpoint, status exactly at the answer opportunity "
              "of the opposite direction (IN if no data stage), PING ACKed exactly in OUT phases, and every answer has a cause; "
              "C07_current_transfer -- the transfer in progress is the last SETUP packet for this endpoint not followed by a SETUP token for it; "
              "C07_fresh_after_setup / C07_history_independent / C07_nonstandard_history_independent / C07_first_answers_fresh -- every new SETUP "
              "puts stage FSM, request FSM, data PID, start_position and expecting_ack into the state that request calls for, whatever was "
              "abandoned before, and the first data/status request is answered as the request's class demands; C07_foreign_tokens_invisible -- "
              "token reports for other endpoints change neither outputs nor state (no hypothesis; with C08's repair of the register-write states, which "
              "deliberately watch every new_token, the compared histories keep new_token). (2) Per run, the netlist regenerated from "
              "/repo is proved equal to the model on all traces over the tie alphabets (certified product reachability), which transfers (1) to "
              "the netlist (C07_<target>). (3) Checked, not proved: model correspondence and specification monitors on simulator traces of the "
              "stubbed endpoint (host scripts + unconstrained random words), and on the COMPLETE USBDevice (real token detector, SETUP decoder, "
              "descriptor ROM handler, serializer; max_packet_size 64) driven over UTMI by host scripts with abandoned transfers and traffic to "
              "other endpoints: the model, fed with the interface events read off the implementation run, reproduces the endpoint's answers in "
              "every cycle, and the specification monitors accept.")
LEVEL_NOTE = ("The model is the property-satisfying behaviour; the unchanged /repo violates the property in three places (findings/C07-*.json, "
              "candidate patch findings/C07-fresh-setup.diff): (a) StandardRequestHandler dispatches setup.received only in IDLE, so a transfer "
              "abandoned before its status stage / host ACK leaves the handler in the old request's state and the next SETUP is answered by the "
              "old request's logic; (b) _handle_setup_reset is not gated by endpoint_targeted, so a SETUP token to another endpoint aborts the "
              "transfer; (c) see C10. `./check C07` exits 1 on the unchanged tree and 0 with the patch. Partial / assumed: the producers of the "
              "interface events are stubs in the proved tie (their contracts are C01/C02/C04/C06/C09 and the environment hypothesis); with the real "
              "producers (complete device over UTMI) the statements are only checked on simulator traces; the property is stated on interface "
              "events, not restated on UTMI bytes; the netlist tie quantifies over finite input alphabets; the SETUP decoder's acceptance of SETUP "
              "tokens for other endpoints is recorded as a finding, not repaired in the model's inputs. Trusted: Coq kernel + vm_compute, "
              "Amaranth elaboration, nir2coq.py/Netlist.v/slice.py (validated each run against pysim).")
TECHNIQUE = ("Rocq proof: history-function specification + simulation invariant (stage FSM = phase of the last SETUP), freshness and "
             "non-interference lemmas; certified product-reachability lock-step of the sliced netlist with the model over explicit input "
             "alphabets; specification monitors and model correspondence on simulator traces")
