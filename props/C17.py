"""C17 -- status IN endpoint (luna/gateware/usb/usb2/endpoints/status.py: USBSignalInEndpoint)."""
from harness.core import Target
from harness import tie, tie_alpha

PID = "C17"
ASSUMPTIONS = [
    "environment (model -> specification only): handshakes_in.ack and tokenizer.new_token are never asserted in the same cycle "
    "(they are raised by the handshake detector and the token detector for different received packets, each one cycle after its "
    "packet ended). If they did coincide the module would advance the toggle AND re-send the stale value; the netlist = model ties "
    "do not need the assumption",
    "a poll ('the request arrived') is the cycle with tokenizer.endpoint = endpoint_number, tokenizer.is_in and "
    "tokenizer.ready_for_response all high while the endpoint is idle; the signal is sampled in that cycle",
    "signal_domain = 'usb' (no synchroniser); width >= 1",
    "tx.payload is 0 whenever tx.valid is 0 (part of the specification: true of the module in every reachable state)",
    "kernel-checked netlist = model ties are over all traces whose signal values come from a finite set exercising every signal bit "
    "both ways (with a distinct signature per bit position) and whose tokenizer.endpoint comes from {endpoint_number, one or two others}; all control inputs unrestricted. "
    "Full-range signal / endpoint values: correspondence on simulator traces",
]
TIE_IMPORTS = "From LunaModel Require Import SignalIn SignalIn_proofs.\n"

CTRL = ["is_in", "ready_for_response", "new_token", "ack", "tx_ready"]


def mk(width, big, ep, r):
    def build():
        from luna.gateware.usb.usb2.endpoints.status import USBSignalInEndpoint
        d = USBSignalInEndpoint(width=width, endpoint_number=ep, endianness="big" if big else "little")
        i = d.interface
        ins = [("signal", d.signal), ("endpoint", i.tokenizer.endpoint), ("is_in", i.tokenizer.is_in),
               ("ready_for_response", i.tokenizer.ready_for_response), ("new_token", i.tokenizer.new_token),
               ("ack", i.handshakes_in.ack), ("tx_ready", i.tx.ready)]
        outs = [("tx_valid", i.tx.valid), ("tx_first", i.tx.first), ("tx_last", i.tx.last), ("tx_payload", i.tx.payload),
                ("tx_pid_toggle", i.tx_pid_toggle), ("status_read_complete", d.status_read_complete)]
        return d, ins, outs
    t = Target(f"sigin_w{width}_{'be' if big else 'le'}_ep{ep}", build)
    t.params = dict(width=width, big=big, ep=ep); t.r = r
    return t


def targets(tier):
    if tier == "quick":
        rcfg = [(1, False, 1), (8, True, 3), (12, False, 3), (12, True, 15)]
        ccfg = [(20, True, 2), (32, False, 5)]
    else:
        rcfg = [(1, False, 1), (1, True, 1), (8, True, 3), (8, False, 3), (9, True, 4), (12, False, 3), (12, True, 15),
                (16, False, 1), (20, True, 2)]
        ccfg = [(7, True, 0), (16, True, 1), (20, False, 2), (24, True, 7), (32, True, 5), (32, False, 5), (33, False, 9),
                (64, True, 14), (64, False, 14)]
    return [mk(w, b, e, True) for (w, b, e) in rcfg] + [mk(w, b, e, False) for (w, b, e) in ccfg]


def traces(target, rng, tier):
    p = target.params; W = p["width"]; ep = p["ep"]
    nb = (W + 7) // 8
    n = 16 if tier == "quick" else 60
    out = []
    def cyc(sig, **k):
        c = dict(signal=sig, endpoint=ep, is_in=0, ready_for_response=0, new_token=0, ack=0, tx_ready=0)
        c.update(k); return c
    for k in range(n):
        tr = []
        sig = rng.getrandbits(W)
        def newsig():
            nonlocal sig
            r = rng.random()
            if r < 0.5: sig = rng.getrandbits(W)
            elif r < 0.6: sig ^= 1 << rng.randrange(W)
            return sig
        if k % 4 == 3:      # adversarial: unstructured inputs (may break every protocol rule)
            for _ in range(rng.randint(5, 120)):
                tr.append(dict(signal=newsig(), endpoint=rng.choice([ep, ep, rng.randrange(16)]), is_in=rng.randrange(2),
                               ready_for_response=rng.randrange(2), new_token=int(rng.random() < 0.2), ack=int(rng.random() < 0.2),
                               tx_ready=rng.randrange(2)))
            out.append(tr); continue
        pready = rng.choice([0.3, 0.7, 1.0])
        for _ in range(rng.randint(1, 6)):          # transactions
            for _ in range(rng.randint(0, 3)): tr.append(cyc(newsig()))
            other = rng.random() < 0.2              # token for another endpoint / not IN
            e = ep if not other else rng.choice([x for x in range(16) if x != ep])
            tr.append(cyc(newsig(), endpoint=e, new_token=1, is_in=int(rng.random() < 0.9)))
            isin = tr[-1]["is_in"]
            for _ in range(rng.randint(0, 2)): tr.append(cyc(newsig(), endpoint=e, is_in=isin))
            tr.append(cyc(newsig(), endpoint=e, is_in=isin, ready_for_response=1))
            # enough ready cycles for a whole packet (harmless if the endpoint did not start one)
            sent = 0
            while sent < nb:
                rdy = int(rng.random() < pready); sent += rdy
                tr.append(cyc(newsig(), endpoint=e, is_in=isin, tx_ready=rdy))
            for _ in range(rng.randint(0, 2)): tr.append(cyc(newsig(), endpoint=e, is_in=isin))
            if rng.random() < 0.6:
                tr.append(cyc(newsig(), endpoint=e, is_in=isin, ack=1))
        tr += [cyc(newsig()) for _ in range(2)]
        out.append(tr)
    return out


def sig_alphabet(W, tier):
    """quick: 0, all-ones and the 'bit k of the bit index' masks with their complements (every bit position gets a unique
    signature, every bit takes both values); thorough: additionally every one-hot value (W <= 12) or those at byte borders"""
    full = (1 << W) - 1
    vals = [0, full]
    k = 0
    while (1 << k) < W:
        m = sum(1 << b for b in range(W) if (b >> k) & 1)
        vals += [m, full ^ m]; k += 1
    if tier != "quick":
        vals += [1 << k for k in (range(W) if W <= 12 else sorted({0, 7, 8, 15, W - 1} & set(range(W))))]
    seen = []
    for v in vals:
        if v not in seen: seen.append(v)
    return seen


def coqb(b):
    return "true" if b else "false"


def obligations(targets, tier):
    obs = []
    for t in targets:
        p = t.params; W = p["width"]; ep = p["ep"]; big = coqb(p["big"])
        mstep = f"si_step {W} {big} {ep}"
        desc = f"USBSignalInEndpoint(width={W}, endpoint_number={ep}, endianness={'big' if p['big'] else 'little'})"
        if not t.r:
            obs.append(tie.corr(f"corr_{t.name}", t, mstep=mstep, m0="si_init",
                                describe=desc + " vs FSM model on simulator traces, full-range signal and endpoint values, structured polls/retries + noise"))
            continue
        sigs = sig_alphabet(W, tier)
        eps = [ep, ep ^ 1] + ([ep ^ 8] if tier != "quick" and W <= 8 else [])
        alpha = (f"flat_map (fun s => flat_map (fun e => map (fun c => s + 2 ^ {W} * (e + 16 * c)) (range_bits 5)) "
                 f"[{'; '.join(map(str, eps))}]) [{'; '.join(map(str, sigs))}]")
        obs.append(tie_alpha.rlock_alpha(
            f"ob_{t.name}", t, St="si_state", mstep=mstep, enc=f"si_enc {W}", dec=f"si_dec {W}",
            wf=f"si_wf {W}", dec_enc=f"si_dec_enc {W}", wf_step=f"si_wf_step {W} {big} {ep}",
            m0="si_init", wf_m0=f"exact (si_wf_init {W}).", alphabet=alpha, fuel=100000,
            describe=desc + f" == FSM model in lock step: all traces with every control-input pattern, {len(sigs)} signal values "
                            f"covering every bit both ways, tokenizer.endpoint in {eps}"))
        obs.append(tie.corr(f"corr_{t.name}", t, mstep=mstep, m0="si_init",
                            describe=desc + " vs FSM model on simulator traces, full-range signal and endpoint values"))
    return obs


def tie_theorems(targets, tier):
    s = ""
    for t in targets:
        if not t.r: continue
        p = t.params; W = p["width"]; ep = p["ep"]; big = coqb(p["big"])
        s += f"""
Theorem C17_{t.name} : forall tr, Forall (fun i => In i ob_{t.name}.alpha) tr -> env_all {W} tr = true ->
  run {t.modname}.step {t.modname}.init tr = run (ssp_step {W} {big} {ep}) ssp_init tr.
Proof.
  intros tr H He. rewrite (ob_{t.name}_T.tie tr H (env_ok_true _ _ _ _)).
  apply sigin_from_reset; [lia | exact He].
Qed.
"""
    return s


def tie_theorem_names(targets, tier):
    return [f"C17_{t.name}" for t in targets if t.r]


LEVEL_TEXT = ("Machine-checked proof. (1) For every width W >= 1, both endiannesses, every endpoint number and every input history in which "
              "ACK and new_token strobes never coincide, the module model (FSM, byte counter of its real width, latched register, Array-style "
              "byte select) produces, on all six output ports and in every cycle, the outputs of the byte-list specification: a poll samples "
              "the signal and sends to_bytes(endianness, value) one byte per tx.ready with first/last flags; without ACK the next poll "
              "re-sends the same value with the same toggle; the toggle flips (and status_read_complete strobes) exactly on an ACK while "
              "waiting (C17_sigin_refines; reading lemmas C17_serialisation, C17_toggle_only_on_ack, C17_value_kept_until_ack, "
              "C17_send_progress). (2) For widths 1, 8, 12 (thorough: also 9, 16, 20; both byte orders) the netlist regenerated from "
              "/repo is proved equal to the model on all traces, of any length and with every control-input pattern, whose signal values "
              "come from a bit-covering finite set and whose tokenizer.endpoint is the endpoint's number or a neighbour (certified product "
              "reachability), giving C17_<cfg>: netlist = specification on those traces under the environment assumption. "
              "(3) Not proved, checked by correspondence on simulator traces: full-range signal values and endpoint numbers, widths up to "
              "32 (thorough: 64).")
LEVEL_NOTE = ("Trusted: Coq kernel + vm_compute, Amaranth elaboration, nir2coq.py/Netlist.v (validated each run against pysim). "
              "The netlist tie restricts data VALUES (signal, tokenizer.endpoint) to finite alphabets because 2^(W+9) input words per state "
              "are out of reach for explicit-state closure; trace length, strobe timing and tx.ready patterns are unrestricted. "
              "Robustness remark (not a violation under the stated environment): if an ACK and a new token coincided, the module would "
              "flip the toggle and still re-send the old value.")
TECHNIQUE = ("Rocq proof: simulation relation between the counter/index FSM model and a byte-list specification (parametric in width, "
             "endianness, endpoint) + certified product-reachability of regenerated netlists over bit-covering value alphabets + "
             "simulator correspondence at realistic widths")
