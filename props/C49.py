"""C49 -- UART transmitters (luna/gateware/interface/uart.py: UARTTransmitter, UARTMultibyteTransmitter)."""
from harness.core import Target
from harness import tie, tie_dep

PID = "C49"
TIE_IMPORTS = "From LunaLib Require Import ReachDep.\nFrom LunaModel Require Import Uart Uart_proofs.\n"


def mk_uart(div, big=False):
    def build():
        from luna.gateware.interface.uart import UARTTransmitter
        d = UARTTransmitter(divisor=div)
        return d, [("valid", d.stream.valid), ("payload", d.stream.payload)], \
                  [("tx", d.tx), ("ready", d.stream.ready), ("idle", d.idle), ("driving", d.driving)]
    t = Target(f"uart_d{div}", build)
    t.params = dict(kind="uart", div=div, bw=1, big=big)
    return t


def mk_multi(bw, div, big=False):
    def build():
        from luna.gateware.interface.uart import UARTMultibyteTransmitter
        d = UARTMultibyteTransmitter(byte_width=bw, divisor=div)
        return d, [("valid", d.stream.valid), ("payload", d.stream.payload)], \
                  [("tx", d.tx), ("ready", d.stream.ready), ("idle", d.idle)]
    t = Target(f"uartmulti_b{bw}_d{div}", build)
    t.params = dict(kind="multi", div=div, bw=bw, big=big)
    return t


def targets(tier):
    ts = [mk_uart(1), mk_uart(2), mk_uart(3)]
    ts += [mk_uart(d, big=True) for d in ([5, 16] if tier == "quick" else [4, 5, 7, 16, 52, 521])]
    ts += [mk_multi(1, 1), mk_multi(2, 2)]
    ts += [mk_multi(b, d, big=True) for (b, d) in ([(4, 3), (3, 5)] if tier == "quick"
                                                   else [(4, 3), (3, 5), (4, 16), (8, 2), (1, 7), (4, 52)])]
    return ts


def traces(target, rng, tier):
    """Byte streams with back-to-back, spaced and 'valid withdrawn' patterns."""
    p = target.params
    div, bw = p["div"], p["bw"]
    frame = 10 * div
    n = (10 if tier == "quick" else 40)
    if div > 50:
        n = max(3, n // 4)
    out = []
    mask = (1 << (8 * bw)) - 1
    special = [0, mask, 0x55555555_55555555 & mask, 0xAAAAAAAA_AAAAAAAA & mask, 1, 1 << (8 * bw - 1),
               0x0102030405060708 & mask]
    for k in range(n):
        style = rng.choice(["b2b", "spaced", "random", "boundary"])
        words = rng.randint(1, 4)
        tr = []
        for _ in range(rng.randint(0, 3)):
            tr.append({"valid": 0, "payload": rng.getrandbits(8 * bw)})
        for wi in range(words):
            data = rng.choice(special) if rng.random() < 0.3 else rng.getrandbits(8 * bw)
            if style == "b2b":
                hold = frame * bw + 2
                tr += [{"valid": 1, "payload": data}] * hold
            elif style == "spaced":
                tr += [{"valid": 1, "payload": data}] * rng.randint(1, 3)
                tr += [{"valid": 0, "payload": rng.getrandbits(8 * bw)} for _ in range(frame * bw + rng.randint(0, 2 * div + 3))]
            elif style == "boundary":
                # offer the word exactly around the end of a frame
                gap = frame * bw + rng.choice([-2, -1, 0, 1, 2])
                tr += [{"valid": 0, "payload": 0}] * max(0, gap)
                tr += [{"valid": 1, "payload": data}] * rng.randint(1, 2)
            else:
                for _ in range(rng.randint(1, frame * bw + 5)):
                    tr.append({"valid": int(rng.random() < 0.3), "payload": rng.getrandbits(8 * bw)})
        tr += [{"valid": 0, "payload": 0}] * (frame * bw + 3)
        out.append(tr)
    return out


def model_exprs(t):
    p = t.params
    if p["kind"] == "uart":
        return f"u_step {p['div']}", "u_init"
    return f"m_step {p['bw']} {p['div']}", "m_init"


MULTI_WORDS = {1: [0x00, 0xFF, 0x55, 0x81], 2: [0x0000, 0xFFFF, 0x01FE, 0xA55A]}


def full_alphabet(t, tier):
    """configurations whose lock-step closure is also run over the complete 2^9 alphabet in every state"""
    return tier != "quick" and t.params["kind"] == "uart" and t.params["div"] <= 2 and not t.params["big"]


def obligations(targets, tier):
    obs = []
    for t in targets:
        mstep, m0 = model_exprs(t)
        p = t.params
        if p["big"]:
            obs.append(tie.corr(f"corr_{t.name}", t, mstep=mstep, m0=m0,
                                describe=f"code-shaped model vs Amaranth simulator (beyond the R tie): {p['kind']} "
                                         f"divisor={p['div']} byte_width={p['bw']}"))
        elif p["kind"] == "uart":
            obs.append(tie_dep.rlock_dep(
                f"ob_{t.name}", t, St="u_state", mstep=mstep, enc="u_enc", dec="u_dec", wf="u_wf",
                dec_enc="u_dec_enc", wf_step=f"u_wf_step {p['div']}", m0=m0, wf_m0="exact u_wf_init.",
                alpha="u_alpha", fuel=100000,
                describe=f"UARTTransmitter(divisor={p['div']}) == FSM model on all traces with any of the 2^9 "
                         f"valid/payload words in ready cycles and one of 6 probe words in non-ready cycles"))
            if full_alphabet(t, tier):
                obs.append(tie.rlock(
                    f"obfull_{t.name}", t, St="u_state", mstep=mstep, enc="u_enc", dec="u_dec", wf="u_wf",
                    dec_enc="u_dec_enc", wf_step=f"u_wf_step {p['div']}", m0=m0, wf_m0="exact u_wf_init.",
                    alpha_bits=9, fuel=100000,
                    describe=f"UARTTransmitter(divisor={p['div']}) == FSM model, every valid/payload trace"))
        else:
            words = "[" + "; ".join(str(w) for w in MULTI_WORDS[p["bw"]]) + "]"
            obs.append(tie_dep.rlock_dep(
                f"ob_{t.name}", t, St="m_state", mstep=mstep, enc="m_enc", dec="m_dec", wf="m_wf",
                dec_enc="m_dec_enc", wf_step=f"m_wf_step {p['bw']} {p['div']} eq_refl eq_refl", m0=m0,
                wf_m0="exact m_wf_init.", alpha=f"m_alpha {words}", fuel=100000,
                describe=f"UARTMultibyteTransmitter(byte_width={p['bw']}, divisor={p['div']}) == model on all traces "
                         f"(any valid pattern) whose payload words are drawn from {[hex(w) for w in MULTI_WORDS[p['bw']]]}"))
            obs.append(tie.corr(f"corr_{t.name}", t, mstep=mstep, m0=m0,
                                describe=f"same configuration, random payload words, model vs simulator"))
    return obs


def tie_theorems(targets, tier):
    s = ""
    for t in targets:
        p = t.params
        if p["big"]:
            continue
        G = t.modname
        if p["kind"] == "uart":
            s += f"""
Theorem C49_{t.name} : forall tr, alpha_ok u_state (u_step {p['div']}) u_alpha u_init tr = true ->
  run {G}.step {G}.init tr = run (us_step {p['div']}) us_init tr.
Proof. intros tr H. rewrite (ob_{t.name}_T.tie tr H). apply uart_from_reset. lia. Qed.
"""
            if full_alphabet(t, tier):
                s += f"""
Theorem C49_full_{t.name} : forall tr, Forall (fun i => i < 2 ^ N.of_nat 9) tr ->
  run {G}.step {G}.init tr = run (us_step {p['div']}) us_init tr.
Proof. intros tr H. rewrite (obfull_{t.name}_T.tie tr H (env_ok_true _ _ _ _)). apply uart_from_reset. lia. Qed.
"""
        else:
            words = "[" + "; ".join(str(w) for w in MULTI_WORDS[p["bw"]]) + "]"
            s += f"""
Theorem C49_{t.name} : forall tr, alpha_ok m_state (m_step {p['bw']} {p['div']}) (m_alpha {words}) m_init tr = true ->
  run {G}.step {G}.init tr = run (ms_step {p['bw']} {p['div']}) ms_init tr.
Proof. intros tr H. rewrite (ob_{t.name}_T.tie tr H). apply multi_from_reset; lia. Qed.
"""
    return s


def tie_theorem_names(targets, tier):
    out = []
    for t in targets:
        if t.params["big"]:
            continue
        out.append(f"C49_{t.name}")
        if full_alphabet(t, tier):
            out.append(f"C49_full_{t.name}")
    return out


ASSUMPTIONS = [
    "environment: none -- valid and payload are unconstrained in the parametric theorems (any byte stream, any valid pattern)",
    "R tie configurations: UARTTransmitter divisor in {1,2,3}; UARTMultibyteTransmitter (byte_width, divisor) in {(1,1),(2,2)}; "
    "the payload width of UARTTransmitter is fixed at 8 by the code",
    "R tie alphabets: UARTTransmitter -- all 2^9 input words in ready cycles, 6 probe words (0, valid+00, valid+FF, valid+55, FF, AA) "
    "in non-ready cycles (thorough tier: additionally every input word in every cycle at divisor 1 and 2); "
    "UARTMultibyteTransmitter -- any valid pattern, payload words from a fixed 4-element set per configuration",
    "correspondence (simulator vs model, random bytes/words and valid patterns) at divisors 5, 16 (thorough: 4, 5, 7, 16, 52, 521) "
    "and multi-byte (4,3), (3,5) (thorough: also (4,16), (8,2), (1,7), (4,52))",
    "`idle` of UARTMultibyteTransmitter means 'no byte left to hand over'; the last frame may still be on the wire "
    "(this is what the code does and what the specification ms_idle says)",
]
LEVEL_TEXT = (
    "Machine-checked proof. (1) For every divisor >= 1 and every valid/payload history the FSM model of UARTTransmitter "
    "(states, baud counter, bit counter, 10-bit shift register as in uart.py) has exactly the outputs tx/ready/idle/driving of the "
    "sample-queue specification: idle-high line, a byte is accepted only in a ready cycle (idle or last cycle of a stop bit) and is "
    "framed from the very next cycle as 0, b0..b7, 1 with each bit held exactly `divisor` cycles (C49_uart_refines, simulation "
    "relation + induction; C49_frame_exact/_frame_end/_idle_high unfold the specification on traces). (2) For every byte_width >= 1 the "
    "model of UARTMultibyteTransmitter equals a byte-queue specification feeding the same line specification, and a word accepted from "
    "rest appears as the frames of its bytes least-significant byte first, back to back (C49_multi_refines, C49_multi_little_endian). "
    "(3) For each tie configuration the netlist regenerated from /repo is proved equal to the model on all traces over the stated "
    "alphabets by a kernel-checked closure of the product state space, giving netlist = specification (C49_<cfg>).")
LEVEL_NOTE = (
    "Trusted: Coq kernel + vm_compute, Amaranth elaboration to NIR, nir2coq.py/Netlist.v (validated each run against Amaranth's simulator). "
    "The netlist tie is per configuration and, in the quick tier, restricts the inputs applied in NON-ready cycles of UARTTransmitter to 6 "
    "probe words (all 512 words in ready cycles); the thorough tier removes that restriction at divisor 1 and 2. The multi-byte tie "
    "restricts payload words to a 4-element set (control behaviour is covered for every valid pattern; the data path is a plain shift "
    "register and is covered by correspondence on random words). Other divisors/widths rest on the parametric model theorems plus "
    "correspondence runs.")
TECHNIQUE = ("Rocq proof: simulation relation to a sample-queue specification (all divisors / byte widths) + certified "
             "product-reachability (state-dependent alphabet) against the netlist regenerated from source + simulator correspondence")
